#!/bin/bash
# Build the Rocq development from files on disk (offline). Full .vo build, never -vos.
cd "$(dirname "$0")" || exit 2
mkdir -p build evidence replays
harness/mkproject.sh || exit 2
cd coq && timeout 3000 make -j16 2>&1 | tail -20
exit ${PIPESTATUS[0]}
