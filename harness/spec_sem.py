"""Standalone PYTHON reference of the ISLa SPECIFICATION semantics (sphinx/islaspec.rst, section
Semantics) over isla Formula / DerivationTree objects.  Mirrors coq/Logic/Semantics.v
(`models`, `smatch`, `spred_sem`, `sempred_sem`) and does NOT use isla.evaluator.

* assignments map variables to POSITIONS (paths) of the reference tree: ("pos", path), or to
  free-standing numerals: ("num", n)
* subtrees(N, t) = positions at or below the position of t whose label is N
* a DerivationTree occurring in a formula denotes the position(s) of the reference tree with
  the same id
* SMT atoms: "beta |= phi iff sat(not phi[beta]) = UNSAT", decided by Z3 itself on the
  instantiated (ground) atom (z3.simplify first, a Solver call otherwise)
* structural predicates: the declarative definitions of C04; count: node counting
* mexprTrees(T, mexpr) = BindExpression.to_tree_prefix(T, grammar) (given sets of
  (tree, var->path) pairs, as in DESIGN.md C03); match = the four-case function of the spec.

API:  sat(formula, tree, grammar, bound=12) -> bool      (t |= phi, constant instantiated or not)
      models(formula, ref, env, grammar, bound) -> bool
"""
import z3
from isla import language as L
from isla.derivation_tree import DerivationTree
from isla.z3_helpers import z3_subst


# ---------------------------------------------------------------- paths
def is_prefix(p, q):
    return tuple(q[:len(p)]) == tuple(p)


def doc_lt(p, q):
    for a, b in zip(p, q):
        if a != b:
            return a < b
    return False


def pre_le(q, p):
    return is_prefix(q, p) or doc_lt(q, p)


def nodes(t, here=()):
    """pre-order list of (position, node) — own traversal, not DerivationTree.paths()"""
    out = [(here, t)]
    for i, ch in enumerate(t.children or ()):
        out.extend(nodes(ch, here + (i,)))
    return out


def subtree(t, p):
    for i in p:
        ch = t.children or ()
        if i >= len(ch):
            return None
        t = ch[i]
    return t


def yield_str(t):
    """string of a tree: labels of childless closed nodes that are not nonterminals; open leaves
    show their label (what str(tree) shows)"""
    if not t.children:
        if t.children is None:
            return t.value
        return "" if L.is_nonterminal(t.value) else t.value
    return "".join(yield_str(c) for c in t.children)


def parse_dec(s):
    if isinstance(s, str) and s and all("0" <= ch <= "9" for ch in s):
        return int(s)
    return None


# ---------------------------------------------------------------- match
def restrict(P, i):
    return [(v, p[1:]) for v, p in P if p and p[0] == i]


def smatch(t2, t, P, here):
    """match(t, t', P) of the spec (t2 = t').  P: list of (var, path).  Returns list of
    (var, position) or None."""
    n2 = len(t2.children or ())
    n = len(t.children or ())
    if t.value != t2.value or (n2 > 0 and n != n2):
        return None
    if len(P) == 1 and tuple(P[0][1]) == ():
        return [(P[0][0], here)]
    res = []
    for i in range(min(n2, n)):
        m = smatch(t2.children[i], t.children[i], restrict(P, i), here + (i,))
        if m is None:
            return None
        res.extend(m)
    return res


# ---------------------------------------------------------------- atoms
def smt_holds(f, ref, env):
    """SMT atom under the assignment: instantiate variables by the strings of their trees, then
    ask Z3 whether the negation is unsatisfiable."""
    subst = {}
    for var, tree in getattr(f, "substitutions", {}).items():
        subst[z3.String(var.name)] = z3.StringVal(yield_str(tree))
    for var in f.free_variables():
        if var not in env:
            raise KeyError(f"free variable {var} of an SMT atom is unassigned")
        kind, val = env[var]
        s = yield_str(subtree(ref, val)) if kind == "pos" else str(val)
        subst[z3.String(var.name)] = z3.StringVal(s)
    inst = z3_subst(f.formula, subst) if subst else f.formula
    simp = z3.simplify(inst)
    if z3.is_true(simp):
        return True
    if z3.is_false(simp):
        return False
    s = z3.Solver()
    s.set("timeout", 5000)
    s.add(z3.Not(inst))
    r = s.check()
    if r == z3.unsat:
        return True
    if r == z3.sat:
        return False
    raise RuntimeError("Z3 cannot decide instantiated atom " + str(inst))


def positions_of(ref, arg, env):
    """positions denoted by a predicate / in argument"""
    if isinstance(arg, DerivationTree):
        return [p for p, s in nodes(ref) if s.id == arg.id]
    if isinstance(arg, L.Variable):
        kv = env.get(arg)
        return [tuple(kv[1])] if kv is not None and kv[0] == "pos" else []
    return []


def consecutive_spec(ref, p, q):
    return doc_lt(p, q) and not any(
        doc_lt(p, l) and doc_lt(l, q) for l, s in nodes(ref) if not s.children)


def nth_spec(ref, n, p1, p2):
    if not is_prefix(p2, p1):
        return False
    s1 = subtree(ref, p1)
    if s1 is None:
        return False
    cnt = sum(1 for q, s in nodes(ref)
              if is_prefix(p2, q) and pre_le(q, p1) and s.value == s1.value)
    return cnt == n


def level_spec(ref, op, nt, p1, p2):
    def labelled(p):
        s = subtree(ref, p)
        return s is not None and s.value == nt

    def occ(c, p):
        return any(labelled(p[:k]) for k in range(len(c) + 1, len(p)))

    scopes = [()] + [p1[:i] for i in range(1, min(len(p1), len(p2)) + 1)
                     if p1[:i] == p2[:i] and labelled(p1[:i])]
    for c in scopes:
        o1, o2 = occ(c, p1), occ(c, p2)
        if {"EQ": not o1 and not o2, "GE": not o1, "LE": not o2,
                "GT": not o1 and o2, "LT": not o2 and o1}[op]:
            return True
    return False


# optional re-interpretation of a binary structural predicate (name -> f(ref, p, q)); empty =
# the specification.  Used by c03.py to recognise the known class K_cons_rel: the verdict under
# "consecutive as /repo implements it" is compared with the implementation's verdict.
PRED_OVERRIDE = {}


def path2(ref, name, p, q):
    if name in PRED_OVERRIDE:
        return PRED_OVERRIDE[name](ref, p, q)
    if name == "before":
        return doc_lt(p, q)
    if name == "after":
        return doc_lt(q, p)
    if name == "inside":
        return is_prefix(q, p)
    if name == "same_position":
        return p == q
    if name == "different_position":
        return p != q
    if name == "direct_child":
        return len(p) == len(q) + 1 and is_prefix(q, p)
    if name == "consecutive":
        return consecutive_spec(ref, p, q)
    return False


def spred_holds(f, ref, env):
    name, args = f.predicate.name, list(f.args)
    if len(args) == 2:
        return any(path2(ref, name, p, q)
                   for p in positions_of(ref, args[0], env) for q in positions_of(ref, args[1], env))
    if len(args) == 3 and name == "nth":
        k = parse_dec(args[0])
        if k is None:
            return False
        return any(nth_spec(ref, k, p, q)
                   for p in positions_of(ref, args[1], env) for q in positions_of(ref, args[2], env))
    if len(args) == 4 and name == "level":
        op, nt = args[0], args[1]
        if op not in ("EQ", "GE", "LE", "GT", "LT") or not isinstance(nt, str):
            return False
        return any(level_spec(ref, op, nt, p, q)
                   for p in positions_of(ref, args[2], env) for q in positions_of(ref, args[3], env))
    return False


def sempred_holds(f, ref, env):
    name, args = f.predicate.name, list(f.args)
    if name != "count" or len(args) != 3 or not isinstance(args[1], str):
        raise NotImplementedError(f"semantic predicate {name} is outside the specification")
    num = args[2]
    if isinstance(num, str):
        k = parse_dec(num)
    elif isinstance(num, DerivationTree):
        k = parse_dec(num.value)
    else:
        kv = env.get(num)
        k = kv[1] if kv is not None and kv[0] == "num" else None
    if k is None:
        return False
    return any(sum(1 for _, s in nodes(subtree(ref, p)) if s.value == args[1]) == k
               for p in positions_of(ref, args[0], env))


# ---------------------------------------------------------------- models
def domain(ref, in_arg, T, env):
    roots = positions_of(ref, in_arg, env)
    return [(q, s) for q, s in nodes(ref) if s.value == T and any(is_prefix(p0, q) for p0 in roots)]


def models(f, ref, env, grammar=None, bound=12):
    if isinstance(f, L.SMTFormula):
        return smt_holds(f, ref, env)
    if isinstance(f, L.StructuralPredicateFormula):
        return spred_holds(f, ref, env)
    if isinstance(f, L.SemanticPredicateFormula):
        return sempred_holds(f, ref, env)
    if isinstance(f, L.NegatedFormula):
        return not models(f.args[0], ref, env, grammar, bound)
    if isinstance(f, L.ConjunctiveFormula):
        return all(models(g, ref, env, grammar, bound) for g in f.args)
    if isinstance(f, L.DisjunctiveFormula):
        return any(models(g, ref, env, grammar, bound) for g in f.args)
    if isinstance(f, L.QuantifiedFormula):
        v = f.bound_variable
        insts = []
        for q, s in domain(ref, f.in_variable, v.n_type, env):
            if f.bind_expression is None:
                insts.append({**env, v: ("pos", q)})
            else:
                assert grammar is not None, "match expressions need the grammar (mexprTrees)"
                for t2, P in f.bind_expression.to_tree_prefix(v.n_type, grammar):
                    m = smatch(t2, s, list(P.items()), q)
                    if m is not None:
                        e = {**env, v: ("pos", q)}
                        for w, pos in reversed(m):     # first binding of the list wins
                            e[w] = ("pos", pos)
                        insts.append(e)
        results = (models(f.inner_formula, ref, e, grammar, bound) for e in insts)
        return all(results) if isinstance(f, L.ForallFormula) else any(results)
    if isinstance(f, L.NumericQuantifiedFormula):
        # numerals 0..bound-1 only: a SEARCH, not a decision
        results = (models(f.inner_formula, ref, {**env, f.bound_variable: ("num", n)}, grammar, bound)
                   for n in range(bound))
        return all(results) if isinstance(f, L.ForallIntFormula) else any(results)
    raise NotImplementedError(type(f).__name__)


def sat(formula, tree, grammar=None, bound=12):
    """t |= phi: the (at most one) non-numeric constant of phi is mapped to the root position"""
    consts = [c for c in L.VariablesCollector.collect(formula)
              if isinstance(c, L.Constant) and not c.is_numeric()]
    env = {c: ("pos", ()) for c in consts}
    return models(formula, tree, env, grammar, bound)
