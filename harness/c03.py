"""C03 — evaluate() / ISLaSolver.check() agree with the language specification on closed trees.

Correspondence of coq/Logic/Eval.v (model of isla/evaluator.py) with the implementation, and
of both with the specification semantics (coq/Logic/Semantics.v `satb`, proved = `models`;
harness/spec_sem.py, the Python reference of the same semantics).

Per generated (grammar, closed tree, formula) triple:
  impl   : evaluate(formula, tree, grammar) and ISLaSolver(grammar, formula).check(tree)
  model  : m_evaluate / m_check evaluated in Coq (vm_compute) on the encoded isla objects
  spec   : spec_sem.sat (Python) and s_sat = satb (Coq) on the same formula
A model<->impl disagreement breaks the correspondence; an impl<->spec disagreement is a failing
input of the PROPERTY (unless it belongs to an open known-finding class, which is recognised by
the Coq class predicate and printed as KNOWN-FINDING)."""
import json
import random
import sys
import time

import z3

import lib
from lib import g_str, g_path, g_bool, g_tree, g_list, g_Z
import spec_sem
from gen_trees import tree_json, tree_from_json

from isla import language as L
from isla.derivation_tree import DerivationTree as T
from isla.evaluator import evaluate
from isla.helpers import canonical
from isla.isla_predicates import (STANDARD_STRUCTURAL_PREDICATES, STANDARD_SEMANTIC_PREDICATES,
                                  COUNT_PREDICATE)
from isla.parser import EarleyParser
from isla.solver import ISLaSolver
from isla.z3_helpers import z3_eq

SP = {p.name: p for p in STANDARD_STRUCTURAL_PREDICATES}
START = L.Constant("start", "<start>")

# --------------------------------------------------------------------------
# grammars
# --------------------------------------------------------------------------
G_ASSGN = {"<start>": ["<stmt>"], "<stmt>": ["<assgn> ; <stmt>", "<assgn>"],
           "<assgn>": ["<var> := <rhs>"], "<rhs>": ["<var>", "<digit>"],
           "<var>": ["x", "y", "z"], "<digit>": ["0", "1", "2"]}
G_BLOCK = {"<start>": ["<block>"], "<block>": ["{<stmts>}"], "<stmts>": ["<stmt><stmts>", ""],
           "<stmt>": ["<block>", "<decl>", "<use>"], "<decl>": ["d<id>;"], "<use>": ["u<id>;"],
           "<id>": ["a", "b"]}
G_LIST = {"<start>": ["<list>"], "<list>": ["<item>", "<item>,<list>"],
          "<item>": ["<num>", "(<list>)"], "<num>": ["<digit>", "<digit><num>"],
          "<digit>": ["0", "1", "2", "3"]}
G_WIDE = {"<start>": ["<row>"], "<row>": ["<c>" * 30, "<c><c>"], "<c>": ["0", "1", "<e>"], "<e>": ["x"]}
# recursive nonterminal with real nesting AND repeated identical subtrees (a+b+a, ((1)))
G_EXPR = {"<start>": ["<expr>"], "<expr>": ["(<expr>)", "<term>+<expr>", "<term>"], "<term>": ["1", "a", "b"]}
# AMBIGUOUS: "1" is a <num> or a <word>; trees are built by derivation (not parsed), so equal texts
# with different derivations occur side by side
G_AMB = {"<start>": ["<items>"], "<items>": ["<item>", "<item>;<items>"], "<item>": ["<num>", "<word>"],
         "<num>": ["1", "2"], "<word>": ["1", "a"]}
# two grammars that share nonterminal names but differ in shape (<pair> reaches <key>=<val> directly / via <entry>)
G_KVA = {"<start>": ["<pairs>"], "<pairs>": ["<pair>", "<pair>;<pairs>"], "<pair>": ["<key>=<val>"],
         "<key>": ["a", "b"], "<val>": ["a", "b", "1"]}
G_KVB = {"<start>": ["<pairs>"], "<pairs>": ["<pair>", "<pair>;<pairs>"], "<pair>": ["<entry>"],
         "<entry>": ["<key>=<val>"], "<key>": ["a", "b"], "<val>": ["a", "b", "1"]}
GRAMMARS = {"assgn": G_ASSGN, "block": G_BLOCK, "list": G_LIST, "wide": G_WIDE, "expr": G_EXPR,
            "amb": G_AMB, "kva": G_KVA, "kvb": G_KVB}
# only for known-finding witnesses
G_EPS = {"<start>": ["<a>"], "<a>": ["<c><b>"], "<c>": ["", "y"], "<b>": ["z"]}
WITNESS_GRAMMARS = dict(GRAMMARS, eps=G_EPS)

# hand-written match expressions per (grammar, nonterminal): lists of bound_elements
# (str | ("bind", name, type) | ["optional", "tokens"])
MEXPRS = {
    "assgn": [("<assgn>", [("bind", "l", "<var>"), " := ", ("bind", "r", "<rhs>")]),
              ("<assgn>", ["<var> := ", ("bind", "r", "<rhs>")]),
              ("<stmt>", [("bind", "a", "<assgn>"), " ; ", ("bind", "s", "<stmt>")]),
              ("<stmt>", [("bind", "a", "<assgn>"), [" ; ", "<stmt>"]]),
              ("<stmt>", ["<var> := ", ("bind", "r", "<rhs>"), [" ; ", "<stmt>"]]),
              ("<rhs>", [("bind", "d", "<digit>")])],
    "block": [("<decl>", ["d", ("bind", "i", "<id>"), ";"]),
              ("<block>", ["{", ("bind", "s", "<stmts>"), "}"]),
              ("<stmts>", [("bind", "h", "<stmt>"), ("bind", "r", "<stmts>")]),
              ("<stmt>", [("bind", "b", "<block>")])],
    "list": [("<list>", [("bind", "h", "<item>"), ",", ("bind", "r", "<list>")]),
             ("<item>", ["(", ("bind", "l", "<list>"), ")"]),
             ("<num>", [("bind", "d", "<digit>"), ("bind", "n", "<num>")]),
             ("<list>", [("bind", "h", "<item>"), [",", "<list>"]])],
    "amb": [("<item>", [("bind", "n", "<num>")]), ("<item>", [("bind", "w", "<word>")]),
            ("<items>", [("bind", "h", "<item>"), ";", ("bind", "r", "<items>")])],
    "kva": [("<pair>", [("bind", "k", "<key>"), "=", ("bind", "v", "<val>")]),
            ("<pairs>", [("bind", "p", "<pair>"), [";", "<pairs>"]])],
    "kvb": [("<pair>", [("bind", "k", "<key>"), "=", ("bind", "v", "<val>")]),
            ("<pairs>", [("bind", "p", "<pair>"), [";", "<pairs>"]])],
    "expr": [("<expr>", ["(", ("bind", "e", "<expr>"), ")"]),
             ("<expr>", [("bind", "t", "<term>"), "+", ("bind", "e", "<expr>")]),
             ("<expr>", [("bind", "t", "<term>"), ["+", "<expr>"]])],
    "wide": [("<row>", [("bind", "p", "<c>"), ("bind", "q", "<c>")]),
             ("<c>", [("bind", "e", "<e>")])],
}


def nonterminals(g):
    return [k for k in g if k != "<start>"]


def min_depths(cg):
    d = {k: None for k in cg}
    changed = True
    while changed:
        changed = False
        for k, alts in cg.items():
            best = None
            for alt in alts:
                ds = [0 if not L.is_nonterminal(s) else d.get(s) for s in alt]
                if any(x is None for x in ds):
                    continue
                v = 1 + max(ds, default=0)
                best = v if best is None else min(best, v)
            if best is not None and (d[k] is None or best < d[k]):
                d[k] = best
                changed = True
    return d


def rand_derivation(rng, cg, md, nt, depth):
    """random closed derivation tree of nt; fuzzer shape for epsilon (child ("", []))"""
    alts = cg[nt]
    ok = [a for a in alts if all((not L.is_nonterminal(s)) or md[s] <= depth - 1 for s in a)]
    if not ok:
        best = min(1 + max([md[s] for s in a if L.is_nonterminal(s)], default=0) for a in alts)
        ok = [a for a in alts if 1 + max([md[s] for s in a if L.is_nonterminal(s)], default=0) == best]
    alt = rng.choice(ok)
    kids = []
    for s in alt:
        if L.is_nonterminal(s):
            kids.append(rand_derivation(rng, cg, md, s, depth - 1))
        else:
            kids.append(T(s, ()))
    if not alt:
        kids = [T("", ())]
    return T(nt, kids)


# --------------------------------------------------------------------------
# formula AST (own) -> isla objects / concrete syntax
# --------------------------------------------------------------------------
LITS = ["x", "y", "0", "1", "a", "", "x := 1", "da;", "{}", "12", "(0)", "00", "b", "(1)", "a+b", "2", "a=a", "1;1"]
PRED2 = ["before", "after", "inside", "same_position", "different_position", "direct_child", "consecutive"]
OPS = ["EQ", "GE", "LE", "GT", "LT"]
CMPS = [("CEq", "="), ("CLt", "<"), ("CLe", "<="), ("CGt", ">"), ("CGe", ">=")]


# per grammar: nonterminal -> counts of that nonterminal observed in the generated trees (filled by run())
COUNT_HINT = {}


def recursive_nts(g):
    """nonterminals that can derive themselves (needle classes for which nested occurrences exist)"""
    cg = canonical(g)
    reach = {k: {s for alt in alts for s in alt if L.is_nonterminal(s)} for k, alts in cg.items()}
    changed = True
    while changed:
        changed = False
        for k in reach:
            new = set().union(*[reach[x] for x in reach[k]]) if reach[k] else set()
            if not new <= reach[k]:
                reach[k] |= new
                changed = True
    return [k for k in nonterminals(g) if k in reach[k]]


def gen_atom(rng, g, scope):
    """scope: list of (name, type) of variables in scope ('start' first)"""
    nts = nonterminals(g)
    r = rng.random()
    vs = [v for v in scope]
    v = rng.choice(vs)
    if r < 0.30:
        if rng.random() < 0.4 and len(vs) > 1:
            w = rng.choice([x for x in vs if x != v])   # (= x x) is rejected by parse_isla (see notes)
            return ("streq", rng.random() < 0.3, ("var", v), ("var", w))
        return ("streq", rng.random() < 0.3, ("var", v), ("lit", rng.choice(LITS)))
    if r < 0.45:
        return ("len", rng.choice(CMPS), ("var", v), rng.randint(0, 6))
    if r < 0.75:
        w = rng.choice(vs)
        return ("sp", rng.choice(PRED2), [("var", v), ("var", w)])
    if r < 0.83:
        w = rng.choice(vs)
        cand = [x for x in vs if L.is_nonterminal(x[1])]
        return ("sp", "nth", [("str", str(rng.randint(0, 3))), ("var", rng.choice(cand)), ("var", w)])
    if r < 0.90:
        w = rng.choice(vs)
        return ("sp", "level", [("str", rng.choice(OPS)), ("str", rng.choice(nts)), ("var", v), ("var", w)])
    # count: prefer recursive needles; the target is near the real number of occurrences (nested +
    # sibling ones) so that an off-by-nesting count changes the verdict
    rec = recursive_nts(g)
    needle = rng.choice(rec) if rec and rng.random() < 0.6 else rng.choice(nts)
    hint = COUNT_HINT.get(id(g), {}).get(needle)
    if v[0] == "start" and hint:
        target = max(0, rng.choice(hint) + rng.choice([-1, 0, 0, 1]))
    else:
        target = rng.randint(1, 3)
    return ("count", v, needle, str(target))


def gen_body(rng, g, scope, depth):
    r = rng.random()
    if depth <= 0 or r < 0.35:
        return gen_atom(rng, g, scope)
    if r < 0.50:
        return ("not", gen_body(rng, g, scope, depth - 1))
    if r < 0.75:
        return ("and", [gen_body(rng, g, scope, depth - 1) for _ in range(rng.randint(2, 3))])
    return ("or", [gen_body(rng, g, scope, depth - 1) for _ in range(rng.randint(2, 3))])


def gen_formula(rng, gname, g, scope, qdepth, counter, allow_mexpr=True):
    if qdepth <= 0:
        return gen_body(rng, g, scope, 2)
    r = rng.random()
    if r < 0.12 and len(scope) > 1:
        return ("and" if rng.random() < 0.5 else "or",
                [gen_formula(rng, gname, g, scope, qdepth - 1, counter, allow_mexpr),
                 gen_body(rng, g, scope, 1)])
    if r < 0.18 and len(scope) > 1:
        return ("not", gen_formula(rng, gname, g, scope, qdepth - 1, counter, allow_mexpr))
    kind = "forall" if rng.random() < 0.5 else "exists"
    in_var = rng.choice(scope) if rng.random() < 0.5 else scope[0]
    counter[0] += 1
    if allow_mexpr and rng.random() < 0.3:
        ty, elems = rng.choice(MEXPRS[gname])
        suffix = str(counter[0])
        elems2, bound = [], []
        for e in elems:
            if isinstance(e, tuple):
                elems2.append(("bind", e[1] + suffix, e[2]))
                bound.append((e[1] + suffix, e[2]))
            else:
                elems2.append(e)
        name = "m" + suffix
        inner_scope = scope + [(name, ty)] + bound
        return (kind, (name, ty), in_var, elems2,
                gen_formula(rng, gname, g, inner_scope, qdepth - 1, counter, allow_mexpr))
    ty = rng.choice(nonterminals(g))
    name = "v" + str(counter[0])
    return (kind, (name, ty), in_var, None,
            gen_formula(rng, gname, g, scope + [(name, ty)], qdepth - 1, counter, allow_mexpr))


def templates(g):
    """fixed formula shapes per grammar (on top of the random ones): quantifier whose domain must
    contain the `in` node itself, nested same-type quantifiers, count / nth / consecutive / level"""
    out = []
    S = ("start", "<start>")
    for k, ty in enumerate(nonterminals(g)[:3]):
        a, b = ("ta%d" % k, ty), ("tb%d" % k, ty)
        out.append(("forall", a, S, None, ("exists", b, a, None,
                    ("and", [("sp", "same_position", [("var", b), ("var", a)]),
                             ("len", ("CGe", ">="), ("var", b), 1)]))))
        out.append(("exists", a, S, None, ("forall", b, a, None,
                    ("or", [("sp", "different_position", [("var", b), ("var", a)]),
                            ("count", b, ty, "1")]))))
        out.append(("exists", a, S, None, ("exists", b, S, None,
                    ("and", [("sp", "consecutive", [("var", a), ("var", b)]),
                             ("sp", "nth", [("str", "2"), ("var", b), ("var", S)])]))))
    for k, ty in enumerate(nonterminals(g)[:4]):
        a, b = ("ua%d" % k, ty), ("ub%d" % k, ty)
        # uniqueness: all <ty> subtrees are pairwise different strings (position-dependent: a tree with
        # two structurally identical subtrees must make it FALSE)
        out.append(("forall", a, S, None, ("forall", b, S, None,
                    ("or", [("sp", "same_position", [("var", a), ("var", b)]),
                            ("streq", True, ("var", a), ("var", b))]))))
        # some string occurs twice, the first occurrence strictly before the second
        out.append(("exists", a, S, None, ("exists", b, S, None,
                    ("and", [("sp", "before", [("var", a), ("var", b)]),
                             ("streq", False, ("var", a), ("var", b))]))))
    # derivation-sensitive: "every <ty> contains a <c>" for the nonterminals c occurring in <ty>'s own
    # alternatives (tells equal texts with different derivations apart), and its existential dual
    cg = canonical(g)
    n_child = 0
    for k, ty in enumerate(nonterminals(g)):
        kids = []
        for alt in cg[ty]:
            for sym in alt:
                if L.is_nonterminal(sym) and sym != ty and sym not in kids:
                    kids.append(sym)
        for j, c in enumerate(kids[:2]):
            if n_child >= 2:
                break
            n_child += 1
            x, y = ("dx%d_%d" % (k, j), ty), ("dy%d_%d" % (k, j), c)
            out.append(("forall", x, S, None, ("exists", y, x, None, ("len", ("CGe", ">="), ("var", y), 0))))
            out.append(("exists", x, S, None, ("and", [
                ("forall", y, x, None, ("len", ("CLt", "<"), ("var", y), 0)),      # "x contains no <c>"
                ("len", ("CGe", ">="), ("var", x), 1)])))
    hint = COUNT_HINT.get(id(g), {})
    for k, ty in enumerate(recursive_nts(g)[:3]):
        x = ("cx%d" % k, ty)
        counts = hint.get(ty) or [2]
        mid = sorted(counts)[len(counts) // 2]
        # needle = a recursive nonterminal: nested occurrences must be counted
        out.append(("count", S, ty, str(mid)))
        out.append(("forall", x, S, None, ("count", x, ty, "1")))
        out.append(("exists", x, S, None, ("count", x, ty, "2")))
    return out


def mk_var(nt):
    name, ty = nt
    return START if name == "start" else L.BoundVariable(name, ty)


def z3_term(t):
    return z3.String(t[1][0]) if t[0] == "var" else z3.StringVal(t[1])


def build(f):
    """own AST -> isla Formula (constructed directly, not through the parser)"""
    k = f[0]
    if k == "streq":
        _, neg, a, b = f
        e = z3_eq(z3_term(a), z3_term(b))
        if neg:
            e = z3.Not(e)
        vs = []
        for t in (a, b):
            if t[0] == "var" and mk_var(t[1]) not in vs:
                vs.append(mk_var(t[1]))
        return L.SMTFormula(e, *vs)
    if k == "len":
        _, (_, op), a, n = f
        ln = z3.Length(z3_term(a))
        e = {"=": z3_eq(ln, z3.IntVal(n)), "<": ln < n, "<=": ln <= n, ">": ln > n, ">=": ln >= n}[op]
        return L.SMTFormula(e, *([mk_var(a[1])] if a[0] == "var" else []))
    if k == "sp":
        return L.StructuralPredicateFormula(SP[f[1]], *[mk_var(a[1]) if a[0] == "var" else a[1] for a in f[2]])
    if k == "count":
        return L.SemanticPredicateFormula(COUNT_PREDICATE, mk_var(f[1]), f[2], f[3])
    if k == "not":
        return L.NegatedFormula(build(f[1]))
    if k == "and":
        return L.ConjunctiveFormula(*[build(x) for x in f[1]])
    if k == "or":
        return L.DisjunctiveFormula(*[build(x) for x in f[1]])
    if k in ("forall", "exists"):
        _, bv, in_var, mexpr, body = f
        be = None
        if mexpr is not None:
            be = L.BindExpression(*[L.BoundVariable(e[1], e[2]) if isinstance(e, tuple) else e for e in mexpr])
        cls = L.ForallFormula if k == "forall" else L.ExistsFormula
        return cls(mk_var(bv), mk_var(in_var), build(body), be)
    raise ValueError(k)


def smt_lit(s):
    return '"' + s.replace('"', '""') + '"'


def unparse(f):
    """own printer to ISLa concrete syntax (formulas without match expressions)"""
    k = f[0]
    if k == "streq":
        _, neg, a, b = f
        tt = lambda t: t[1][0] if t[0] == "var" else smt_lit(t[1])
        s = f"(= {tt(a)} {tt(b)})"
        return f"(not {s})" if neg else s
    if k == "len":
        _, (_, op), a, n = f
        tt = a[1][0] if a[0] == "var" else smt_lit(a[1])
        return f"({op} (str.len {tt}) {n})"
    if k == "sp":
        return f[1] + "(" + ", ".join(a[1][0] if a[0] == "var" else '"' + a[1] + '"' for a in f[2]) + ")"
    if k == "count":
        return f'count({f[1][0]}, "{f[2]}", "{f[3]}")'
    if k == "not":
        return "not (" + unparse(f[1]) + ")"
    if k in ("and", "or"):
        return "(" + f" {k} ".join("(" + unparse(x) + ")" for x in f[1]) + ")"
    if k in ("forall", "exists"):
        _, bv, in_var, mexpr, body = f
        if mexpr is not None:
            return None
        b = unparse(body)
        return None if b is None else f"{k} {bv[1]} {bv[0]} in {in_var[0]}: ({b})"
    raise ValueError(k)


def has_mexpr(f):
    k = f[0]
    if k in ("forall", "exists"):
        return f[3] is not None or has_mexpr(f[4])
    if k == "not":
        return has_mexpr(f[1])
    if k in ("and", "or"):
        return any(has_mexpr(x) for x in f[1])
    return False


# --------------------------------------------------------------------------
# isla objects -> Gallina
# --------------------------------------------------------------------------
class Unencodable(Exception):
    pass


def g_var(v):
    kind = "VConst" if isinstance(v, L.Constant) else "VDummy" if isinstance(v, L.DummyVariable) else "VBound"
    return f"(MkVar {kind} {g_str(v.name)} {g_str(v.n_type)})"


def g_sterm(e):
    if z3.is_string_value(e):
        return f"(SLit {g_str(e.as_string())})", None
    if z3.is_const(e) and e.decl().kind() == z3.Z3_OP_UNINTERPRETED and z3.is_string(e):
        return None, e.decl().name()
    raise Unencodable(str(e))


def g_atom(f):
    """SMTFormula of the modelled family -> atom literal"""
    if f.substitutions or f.instantiated_variables:
        raise Unencodable("substitutions")
    by_name = {v.name: v for v in f.free_variables()}

    def term(e):
        lit, name = g_sterm(e)
        if lit is not None:
            return lit
        if name not in by_name:
            raise Unencodable("variable " + name)
        return f"(SVar {g_var(by_name[name])})"

    e = f.formula
    if z3.is_true(e):
        return "(ABool true)"
    if z3.is_false(e):
        return "(ABool false)"
    neg = False
    if z3.is_not(e):
        neg, e = True, e.arg(0)
    if z3.is_eq(e) and z3.is_string(e.arg(0)):
        return f"(AStr {g_bool(neg)} {term(e.arg(0))} {term(e.arg(1))})"
    if neg:
        raise Unencodable(str(f.formula))
    kinds = {z3.Z3_OP_EQ: "CEq", z3.Z3_OP_LT: "CLt", z3.Z3_OP_LE: "CLe", z3.Z3_OP_GT: "CGt", z3.Z3_OP_GE: "CGe"}
    k = e.decl().kind()
    if k in kinds and e.num_args() == 2 and e.arg(0).decl().kind() == z3.Z3_OP_SEQ_LENGTH \
            and z3.is_int_value(e.arg(1)):
        return f"(ALen {kinds[k]} {term(e.arg(0).arg(0))} {g_Z(e.arg(1).as_long())})"
    raise Unencodable(str(f.formula))


def g_parg(a):
    if isinstance(a, str):
        return f"(PStr {g_str(a)})"
    if isinstance(a, T):
        return f"(PTree {g_tree(a)})"
    if isinstance(a, L.Variable):
        return f"(PVar {g_var(a)})"
    raise Unencodable(repr(a))


def g_mexpr(f, grammar):
    be = f.bind_expression
    elems = []
    for e in be.bound_elements:
        elems.extend(e if isinstance(e, list) else [e])
    trees = be.to_tree_prefix(f.bound_variable.n_type, grammar)
    gt = g_list(trees, lambda tp: "(" + g_tree(tp[0]) + ", " +
                g_list(list(tp[1].items()), lambda vp: "(" + g_var(vp[0]) + ", " + g_path(vp[1]) + ")") + ")")
    return f"(MkMexpr {g_list(elems, g_var)} {gt})"


def g_formula(f, grammar):
    if isinstance(f, L.SMTFormula):
        return f"(FSmt {g_atom(f)})"
    if isinstance(f, L.StructuralPredicateFormula):
        return f"(FSPred {g_str(f.predicate.name)} {g_list(f.args, g_parg)})"
    if isinstance(f, L.SemanticPredicateFormula):
        return f"(FSemPred {g_str(f.predicate.name)} {g_list(f.args, g_parg)})"
    if isinstance(f, L.NegatedFormula):
        return f"(FNot {g_formula(f.args[0], grammar)})"
    if isinstance(f, L.ConjunctiveFormula):
        return f"(FAnd {g_list(f.args, lambda x: g_formula(x, grammar))})"
    if isinstance(f, L.DisjunctiveFormula):
        return f"(FOr {g_list(f.args, lambda x: g_formula(x, grammar))})"
    if isinstance(f, L.QuantifiedFormula):
        c = "FForall" if isinstance(f, L.ForallFormula) else "FExists"
        i = f"(InTree {g_tree(f.in_variable)})" if isinstance(f.in_variable, T) else f"(InVar {g_var(f.in_variable)})"
        m = "None" if f.bind_expression is None else f"(Some {g_mexpr(f, grammar)})"
        return f"({c} {g_var(f.bound_variable)} {i} {m} {g_formula(f.inner_formula, grammar)})"
    if isinstance(f, L.ForallIntFormula):
        return f"(FForallInt {g_var(f.bound_variable)} {g_formula(f.inner_formula, grammar)})"
    if isinstance(f, L.ExistsIntFormula):
        return f"(FExistsInt {g_var(f.bound_variable)} {g_formula(f.inner_formula, grammar)})"
    raise Unencodable(type(f).__name__)



def g_atom2(f):
    """SMTFormula of the extended family (Eval2.v atom2): str.to.int(v) REL k, else the family `atom`"""
    e = f.formula
    kinds = {z3.Z3_OP_EQ: "CEq", z3.Z3_OP_LT: "CLt", z3.Z3_OP_LE: "CLe", z3.Z3_OP_GT: "CGt", z3.Z3_OP_GE: "CGe"}
    if (not f.substitutions and not f.instantiated_variables and z3.is_app(e) and e.decl().kind() in kinds
            and e.num_args() == 2 and e.arg(0).decl().kind() == z3.Z3_OP_STR_TO_INT
            and z3.is_int_value(e.arg(1))):
        lit, name = g_sterm(e.arg(0).arg(0))
        by_name = {v.name: v for v in f.free_variables()}
        if name is None or name not in by_name:
            raise Unencodable(str(e))
        return f"(AToInt {kinds[e.decl().kind()]} {g_var(by_name[name])} {g_Z(e.arg(1).as_long())})"
    return f"(A1 {g_atom(f)})"


def g_formula2(f, grammar):
    """formula atom2 literal (second-strategy model, Eval2.v)"""
    if isinstance(f, L.SMTFormula):
        return f"(FSmt {g_atom2(f)})"
    if isinstance(f, L.StructuralPredicateFormula):
        return f"(FSPred {g_str(f.predicate.name)} {g_list(f.args, g_parg)})"
    if isinstance(f, L.SemanticPredicateFormula):
        return f"(FSemPred {g_str(f.predicate.name)} {g_list(f.args, g_parg)})"
    if isinstance(f, L.NegatedFormula):
        return f"(FNot {g_formula2(f.args[0], grammar)})"
    if isinstance(f, L.ConjunctiveFormula):
        return f"(FAnd {g_list(f.args, lambda x: g_formula2(x, grammar))})"
    if isinstance(f, L.DisjunctiveFormula):
        return f"(FOr {g_list(f.args, lambda x: g_formula2(x, grammar))})"
    if isinstance(f, L.QuantifiedFormula):
        c = "FForall" if isinstance(f, L.ForallFormula) else "FExists"
        i = f"(InTree {g_tree(f.in_variable)})" if isinstance(f.in_variable, T) else f"(InVar {g_var(f.in_variable)})"
        m = "None" if f.bind_expression is None else f"(Some {g_mexpr(f, grammar)})"
        return f"({c} {g_var(f.bound_variable)} {i} {m} {g_formula2(f.inner_formula, grammar)})"
    if isinstance(f, L.ForallIntFormula):
        return f"(FForallInt {g_var(f.bound_variable)} {g_formula2(f.inner_formula, grammar)})"
    if isinstance(f, L.ExistsIntFormula):
        return f"(FExistsInt {g_var(f.bound_variable)} {g_formula2(f.inner_formula, grammar)})"
    raise Unencodable(type(f).__name__)

# --------------------------------------------------------------------------
# implementation / spec outcomes
# --------------------------------------------------------------------------
def impl_evaluate(formula, tree, grammar):
    try:
        r = evaluate(formula, tree, grammar)
        return ("ok", "TT" if r.is_true() else "FF" if r.is_false() else "UU")
    except Exception as e:
        return ("raise", lib.exn_name(e))


def impl_check(solver, tree):
    try:
        return ("ok", bool(solver.check(tree)))
    except Exception as e:
        return ("raise", lib.exn_name(e))


def g_out_tv(o):
    return f"(Ok {o[1]})" if o[0] == "ok" else f"(Raise {o[1]})"


def g_out_b(o):
    return f"(Ok {g_bool(o[1])})" if o[0] == "ok" else f"(Raise {o[1]})"


def spec_verdict(formula, tree, grammar, bound=12):
    try:
        return ("ok", bool(spec_sem.sat(formula, tree, grammar, bound)))
    except Exception as e:
        return ("undefined", repr(e)[:200])


def agrees_with_spec(ev, ck, sp):
    """the PROPERTY at one triple: TRUE exactly when the tree satisfies the constraint, FALSE
    otherwise, never UNKNOWN, never raises"""
    if sp[0] != "ok":
        return True      # the specification gives no verdict (outside its domain)
    want = "TT" if sp[1] else "FF"
    return ev == ("ok", want) and ck == ("ok", sp[1])


def prefix_tree_problem(tree, paths, n_type, cg):
    """independent check of one BindExpression.to_tree_prefix result (prefix trees are INPUTS of model
    and spec): root label, every inner node spells an alternative of ITS label in THIS grammar, closed
    childless nonterminals only where an epsilon alternative exists, bound paths point at nodes that
    carry the variable's type.  Returns None or a text."""
    if tree.value != n_type:
        return f"root {tree.value} instead of {n_type}"
    for p, n in spec_sem.nodes(tree):
        if not L.is_nonterminal(n.value):
            continue
        if n.value not in cg:
            return f"unknown nonterminal {n.value} at {p}"
        if n.children is None:
            continue
        labels = [c.value for c in n.children]
        if labels == [""]:
            labels = []
        if labels not in [list(a) for a in cg[n.value]] and not (labels == [] and [""] in [list(a) for a in cg[n.value]]):
            return f"children {labels} of {n.value} at {p} are not an alternative of this grammar"
    for v, p in paths.items():
        n = spec_sem.subtree(tree, p)
        if n is None:
            return f"path {p} of {v} not in the prefix tree"
        if L.is_nonterminal(v.n_type) and n.value != v.n_type:
            return f"{v} : {v.n_type} bound to a node labelled {n.value}"
    return None


def prefix_trees_problem(f, grammar):
    """first problem of any match expression's prefix trees in formula f under `grammar`, or None"""
    cg = canonical(grammar)
    if isinstance(f, L.PropositionalCombinator):
        for a in f.args:
            r = prefix_trees_problem(a, grammar)
            if r:
                return r
        return None
    if isinstance(f, L.NumericQuantifiedFormula):
        return prefix_trees_problem(f.inner_formula, grammar)
    if isinstance(f, L.QuantifiedFormula):
        if f.bind_expression is not None:
            ty = f.bound_variable.n_type
            for t, paths in f.bind_expression.to_tree_prefix(ty, grammar):
                r = prefix_tree_problem(t, paths, ty, cg)
                if r:
                    return f"{f.bind_expression} for {ty}: {r}"
        return prefix_trees_problem(f.inner_formula, grammar)
    return None


def py_keps(f, grammar):
    """Python mirror of EvalFacts.K_mexpr_eps_shape: some match-expression prefix tree has a closed
    leaf labelled with a nonterminal"""
    if isinstance(f, L.PropositionalCombinator):
        return any(py_keps(a, grammar) for a in f.args)
    if isinstance(f, L.NumericQuantifiedFormula):
        return py_keps(f.inner_formula, grammar)
    if isinstance(f, L.QuantifiedFormula):
        if f.bind_expression is not None:
            for t, _ in f.bind_expression.to_tree_prefix(f.bound_variable.n_type, grammar):
                if any(s.children is not None and not s.children and L.is_nonterminal(s.value)
                       for _, s in spec_sem.nodes(t)):
                    return True
        return py_keps(f.inner_formula, grammar)
    return False


def code_consecutive(ref, p, q):
    """Python mirror of Preds.consecutive = isla_predicates.consecutive AS IT IS: the leaf paths
    stay relative to the longest common prefix of the two (absolute) argument paths.  Differs from
    the specification only when that prefix is non-empty (class K_cons_rel)."""
    p, q = tuple(p), tuple(q)
    if p == q or not spec_sem.doc_lt(p, q):
        return False
    n = 0
    while n < min(len(p), len(q)) and p[n] == q[n]:
        n += 1
    sub = spec_sem.subtree(ref, p[:n])
    leaves = [r for r, s in spec_sem.nodes(sub) if not s.children]
    return not any(r != p and r != q and spec_sem.doc_lt(p, r) and spec_sem.doc_lt(r, q) for r in leaves)


def uses_consecutive(f):
    if isinstance(f, L.StructuralPredicateFormula):
        return f.predicate.name == "consecutive"
    if isinstance(f, L.PropositionalCombinator):
        return any(uses_consecutive(a) for a in f.args)
    if isinstance(f, (L.QuantifiedFormula, L.NumericQuantifiedFormula)):
        return uses_consecutive(f.inner_formula)
    return False


def spec_verdict_code_consecutive(formula, tree, grammar, bound=12):
    """the specification verdict with `consecutive` re-interpreted as the code computes it"""
    spec_sem.PRED_OVERRIDE["consecutive"] = code_consecutive
    try:
        return spec_verdict(formula, tree, grammar, bound)
    finally:
        spec_sem.PRED_OVERRIDE.pop("consecutive", None)


# ---- second strategy: wrap a formula F in a numeric quantifier without changing its meaning ----
NUMV = L.BoundVariable("n", L.Variable.NUMERIC_NTYPE)
S2_KINDS = ["ev", "fa", "eu", "e0"]


def wrap_numeric(fobj, src, kind, needle):
    """ev: exists int n: (F and str.to.int(n) >= 0)     fa: forall int n: (F or str.to.int(n) < 0)
       eu: exists int n: (count(start, needle, n) and F) (n is USED)      e0: exists int n: F
    returns (isla formula, concrete syntax or None)"""
    n = z3.StrToInt(z3.String("n"))
    if kind == "ev":
        return (L.ExistsIntFormula(NUMV, L.ConjunctiveFormula(fobj, L.SMTFormula(n >= 0, NUMV))),
                src and f"exists int n: (({src}) and (>= (str.to.int n) 0))")
    if kind == "fa":
        return (L.ForallIntFormula(NUMV, L.DisjunctiveFormula(fobj, L.SMTFormula(n < 0, NUMV))),
                src and f"forall int n: (({src}) or (< (str.to.int n) 0))")
    if kind == "eu":
        return (L.ExistsIntFormula(NUMV, L.ConjunctiveFormula(
                    L.SemanticPredicateFormula(COUNT_PREDICATE, START, needle, NUMV), fobj)),
                src and f'exists int n: (count(start, "{needle}", n) and ({src}))')
    return L.ExistsIntFormula(NUMV, fobj), src and f"exists int n: ({src})"


def has_duplicate_subtrees(t):
    """two different nonterminal nodes with children that are structurally identical"""
    seen = set()

    def key(n):
        k = (n.value, None if n.children is None else tuple(key(c) for c in n.children))
        return k
    for _, n in spec_sem.nodes(t):
        if n.children and L.is_nonterminal(n.value):
            k = key(n)
            if k in seen:
                return True
            seen.add(k)
    return False


def is_wide(tree):
    return any(any(i >= 28 for i in p) for p, _ in spec_sem.nodes(tree))


# --------------------------------------------------------------------------
# known findings
# --------------------------------------------------------------------------
def finding_witness_outcome(w):
    g = WITNESS_GRAMMARS[w["grammar"]] if isinstance(w["grammar"], str) else w["grammar"]
    tree = tree_from_json(w["tree"]) if "tree" in w else \
        T.from_parse_tree(next(EarleyParser(g).parse(w["input"])))
    formula = w["formula"]
    if w.get("build") == "rebound_name":
        # API-built (parse_isla cannot produce it): two DIFFERENT variables a:<assgn>, a:<var> with one
        # name; forall <assgn> a in start: exists <var> a in a: (= a "x")
        a1, a2 = L.BoundVariable("a", "<assgn>"), L.BoundVariable("a", "<var>")
        formula = L.ForallFormula(a1, START, L.ExistsFormula(
            a2, a1, L.SMTFormula(z3_eq(a2.to_smt(), z3.StringVal("x")), a2)))
    ev = impl_evaluate(formula, tree, g)
    try:
        solver = ISLaSolver(g, formula)
        ck = impl_check(solver, tree)
    except Exception as e:
        ck = ("raise", lib.exn_name(e))
    pf = formula if isinstance(formula, L.Formula) else None
    try:
        if pf is None:
            pf = L.parse_isla(formula, g, STANDARD_STRUCTURAL_PREDICATES, STANDARD_SEMANTIC_PREDICATES)
    except Exception:
        pass
    sp = ("ok", w["spec"]) if "spec" in w else spec_verdict(pf, tree, g)
    return ev, ck, sp


def replay_corpus(run):
    """corpus/C03/*.json: minimized past disagreements and witnesses of FIXED findings; each must
    satisfy the property on the current tree (a regression is reported with the witness)"""
    import glob
    import os
    n = 0
    for path in sorted(glob.glob(os.path.join(lib.VERIF, "corpus", "C03", "*.json"))):
        w = json.load(open(path))
        try:
            ev, ck, sp = finding_witness_outcome(w)
        except Exception as ex:
            run.violation({"kind": "corpus case not evaluable", "file": path, "error": repr(ex)[:300],
                           "obligation": "corpus/C03"}, found_input=False)
            continue
        n += 1
        run.count(("corpus", os.path.basename(path)), True)
        if not agrees_with_spec(ev, ck, sp):
            run.violation({"kind": "corpus case fails again (regression of a fixed defect)", "file": path,
                           "witness": w, "evaluate": ev, "check": ck, "spec": sp,
                           "how_to_replay": "./check C03 --replay <this file>"})
    run.cov["corpus_cases"] = n


def known_entries():
    """entries of C03: harness/meta/C03.findings.json is the committed source from which
    known_findings.json is generated (gen_manifest.py); read the source so that the check does not
    depend on the generated file being fresh.  Never written at check time."""
    import os
    p = os.path.join(lib.VERIF, "harness", "meta", "C03.findings.json")
    if os.path.exists(p):
        return json.load(open(p))
    return lib.known_findings("C03")


def replay_known(run):
    for e in known_entries():
        if e.get("status") != "open":
            continue
        try:
            ev, ck, sp = finding_witness_outcome(e["witness"])
        except Exception as ex:  # witness no longer reproducible
            print(f"[C03] note: witness of {e['key']} could not be replayed: {ex!r}", file=sys.stderr)
            continue
        if not agrees_with_spec(ev, ck, sp):
            run.known(e["what"])


# --------------------------------------------------------------------------
# main
# --------------------------------------------------------------------------
IMPORTS = "EvalAtoms"
OK_DEF = ("fun c : tree * formula atom * res TV * res bool * bool * bool => "
          "let '(T, f, ev, ck, sp, cmp_spec) := c in "
          "res_eqb tv_eqb (m_evaluate T CST f) ev && res_eqb Bool.eqb (m_check T CST f) ck "
          "&& (negb cmp_spec || Bool.eqb (s_sat T CST f) sp)")
CST_DEF = f"Definition CST := {g_var(START)}.\n"
# second strategy: the MODEL (Eval2.v: eliminate_quantifiers + evaluate_predicates_action + the pure
# query; Z3's part is played by the candidate-based evaluator z3_by_cands) against the implementation,
# and the class predicate of the finding K_numq_sort (Eval2Check.v); `mismatches` lists the cases
# where ok_fn is false
S2_IMPORTS = "Eval2 Eval2Check"
S2_OK_DEF = ("fun c : tree * formula atom2 * res TV * res bool => let '(T, f, ev, ck) := c in "
             "res_eqb tv_eqb (m2_evaluate z3_by_cands T CST f) ev && "
             "res_eqb Bool.eqb (m2_check z3_by_cands T CST f) ck")
S2_CLASS_DEF = ("fun c : tree * formula atom2 * res TV * res bool => let '(T, f, ev, ck) := c in "
                "negb (K_numq_sort f)")
# formulas that are SENSITIVE to the sort of the numeric quantifier (finding K_numq_sort) and, for
# contrast, formulas inside the guard of C03_strategy2_correct_partial
NUMQ_FORMS = [
    ('forall int n: (>= (str.to.int n) 0)', "assgn"),
    ('exists int n: (= n "abc")', "assgn"),
    ('exists int n: (< (str.to.int n) 0)', "list"),
    ('forall int n: (not (= n "x"))', "expr"),
    ('exists int n: (= (str.len n) 0)', "block"),
    ('forall int n: ((not count(start, "<assgn>", n)) or (>= (str.to.int n) 1))', "assgn"),
    ('exists int n: (count(start, "<var>", n) and forall <var> v in start: (not (= v n)))', "assgn"),
    ('exists int n: (count(start, "<digit>", n) and exists <digit> d in start: (= d n))', "list"),
    ('forall int n: exists int m: ((not count(start, "<term>", n)) or (count(start, "<term>", m) and (= n m)))', "expr"),
    ('exists int n: (= n "2")', "list"),
    # the exact string that count() reports matters here (canonical numeral, no padding)
    ('exists int n: (count(start, "<assgn>", n) and (= (str.len n) 1))', "assgn"),
    ('forall int n: ((not count(start, "<term>", n)) or (<= (str.len n) 1))', "expr"),
    ('exists int n: (count(start, "<assgn>", n) and ((= n "1") or (= n "2")))', "assgn"),
]
# hypotheses of C03_eval_correct_mexpr (Props/C03.v) as the verified boolean `mexpr_guard`
# (EvalMexprCheck.v), evaluated on the INSTANTIATED formula; `mismatches` lists the cases where
# ok_fn is false, i.e. where the guard HOLDS
GUARD_IMPORTS = "EvalAtoms EvalFacts EvalMexprCheck"
GUARD_DEF = ("fun c : tree * formula atom * res TV * res bool * bool * bool => "
             "let '(T, f, ev, ck, sp, cmp_spec) := c in "
             "negb (match (if existsb (var_eqb CST) (fvars atom atom_free f) "
             "then inst_const atom atom_inst T CST f else Ok f) with "
             "Ok f' => mexpr_guard T f' | Raise _ => false end)")
# hypotheses of C03_evaluate_correct_atoms / C03_solver_check_correct_atoms (Props/C03.v) as the verified
# boolean `evaluate_guard` (EvalInstFacts.v), evaluated on the UNINSTANTIATED formula of EVERY
# encodable first-strategy case; `mismatches` lists the cases where the guard HOLDS
EGUARD_IMPORTS = "EvalAtoms EvalFacts EvalMexprCheck EvalInstFacts"
EGUARD_DEF = ("fun c : tree * formula atom * res TV * res bool * bool * bool => "
              "let '(T, f, ev, ck, sp, cmp_spec) := c in negb (evaluate_guard T CST f)")


def run(run):
    rng = random.Random(run.seed)
    thorough = run.tier == "thorough"
    run.cov["rule"] = (
        "triples (grammar, closed tree, formula): 4 grammars (assignment language, nested blocks with "
        "epsilon, nested lists with numbers, a 30-symbol alternative); random derivations (fuzzer shape for "
        "epsilon) and re-parsed inputs (parser shape); formulas AST-first: quantifier chains (1-3, forall/exists, "
        "in start or in an outer variable, 30% with a match expression incl. optionals) over reachable "
        "nonterminals, bodies = not/and(n-ary)/or(n-ary) over all 9 structural predicates, count, string "
        "(in)equality var/literal and var/var, str.len comparisons; built directly as isla objects and, without "
        "match expressions, additionally through concrete syntax (own printer -> parse_isla). Verdicts of "
        "evaluate() and ISLaSolver.check() compared with the Coq model (vm_compute) and with the spec "
        "(spec_sem.py; satb in Coq). non-trivial = the formula's spec verdict is not constant over the trees "
        "generated for its grammar")
    t_0 = time.time()
    proof_ok = run.proof_stage()
    t_1 = time.time()
    replay_known(run)
    replay_corpus(run)
    t_2 = time.time()
    known = [e for e in known_entries() if e.get("status") == "open"]
    known_by_class = {e["class"]: e for e in known}

    n_formulas = 40 if thorough else 8          # per grammar
    n_trees = 20 if thorough else 8             # per grammar
    shards, smeta = [], []
    gshards, gmeta = [], []     # match-expression cases, for the guard of C03_eval_correct_mexpr
    hist = {"TT": 0, "FF": 0, "UU": 0, "raise": 0, "with_mexpr": 0, "concrete_syntax": 0, "direct": 0,
            "strategy2_numeric": 0, "strategy2_on_duplicate_subtrees": 0, "strategy2_unknown": 0,
            "unencodable": 0, "wide_tree_cases": 0}
    s2_keys = []
    kept_trees = {}
    verdicts_per_formula = {}
    spec_failures = []      # impl departs from spec (candidates)
    s2_shards, s2_meta = [], []     # second-strategy cases for the Coq model (Eval2.v)

    def s2_add(tname, t, fobj, g, ev, ck, sp, meta):
        """one second-strategy case for the Coq stage (model vs implementation, class K_numq_sort)"""
        meta = dict(meta, evaluate=ev, check=ck, spec=sp)
        try:
            lit = g_formula2(fobj, g)
        except Unencodable as e:
            hist["strategy2_unencodable"] = hist.get("strategy2_unencodable", 0) + 1
            return meta
        case = f"({tname}, {lit}, {g_out_tv(ev)}, {g_out_b(ck)})"
        tdef = f"Definition {tname} := {g_tree(t)}.\n"
        if s2_shards and len(s2_shards[-1][1]) < 120:
            d, cs = s2_shards[-1]
            s2_shards[-1] = (d if tdef in d else d + tdef, cs + [case])
            s2_meta[-1].append(meta)
        else:
            s2_shards.append((CST_DEF + tdef, [case]))
            s2_meta.append([meta])
        return meta

    n_formulas_std, n_trees_std = n_formulas, n_trees
    for gname, g in GRAMMARS.items():
        # the targeted grammars (ambiguity, cross-grammar shapes) run mostly on their templates and
        # match expressions: fewer trees and random formulas keep the quick tier within budget
        light = gname in ("amb", "kva", "kvb") and not thorough
        n_formulas = 2 if light else n_formulas_std
        n_trees = 4 if light else (n_trees_std - 1 if not thorough else n_trees_std)
        cg = canonical(g)
        md = min_depths(cg)
        trees = []
        for k in range(n_trees):
            t = rand_derivation(rng, cg, md, "<start>", rng.randint(3, 7))
            if len(t.paths()) > 70 and gname != "wide":
                t = rand_derivation(rng, cg, md, "<start>", 4)
            if k % 4 == 3:      # parser shape (epsilon children [] instead of [("", [])])
                try:
                    t = T.from_parse_tree(next(EarleyParser(g).parse(str(t))))
                except Exception:
                    pass
            trees.append(t)
        if gname == "amb":
            # equal texts, different derivations, side by side (built directly, a parser would pick one)
            def amb_items(kinds):
                item = lambda k: T("<item>", [T("<num>" if k == "n" else "<word>", [T("1", ())])])
                if len(kinds) == 1:
                    return T("<items>", [item(kinds[0])])
                return T("<items>", [item(kinds[0]), T(";", ()), amb_items(kinds[1:])])
            trees[0] = T("<start>", [amb_items("nw")])
            trees[1] = T("<start>", [amb_items("wnw")])
        COUNT_HINT[id(g)] = {nt: [sum(1 for _, n in spec_sem.nodes(t) if n.value == nt) for t in trees]
                             for nt in nonterminals(g)}
        formulas = templates(g)
        counter = [0]
        n_total = n_formulas + len(formulas)
        n_const = sum(1 for ast in formulas if len({spec_verdict(build(ast), t, g) for t in trees}) <= 1)
        attempts = 0
        while len(formulas) < n_total and attempts < 60 * n_formulas:
            attempts += 1
            ast = gen_formula(rng, gname, g, [("start", "<start>")], rng.randint(1, 3), counter)
            # keep the share of formulas that are constant over this grammar's trees below one half
            # (a constant formula exercises little; the measured figure goes into the evidence)
            fobj = build(ast)
            vs = {spec_verdict(fobj, t, g) for t in trees}
            if len(vs) <= 1:
                if n_const >= n_total // 2:
                    continue
                n_const += 1
            formulas.append(ast)
        # compile formulas once per grammar
        compiled = []
        for fi, ast in enumerate(formulas):
            variants = [("direct", build(ast))]
            src = None if has_mexpr(ast) else unparse(ast)
            if src is not None and fi % 2 == 0:
                try:
                    variants.append(("concrete", L.parse_isla(src, g, STANDARD_STRUCTURAL_PREDICATES,
                                                               STANDARD_SEMANTIC_PREDICATES)))
                except Exception as e:
                    run.violation({"kind": "own printer output rejected by parse_isla", "source": src,
                                   "error": repr(e)[:300], "obligation": "harness/c03.py unparse"},
                                  found_input=False)
            for how, fobj in variants:
                try:
                    solver = ISLaSolver(g, src if how == "concrete" else fobj)
                except Exception as e:
                    solver = e
                compiled.append((fi, how, ast, src, fobj, solver))
        kept_trees[gname] = trees
        for (fi, how, ast, src, fobj, solver) in compiled:
            pr = prefix_trees_problem(fobj, g)
            if pr:
                run.violation({"kind": "match-expression prefix tree is not a derivation of this grammar",
                               "problem": pr, "witness": {"grammar": gname, "formula": str(fobj), "source": src},
                               "obligation": "BindExpression.to_tree_prefix (input of model and spec)"})
                break
        for ti, t in enumerate(trees):
            tname = f"T_{gname}_{ti}"
            defs = f"Definition {tname} := {g_tree(t)}.\n"
            cs, ms = [], []
            gcs, gms = [], []
            wide = is_wide(t)
            for (fi, how, ast, src, fobj, solver) in compiled:
                ev = impl_evaluate(src if how == "concrete" else fobj, t, g)
                ck = impl_check(solver, t) if not isinstance(solver, Exception) else ("raise", lib.exn_name(solver))
                sp = spec_verdict(fobj, t, g)
                key = (gname, fi, how)
                verdicts_per_formula.setdefault(key, set()).add(sp)
                hist[ev[1] if ev[0] == "ok" else "raise"] += 1
                hist["with_mexpr"] += has_mexpr(ast)
                hist["concrete_syntax" if how == "concrete" else "direct"] += 1
                hist["wide_tree_cases"] += wide
                meta = {"grammar": gname, "tree": tree_json(t), "input": str(t), "formula": str(fobj),
                        "source": src, "how": how, "evaluate": ev, "check": ck, "spec": sp,
                        "key": key, "wide": wide}
                try:
                    lit = g_formula(fobj, g)
                except Unencodable as e:
                    hist["unencodable"] += 1
                    meta["unencodable"] = str(e)
                    lit = None
                meta["keps"] = py_keps(fobj, g)
                meta["mexpr"] = bool(has_mexpr(ast))
                # K_cons_rel: the formula uses `consecutive` and the implementation's verdict is
                # exactly the specification's verdict with consecutive read as the code computes it
                meta["kcons"] = (uses_consecutive(fobj) and not agrees_with_spec(ev, ck, sp)
                                 and agrees_with_spec(ev, ck, spec_verdict_code_consecutive(fobj, t, g)))
                if lit is not None:
                    cmp_spec = sp[0] == "ok"
                    cs.append(f"({tname}, {lit}, {g_out_tv(ev)}, {g_out_b(ck)}, {g_bool(sp[1] if cmp_spec else False)}, "
                              f"{g_bool(cmp_spec)})")
                    ms.append(meta)
                    if has_mexpr(ast):
                        gcs.append(cs[-1])
                        gms.append(meta)
                if not agrees_with_spec(ev, ck, sp):
                    spec_failures.append(meta)
                if len(run.cov["samples"]) < 5 and fi == ti:
                    run.sample({k: meta[k] for k in ("grammar", "input", "formula", "how", "evaluate", "check", "spec")})
            if cs:
                # a few trees per coqc process (loading the compiled model dominates small shards)
                if shards and len(shards[-1][1]) + len(cs) <= 150:
                    shards[-1] = (shards[-1][0] + defs, shards[-1][1] + cs)
                    smeta[-1] = smeta[-1] + ms
                else:
                    shards.append((CST_DEF + defs, cs))
                    smeta.append(ms)
            if gcs:
                if gshards and len(gshards[-1][1]) + len(gcs) <= 150:
                    gshards[-1] = (gshards[-1][0] + defs, gshards[-1][1] + gcs)
                    gmeta[-1] = gmeta[-1] + gms
                else:
                    gshards.append((CST_DEF + defs, gcs))
                    gmeta.append(gms)

        # ---- second strategy (eliminate_quantifiers + one validity query): every directly built
        # formula of this grammar wrapped in a meaning-preserving numeric quantifier, on every tree;
        # compared with the specification of the WRAPPED formula (spec_sem, numerals < bound)
        needle0 = nonterminals(g)[0]
        s2_forms = []
        for (fi, how, ast, src, fobj, solver) in compiled:
            if how != "direct":
                continue
            kind = S2_KINDS[fi % len(S2_KINDS)]
            w, wsrc = wrap_numeric(fobj, None if has_mexpr(ast) else unparse(ast), kind, needle0)
            try:
                wsolver = ISLaSolver(g, w)
            except Exception as e:
                wsolver = e
            s2_forms.append((fi, kind, w, wsrc, wsolver))
        for ti, t in enumerate(trees):
            dups = has_duplicate_subtrees(t)
            bound_used = COUNT_HINT[id(g)][needle0][ti] + 2
            for (fi, kind, w, wsrc, wsolver) in s2_forms:
                ev = impl_evaluate(w, t, g)
                ck = impl_check(wsolver, t) if not isinstance(wsolver, Exception) else ("raise", lib.exn_name(wsolver))
                bound = bound_used if kind == "eu" else 2
                sp = spec_verdict(w, t, g, bound)
                key = (gname, fi, "strategy2-" + kind)
                verdicts_per_formula.setdefault(key, set()).add(sp)
                hist["strategy2_numeric"] += 1
                hist["strategy2_on_duplicate_subtrees"] += dups
                if ev == ("ok", "UU"):
                    # Z3 did not decide the remaining quantified query within isla's 500 ms budget:
                    # outside the property ("when Z3 can decide"); counted, bounded below
                    hist["strategy2_unknown"] += 1
                    continue
                hist[ev[1] if ev[0] == "ok" else "raise"] += 1
                s2_keys.append((key, str(t)))
                if thorough or (fi + ti) % 3 == 0:
                    s2_add(f"T_{gname}_{ti}", t, w, g, ev, ck, sp,
                           {"grammar": gname, "tree": tree_json(t), "input": str(t), "formula": str(w),
                            "source": wsrc, "how": "strategy2-" + kind, "key": key, "wide": False})
                if not agrees_with_spec(ev, ck, sp):
                    spec_failures.append({
                        "grammar": gname, "tree": tree_json(t), "input": str(t), "formula": str(w), "source": wsrc,
                        "how": "strategy2-" + kind, "evaluate": ev, "check": ck, "spec": sp, "key": key,
                        "wide": False, "keps": py_keps(w, g),
                        "kcons": (uses_consecutive(w)
                                  and agrees_with_spec(ev, ck, spec_verdict_code_consecutive(w, t, g, bound)))})

    # ---- cross-grammar stream: equal match expressions for the same nonterminal, FRESH formula objects,
    # evaluated alternately under two grammars that share names but differ in shape (one process)
    S = ("start", "<start>")
    cross_asts = []
    for q in ("forall", "exists"):
        for neg in (False, True):
            cross_asts.append((q, ("cp", "<pair>"), S, [("bind", "ck", "<key>"), "=", ("bind", "cv", "<val>")],
                               ("streq", neg, ("var", ("ck", "<key>")), ("var", ("cv", "<val>")))))
    cross_asts.append(("exists", ("cq", "<pairs>"), S, [("bind", "cp2", "<pair>"), [";", "<pairs>"]],
                       ("count", ("cp2", "<pair>"), "<key>", "1")))
    hist["cross_grammar_cases"] = 0
    for rnd in range(2):
        for ast in cross_asts:
            for gname in (("kva", "kvb") if rnd == 0 else ("kvb", "kva")):
                g = GRAMMARS[gname]
                fobj = build(ast)
                pr = prefix_trees_problem(fobj, g)
                if pr:
                    run.violation({"kind": "match-expression prefix tree is not a derivation of this grammar "
                                           "(cross-grammar stream)", "problem": pr,
                                   "witness": {"grammar": gname, "formula": str(fobj)},
                                   "obligation": "BindExpression.to_tree_prefix"})
                    continue
                try:
                    solver = ISLaSolver(g, fobj)
                except Exception as e:
                    solver = e
                for t in kept_trees.get(gname, [])[:4]:
                    ev = impl_evaluate(fobj, t, g)
                    ck = impl_check(solver, t) if not isinstance(solver, Exception) else ("raise", lib.exn_name(solver))
                    sp = spec_verdict(fobj, t, g)
                    hist["cross_grammar_cases"] += 1
                    key = ("cross", gname, str(fobj))
                    verdicts_per_formula.setdefault(key, set()).add(sp)
                    s2_keys.append((key, (rnd, str(t))))
                    if not agrees_with_spec(ev, ck, sp):
                        spec_failures.append({"grammar": gname, "tree": tree_json(t), "input": str(t),
                                              "formula": str(fobj), "source": None, "how": "cross-grammar",
                                              "evaluate": ev, "check": ck, "spec": sp, "key": key, "wide": False})

    t_3 = time.time()
    # numeric quantifiers: second strategy (eliminate_quantifiers + Z3), checked against the spec only
    num_forms = [
        ('exists int n: (count(start, "<assgn>", n) and (>= (str.to.int n) 2))', "assgn"),
        ('forall int n: ((not count(start, "<assgn>", n)) or (<= (str.to.int n) 2))', "assgn"),
        ('exists int n: (count(start, "<decl>", n) and forall <block> b in start: count(b, "<decl>", n))', "block"),
        ('exists int n: (count(start, "<digit>", n) and (= (str.to.int n) 3))', "list"),
    ]
    for src, gname in num_forms:
        g = GRAMMARS[gname]
        cg, md = canonical(g), min_depths(canonical(g))
        try:
            solver = ISLaSolver(g, src)
            pf = L.parse_isla(src, g, STANDARD_STRUCTURAL_PREDICATES, STANDARD_SEMANTIC_PREDICATES)
        except Exception as e:
            run.violation({"kind": "numeric formula rejected", "source": src, "error": repr(e)[:300],
                           "obligation": "harness/c03.py num_forms"}, found_input=False)
            continue
        for k in range(6 if not thorough else 20):
            t = rand_derivation(rng, cg, md, "<start>", rng.randint(3, 6))
            if len(t.paths()) > 60:
                continue
            ev, ck = impl_evaluate(src, t, g), impl_check(solver, t)
            sp = spec_verdict(pf, t, g, bound=len(t.paths()) + 2)
            verdicts_per_formula.setdefault((gname, src, "numeric"), set()).add(sp)
            hist["strategy2_numeric"] += 1
            hist[ev[1] if ev[0] == "ok" else "raise"] += 1
            s2_add(f"T_num_{num_forms.index((src, gname))}_{k}", t, pf, g, ev, ck, sp,
                   {"grammar": gname, "tree": tree_json(t), "input": str(t), "formula": src, "source": src,
                    "how": "numeric", "key": (gname, src, "numeric"), "wide": False})
            if not agrees_with_spec(ev, ck, sp):
                spec_failures.append({"grammar": gname, "tree": tree_json(t), "input": str(t), "formula": src,
                                      "source": src, "how": "numeric", "evaluate": ev, "check": ck, "spec": sp,
                                      "key": (gname, src, "numeric"), "wide": False})

    # numeric quantifiers whose truth depends on WHAT the bound variable ranges over (numerals in the
    # specification, all strings in the Z3 query: finding K_numq_sort) next to formulas inside the guard
    # of C03_strategy2_correct_partial; a departure from the specification is attributed to the class
    # by the Coq predicate K_numq_sort (evaluated below), anything else is a VIOLATION
    for qi, (src, gname) in enumerate(NUMQ_FORMS):
        g = GRAMMARS[gname]
        cg, md = canonical(g), min_depths(canonical(g))
        try:
            solver = ISLaSolver(g, src)
            pf = L.parse_isla(src, g, STANDARD_STRUCTURAL_PREDICATES, STANDARD_SEMANTIC_PREDICATES)
        except Exception as e:
            run.violation({"kind": "numeric formula rejected", "source": src, "error": repr(e)[:300],
                           "obligation": "harness/c03.py NUMQ_FORMS"}, found_input=False)
            continue
        for k in range(3 if not thorough else 10):
            t = rand_derivation(rng, cg, md, "<start>", rng.randint(3, 5))
            if len(t.paths()) > 40:
                continue
            ev, ck = impl_evaluate(src, t, g), impl_check(solver, t)
            sp = spec_verdict(pf, t, g, bound=len(t.paths()) + 2)
            hist["strategy2_numeric"] += 1
            hist["strategy2_numq_sort_stream"] = hist.get("strategy2_numq_sort_stream", 0) + 1
            if ev == ("ok", "UU"):
                hist["strategy2_unknown"] += 1
                continue
            hist[ev[1] if ev[0] == "ok" else "raise"] += 1
            m = s2_add(f"T_nq_{qi}_{k}", t, pf, g, ev, ck, sp,
                       {"grammar": gname, "tree": tree_json(t), "input": str(t), "formula": src, "source": src,
                        "how": "numq-sort", "key": (gname, src, "numq-sort"), "wide": False})
            s2_keys.append(((gname, src, "numq-sort"), str(t)))
            verdicts_per_formula.setdefault((gname, src, "numq-sort"), set()).add(sp)
            if not agrees_with_spec(ev, ck, sp):
                spec_failures.append(m)

    t_4 = time.time()
    run.cov["phase_seconds"] = {"proof_stage": round(t_1 - t_0, 1), "known_replay": round(t_2 - t_1, 1),
                                "generate_and_run_impl": round(t_3 - t_2, 1), "numeric": round(t_4 - t_3, 1)}
    print("[C03] phases", run.cov["phase_seconds"], flush=True)
    # count + non-constancy
    nonconst = {k for k, vs in verdicts_per_formula.items() if len({v for v in vs if v[0] == "ok"}) > 1}
    for ms in smeta:
        for m in ms:
            run.count((m["key"], m["input"]), m["key"] in nonconst)
    for (k, inp) in s2_keys:
        run.count((k, inp), k in nonconst)
    if hist["strategy2_unknown"] * 5 > max(1, hist["strategy2_numeric"]):
        run.violation({"kind": "more than 20% of the second-strategy cases are UNKNOWN", "histogram": hist,
                       "obligation": "harness/c03.py second-strategy stream"}, found_input=False)
    for k, vs in verdicts_per_formula.items():
        if k[2] == "numeric":
            for i, _ in enumerate(vs):
                run.count((k, i), k in nonconst)
    frac = len(nonconst) / max(1, len(verdicts_per_formula))
    run.cov["formulas"] = len(verdicts_per_formula)
    run.cov["nonconstant_formula_fraction"] = round(frac, 3)
    run.cov["histogram"] = hist
    run.cov["triples"] = sum(len(ms) for ms in smeta) + hist["strategy2_numeric"] + hist["cross_grammar_cases"]
    print(f"[C03] triples={run.cov['triples']} formulas={len(verdicts_per_formula)} "
          f"non-constant={frac:.0%} hist={hist}", flush=True)
    # generator-quality gate: a property of this harness, not of /repo.  It is recorded in the evidence
    # (and fails loudly only when the generator collapses), because a weak draw of one seed must not be
    # reported as a violation of C03 on an unchanged tree.
    run.cov["generator_quality_ok"] = bool(frac >= 0.30)
    if frac < 0.15:
        run.violation({"kind": "generator collapsed: fewer than 15% of the formulas are non-constant",
                       "fraction": frac, "obligation": "harness/c03.py generators"}, found_input=False)

    # ---- model <-> implementation (and satb <-> spec_sem) in Coq ----
    corr_bad = []
    try:
        bad, dt = lib.coq_run_shards("c03", IMPORTS, OK_DEF, shards)
        run.cov["coq_seconds"] = round(dt, 1)
        for (k, i) in bad:
            corr_bad.append(smeta[k][i])
    except RuntimeError as e:
        run.violation({"kind": "correspondence-not-evaluable", "obligation": "Eval.v cases",
                       "error": str(e)[-2500:]}, found_input=False)

    # ---- second strategy: model (Eval2.v) <-> implementation, class predicate K_numq_sort ----
    try:
        bad2, dt2 = lib.coq_run_shards("c03s2", S2_IMPORTS, S2_OK_DEF, s2_shards)
        kcls, dt3 = lib.coq_run_shards("c03s2k", S2_IMPORTS, S2_CLASS_DEF, s2_shards)
        n_s2 = sum(len(ms) for ms in s2_meta)
        for (k, i) in kcls:
            s2_meta[k][i]["knumq"] = True
        in_class = sum(1 for ms in s2_meta for m in ms if m.get("knumq"))
        run.cov["strategy2_model"] = {"cases_in_coq": n_s2, "model_differs": len(bad2),
                                      "K_numq_sort_cases": in_class, "outside_class": n_s2 - in_class,
                                      "coq_seconds": round(dt2 + dt3, 1)}
        print(f"[C03] second strategy: cases in Coq={n_s2} model!=impl={len(bad2)} in class K_numq_sort={in_class}",
              flush=True)
        for (k, i) in bad2:
            corr_bad.append(s2_meta[k][i])
        if n_s2 == 0:
            run.violation({"kind": "no second-strategy case could be encoded for the model",
                           "obligation": "harness/c03.py g_formula2"}, found_input=False)
        for ms in s2_meta:
            for m in ms:
                # outside the class the guard of the numeric quantifiers holds: theorem + correspondence
                # predict the specification's verdict (the other guards are those of the first strategy)
                if not m.get("knumq") and not agrees_with_spec(m["evaluate"], m["check"], m["spec"]) \
                        and m not in spec_failures:
                    spec_failures.append(m)
    except RuntimeError as e:
        run.violation({"kind": "correspondence-not-evaluable", "obligation": "Eval2.v cases",
                       "error": str(e)[-2500:]}, found_input=False)

    # ---- hypotheses of C03_eval_correct_mexpr on the generated match-expression cases ----
    # (non-vacuity at scale: how many generated cases lie inside the proved fragment; on those the
    # theorem + the correspondence predict a definite verdict equal to the specification's)
    try:
        ghold, gdt = lib.coq_run_shards("c03g", GUARD_IMPORTS, GUARD_DEF, gshards)
        n_mexpr = sum(len(ms) for ms in gmeta)
        inside = [gmeta[k][i] for (k, i) in ghold]
        by_g = {}
        for ms in gmeta:
            for m in ms:
                by_g.setdefault(m["grammar"], [0, 0])[0] += 1
        for m in inside:
            by_g[m["grammar"]][1] += 1
        run.cov["mexpr_theorem_guard"] = {"mexpr_cases": n_mexpr, "guard_holds": len(inside),
                                          "per_grammar_cases_inside": by_g, "coq_seconds": round(gdt, 1)}
        print(f"[C03] match-expression cases={n_mexpr} inside the guard of C03_eval_correct_mexpr={len(inside)}",
              flush=True)
        if n_mexpr and not inside:
            run.violation({"kind": "no generated match-expression case satisfies the hypotheses of "
                                   "C03_eval_correct_mexpr", "obligation": "harness/c03.py MEXPRS / mexpr_guard"},
                          found_input=False)
        for m in inside:
            if not agrees_with_spec(m["evaluate"], m["check"], m["spec"]):
                run.violation({"kind": "a case inside the guard of C03_eval_correct_mexpr departs from the specification",
                               "witness": {k: m[k] for k in ("grammar", "tree", "input", "formula", "source", "how")},
                               "evaluate": m["evaluate"], "check": m["check"], "spec": m["spec"],
                               "theorem": "Props/C03.v C03_eval_correct_mexpr_atoms + correspondence"})
                break
    except RuntimeError as e:
        run.violation({"kind": "guard-not-evaluable", "obligation": "EvalMexprCheck.v mexpr_guard",
                       "error": str(e)[-2500:]}, found_input=False)

    # ---- hypotheses of C03_evaluate_correct_atoms on ALL generated first-strategy cases ----
    # (the theorem is about evaluate()/check() on the parsed / API-built formula itself: inside the
    # guard, theorem + correspondence predict a definite verdict equal to the specification's and no
    # exception from either entry point)
    try:
        # quick tier: every second shard (type-checking the case literals again dominates the cost)
        step = 1 if thorough else 2
        eshards, emeta = shards[::step], smeta[::step]
        ehold, edt = lib.coq_run_shards("c03e", EGUARD_IMPORTS, EGUARD_DEF, eshards)
        n_all = sum(len(ms) for ms in emeta)
        einside = [emeta[k][i] for (k, i) in ehold]
        by_g = {}
        for ms in emeta:
            for m in ms:
                by_g.setdefault(m["grammar"], [0, 0])[0] += 1
        for m in einside:
            by_g[m["grammar"]][1] += 1
        run.cov["evaluate_theorem_guard"] = {"cases": n_all, "of_first_strategy_cases": sum(len(ms) for ms in smeta),
                                             "guard_holds": len(einside),
                                             "with_match_expression_inside": sum(1 for m in einside if m.get("mexpr")),
                                             "per_grammar_cases_inside": by_g, "coq_seconds": round(edt, 1)}
        print(f"[C03] first-strategy cases={n_all} inside the guard of C03_evaluate_correct_atoms={len(einside)}",
              flush=True)
        if n_all and len(einside) * 5 < n_all:
            run.violation({"kind": "fewer than 20% of the generated cases satisfy the hypotheses of "
                                   "C03_evaluate_correct_atoms", "inside": len(einside), "cases": n_all,
                           "obligation": "harness/c03.py generators / evaluate_guard"}, found_input=False)
        for m in einside:
            if not agrees_with_spec(m["evaluate"], m["check"], m["spec"]):
                run.violation({"kind": "a case inside the guard of C03_evaluate_correct_atoms departs from the specification",
                               "witness": {k: m[k] for k in ("grammar", "tree", "input", "formula", "source", "how")},
                               "evaluate": m["evaluate"], "check": m["check"], "spec": m["spec"],
                               "theorem": "Props/C03.v C03_evaluate_correct_atoms / C03_solver_check_correct_atoms + correspondence"})
                break
    except RuntimeError as e:
        run.violation({"kind": "guard-not-evaluable", "obligation": "EvalInstFacts.v evaluate_guard",
                       "error": str(e)[-2500:]}, found_input=False)

    # ---- classification ----
    run.cov["disagreements_checked"] = len(corr_bad) + len(spec_failures)
    unknown_fail = []
    for m in spec_failures:
        # divergence kind of the open classes: a DEFINITE verdict opposite to the spec (never an
        # exception, never UNKNOWN).  The former class K_vacuous_forall is FIXED (/repo 0230f8f):
        # such a divergence is a VIOLATION again.
        definite = (m["evaluate"][0] == "ok" and m["evaluate"][1] in ("TT", "FF") and m["check"][0] == "ok")
        cls = None
        if definite and m.get("kcons"):
            cls = "K_cons_rel"
        elif definite and m.get("wide"):
            cls = "K_wide"
        elif definite and m.get("keps"):
            cls = "K_mexpr_eps_shape"
        elif definite and m.get("knumq"):
            cls = "K_numq_sort"
        if cls and cls in known_by_class:
            run.known(known_by_class[cls]["what"])
            run.cov.setdefault("known_class_hits", {}).setdefault(cls, 0)
            run.cov["known_class_hits"][cls] += 1
        else:
            unknown_fail.append(m)
    if unknown_fail:
        unknown_fail.sort(key=lambda m: len(json.dumps(m, default=str)))
        w = unknown_fail[0]
        run.violation({"kind": "evaluate()/check() departs from the specification semantics",
                       "witness": {k: w[k] for k in ("grammar", "tree", "input", "formula", "source", "how")},
                       "evaluate": w["evaluate"], "check": w["check"], "spec": w["spec"],
                       "all_failing": len(unknown_fail),
                       "theorem": "Props/C03.v (model = spec) + correspondence",
                       "how_to_replay": "./check C03 --replay <this file>"})
    elif corr_bad:
        w = corr_bad[0]
        diag = ""
        try:
            g = GRAMMARS[w["grammar"]]
            t = tree_from_json(w["tree"])
            diag = "see witness"
        except Exception:
            pass
        run.violation({"kind": "correspondence broken but the spec verdicts agree",
                       "first": {k: w[k] for k in ("grammar", "input", "formula", "how", "evaluate", "check", "spec")},
                       "count": len(corr_bad), "diag": diag,
                       "obligation": "correspondence Eval.v / Eval2.v (m_evaluate/m_check/m2_evaluate/m2_check/satb) <-> "
                                     "isla.evaluator.evaluate / ISLaSolver.check / spec_sem.py"},
                      found_input=False)
    if not proof_ok:
        run.violation({"kind": "proof obligation failed", "problems": run.proof_problems,
                       "obligation": "Props/C03.v"}, found_input=False)
    run.cov["trusted_base"] = lib.TRUSTED_BASE_COMMON + [
        "match-expression prefix trees are inputs of the model (BindExpression.to_tree_prefix is not modelled)",
        "SMT atoms restricted to string (in)equality, str.len comparisons, true/false (concrete family `atom`); "
        "other atoms enter the theorems through the Section hypotheses on aeval/adenote",
        "numeric quantifiers (second strategy): Z3's validity answer on the pure query is an oracle of the theorem "
        "(premises z3_sound / z3_decides); in the Coq run of the model its part is played by the candidate-based "
        "evaluator z3_by_cands (Eval2.v, unverified); the spec side is compared by bounded search (spec_sem)",
        "instantiate_top_level_constant: the `&`/`|` smart constructors are not modelled (verdict-preserving)",
        "spec_sem.py decides ground SMT atoms with Z3; its verdicts are cross-checked against satb in Coq on every case",
    ]


def replay(path):
    d = json.load(open(path))
    w = d.get("witness")
    if not w:
        print("replay file names an obligation, not an input:", d.get("obligation"))
        return 1
    g = WITNESS_GRAMMARS[w["grammar"]]
    t = tree_from_json(w["tree"]) if "tree" in w else T.from_parse_tree(next(EarleyParser(g).parse(w["input"])))
    src = w.get("source")
    if src is None:
        print("witness formula was built directly (match expression); formula:", w["formula"])
        src = w["formula"]
    ev = impl_evaluate(src, t, g)
    try:
        ck = impl_check(ISLaSolver(g, src), t)
    except Exception as e:
        ck = ("raise", lib.exn_name(e))
    try:
        pf = L.parse_isla(src, g, STANDARD_STRUCTURAL_PREDICATES, STANDARD_SEMANTIC_PREDICATES)
        sp = spec_verdict(pf, t, g)
    except Exception as e:
        sp = ("undefined", repr(e))
    print("evaluate:", ev, "check:", ck, "spec:", sp)
    return 0 if agrees_with_spec(ev, ck, sp) else 1
