"""C18 — ISLaSolver.check / parse / repair / mutate: correspondence of Solver/Api.v with
isla.solver.ISLaSolver, plus the property clauses checked directly on the implementation.

The model is the glue code of the four public helpers; parser, evaluator, abstraction
generator, sub-solver and mutator are parameters.  For every call the harness records what
those components really returned (by calling them itself, or by wrapping the module-level
names isla.solver.evaluate / generate_abstracted_trees / Mutator and the instance method
copy_without_queue — nothing in /repo is edited), instantiates the model's parameters with
these finite tables inside Coq, and compares the model's outcome with the outcome of the
real method.  Returned trees are validated by the verified checker wf_treeb (Coq) and by
evaluate()."""
import json, logging, random, signal, time
import lib
from lib import g_str, g_bool, g_tree, g_list, g_option, g_grammar
import isla.solver as S
from isla.solver import ISLaSolver, SemanticError, UnknownResultError
from isla.derivation_tree import DerivationTree
from isla.parser import EarleyParser
from isla.fuzzer import GrammarFuzzer
from isla.helpers import canonical, delete_unreachable
from isla import evaluator as EV

logging.disable(logging.CRITICAL)

FAMILY = [
    ("digits", '''<start> ::= <a> <b>
<a> ::= "" | "x" <a>
<b> ::= <d> | <d> <b>
<d> ::= "0" | "1" | "2"
''', True, [
        'exists <d> d in start: d = "1"',
        'forall <d> d in start: d = "1"',
        'forall <a> a in start: (a = "" or str.len(a) > 1)',
        'exists <a> a in start: exists <d> d in start: consecutive(a, d)',
        'forall <b> b="{<d> x}<b>" in start: x = "1"',
        'exists <a> a in start: nth("2", a, start)',
        'count(start, "<d>", "2")',
        'str.len(start) > 2',
        'true', 'false',
    ]),
    ("assign", '''<start> ::= <stmt>
<stmt> ::= <assgn> | <assgn> ";" <stmt>
<assgn> ::= <var> "=" <rhs>
<rhs> ::= <var> | <digit>
<var> ::= "a" | "b"
<digit> ::= "0" | "1"
''', True, [
        'forall <rhs> r in start: r = "1"',
        'exists <assgn> a in start: a = "a=1"',
        'forall <assgn> a="{<var> l}=<rhs>" in start: l = "a"',
        'forall <assgn> a1 in start: forall <assgn> a2 in start: (same_position(a1, a2) or not a1 = a2)',
        'str.len(start) < 8',
        'false',
    ]),
    ("opt", '''<start> ::= <opt> <w> <opt>
<opt> ::= "" | "-"
<w> ::= <c> | <c> <w>
<c> ::= "p" | "q"
''', True, [
        'exists <opt> o in start: o = "-"',
        'forall <opt> o in start: o = ""',
        'forall <c> c in start: c = "p"',
        'forall <opt> o in start: exists <c> c in start: (consecutive(o, c) or consecutive(c, o))',
        'exists <opt> o1 in start: exists <opt> o2 in start: before(o1, o2)',
        'exists <opt> o in start: nth("2", o, start)',
        'forall <w> w in start: (str.len(w) < 3)',
    ]),
    ("ambig", '''<start> ::= <e>
<e> ::= <e> "+" <e> | "1" | "2"
''', False, [
        'exists <e> e in start: e = "1+1"',
        'forall <e> e in start: (e = "1" or str.len(e) > 1)',
        'exists <e> e in start: exists <e> f in e: (not same_position(e, f) and str.len(f) > 1)',
    ]),
]
ALPHABET = {"digits": "x012", "assign": "ab01=;", "opt": "-pq", "ambig": "12+"}


class CallTimeout(BaseException):
    pass


def _alarm(*_):
    raise CallTimeout()


def guarded(f, seconds):
    """run f() under an alarm; returns ('ok', v) | ('raise', exn) | ('hang',)"""
    old = signal.signal(signal.SIGALRM, _alarm)
    signal.setitimer(signal.ITIMER_REAL, seconds)
    try:
        return ("ok", f())
    except CallTimeout:
        return ("hang",)
    except Exception as e:  # the outcome IS the observable
        return ("raise", e)
    finally:
        signal.setitimer(signal.ITIMER_REAL, 0)
        signal.signal(signal.SIGALRM, old)


def xname(e):
    if isinstance(e, UnknownResultError) or type(e).__name__ == "UnwrapFailedError":
        return "OtherErr"
    if isinstance(e, SemanticError):
        return "SemanticErr"
    n = lib.exn_name(e)
    return None if n == "OtherErr" else n       # None: an exception the model has no name for


def g_tv(r):
    return "TT" if r.is_true() else "FF" if r.is_false() else "UU"


def in_lang(cg, nt, s):
    """independent recogniser (fixpoint over spans), the spec-side oracle for `s in L(nt)`"""
    n = len(s)
    T = set()
    changed = True

    def seq(alt, i, j):
        ends = {i}
        for sym in alt:
            nxt = set()
            for e in ends:
                if sym in cg:
                    nxt |= {k for k in range(e, j + 1) if (sym, e, k) in T}
                elif s.startswith(sym, e) and e + len(sym) <= j:
                    nxt.add(e + len(sym))
            ends = nxt
            if not ends:
                return False
        return j in ends
    while changed:
        changed = False
        for A, alts in cg.items():
            for i in range(n + 1):
                for j in range(i, n + 1):
                    if (A, i, j) not in T and any(seq(a, i, j) for a in alts):
                        T.add((A, i, j)); changed = True
    return (nt, 0, n) in T


def first_parse(grammar, s, nt="<start>"):
    g = dict(grammar)
    if nt != "<start>":
        g = delete_unreachable(g | {"<start>": [nt]})
    try:
        pt = next(EarleyParser(g).parse(s))
    except SyntaxError:
        return None
    if nt != "<start>":
        pt = pt[1][0]
    return DerivationTree.from_parse_tree(pt)


def eval_obs(solver, t):
    try:
        return ("ok", g_tv(EV.evaluate(solver.formula, t, solver.grammar)))
    except Exception as e:
        return ("raise", xname(e) or "NotImpl")


def g_obs(o):
    return f"(Ok {o[1]})" if o[0] == "ok" else f"(Raise {o[1]})"


class Trace:
    """wraps the components used by repair/mutate and records what they returned"""

    def __init__(self, solver):
        self.s = solver
        self.ev, self.abs, self.sub, self.mut = [], [], [], []
        self.depth = 0

    def __enter__(self):
        tr = self
        self.o_eval, self.o_gen, self.o_mut = S.evaluate, S.generate_abstracted_trees, S.Mutator

        def evaluate(formula, tree, *a, **k):
            if tr.depth:
                return tr.o_eval(formula, tree, *a, **k)
            try:
                r = tr.o_eval(formula, tree, *a, **k)
            except Exception as e:
                tr.ev.append((tree, ("raise", xname(e) or "NotImpl"))); raise
            tr.ev.append((tree, ("ok", g_tv(r))))
            return r

        def gen(inp, paths):
            r = list(tr.o_gen(inp, paths))
            tr.abs.append((inp, r))
            return r

        class RecMutator(tr.o_mut):
            def mutate(self, inp):
                try:
                    m = super().mutate(inp)
                except Exception as e:
                    tr.mut.append(("raise", xname(e) or "NotImpl")); raise
                tr.mut.append(("ok", m))
                return m

        def cwq(*a, **k):
            sub = tr.o_cwq(*a, **k)
            init = k["initial_tree"].unwrap()
            o_solve = sub.solve

            def solve():
                tr.depth += 1
                try:
                    r = o_solve()
                except Exception as e:
                    tr.sub.append((init, ("raise", "StopIter" if isinstance(e, StopIteration) else
                                          xname(e) or "NotImpl"))); raise
                finally:
                    tr.depth -= 1
                tr.sub.append((init, ("ok", r)))
                return r
            sub.solve = solve
            return sub
        self.o_cwq = self.s.copy_without_queue
        S.evaluate, S.generate_abstracted_trees, S.Mutator = evaluate, gen, RecMutator
        self.s.copy_without_queue = cwq
        return self

    def __exit__(self, *a):
        S.evaluate, S.generate_abstracted_trees, S.Mutator = self.o_eval, self.o_gen, self.o_mut
        del self.s.copy_without_queue
        return False

    def tables(self, repaired_inputs):
        """Gallina definitions of the parameter tables"""
        ev = g_list(self.ev, lambda p: f"({g_tree(p[0])}, {g_obs(p[1])})")
        ab = {}
        order = []
        for inp, r in self.abs:
            k = id(inp)
            if k not in ab:
                ab[k] = (inp, []); order.append(k)
            ab[k][1].extend(r)
        abt = g_list([ab[k] for k in order], lambda p: f"({g_tree(p[0])}, {g_list(p[1], g_tree)})")
        sub = g_list(self.sub, lambda p: f"({g_tree(p[0])}, " +
                     (f"(Ok {g_tree(p[1][1])})" if p[1][0] == "ok" else f"(Raise {p[1][1]})") + ")")
        # sem_false(inp) is OBSERVED as: repair went past check(inp) without asking for abstractions
        sem = g_list([t for t in repaired_inputs if id(t) not in ab], lambda t: f"({g_tree(t)}, true)")
        mut = g_list(self.mut, lambda m: f"(Ok {g_tree(m[1])})" if m[0] == "ok" else f"(Raise {m[1]})")
        return ev, abt, sub, sem, mut


MODEL_DEFS = """
Definition tvres_d : res tv := Raise NotImpl.
Definition run_repair (ht sok fx : bool) (ev : list (tree * res tv)) (ab : list (tree * list tree))
  (sb : list (tree * res tree)) (sm : list (tree * bool)) (inp : tree) :=
  repair_tree (lookup ev tvres_d) ht (lookup sm false) (lookup ab []) (lookup sb (Raise NotImpl)) sok fx inp.
Definition run_mutate (ht sok fx : bool) (ev : list (tree * res tv)) (ab : list (tree * list tree))
  (sb : list (tree * res tree)) (sm : list (tree * bool)) (mu : list (res tree)) (inp : tree) :=
  mutate_tree (lookup ev tvres_d) ht (lookup sm false) (lookup ab []) (lookup sb (Raise NotImpl)) sok fx
    (fun _ k => nth k mu (Raise NotImpl)) inp (S (length mu)).
Definition ropt_eqb (a b : res (option tree)) : bool :=
  res_eqb (fun x y => match x, y with Some u, Some v => tree_eqb u v | None, None => true | _, _ => false end) a b.
"""


def defect_probes():
    """corpus: replay the witnesses of the two recorded defects (fixed in /repo by 9ee6a19 and 261d5a9);
    a defect that shows again is a VIOLATION unless its finding is (re)opened"""
    g = FAMILY[0][1]
    s = ISLaSolver(g, 'forall <d> d in start: d = "1"')
    r = guarded(lambda: s.repair("x12", 0.5), 20)
    safe_defect = r[0] == "raise" and isinstance(r[1], TypeError) and "safe()" in str(r[1])
    s2 = ISLaSolver(g, "false")
    r2 = guarded(lambda: s2.repair("x12", 0.5), 20)
    notop_defect = r2[0] == "ok" and r2[1].value_or(None) is not None and s2.check(r2[1].unwrap()) is False
    return safe_defect, notop_defect, (r, r2)


def stateful_sequence(run, rng, hist, prop_fail, cases_d, meta_d, gdefs, bundle, S0, gname, gsrc, phi, unamb, pool, thorough):
    """ONE solver object, a sequence of operations; every answer is compared with the (stateless) model
    evaluated on that input alone: check/parse bundles, check of trees derived by replace_path (ancestor
    ids kept; valid -> invalid -> back), repair/mutate of an already checked tree, and solvers derived by
    copy_without_queue (other start symbol / sub-grammar) interleaved with the original in both orders."""
    from returns.maybe import Some
    grammar = S0.grammar
    cg = canonical(grammar)
    G = f"GR_{gname}"
    trees = [(x, first_parse(grammar, x)) for x in dict.fromkeys(pool)]
    trees = [(x, t, eval_obs(S0, t)) for x, t in trees if t is not None]
    valid = [(x, t) for x, t, e in trees if e == ("ok", "TT")]
    invalid = [(x, t) for x, t, e in trees if e == ("ok", "FF")]
    if not trees:
        return
    hist["stateful_sequences"] = hist.get("stateful_sequences", 0) + 1
    v1 = (valid or invalid or [(trees[0][0], None)])[0][0]
    step = [0]

    def tag(what):
        step[0] += 1
        return f"op{step[0]}:{what}"

    def check_tree_case(t, what):
        """S0.check(tree) against evaluate(tree) computed outside the solver"""
        E = eval_obs(S0, t)
        r = guarded(lambda: S0.check(t), 20)
        if r[0] == "hang":
            return E
        o = ("ok", g_bool(r[1])) if r[0] == "ok" else ("raise", xname(r[1]))
        exp = {"TT": ("ok", "true"), "FF": ("ok", "false"), "UU": ("raise", "OtherErr")}.get(E[1]) if E[0] == "ok" else ("raise", E[1])
        w = {"grammar": gname, "constraint": phi, "input": str(t), "sequence_on_one_solver": tag(what)}
        hist["derived_tree_checks"] = hist.get("derived_tree_checks", 0) + 1
        run.count((gname, phi, "dtree", step[0], str(t)), E == ("ok", "FF"))
        if o[1] is None:
            prop_fail.append({"clause": "check(tree) raised an undocumented exception", "witness": w, "impl": repr(r[1])[:200]})
            return E
        if o != exp:
            prop_fail.append({"clause": "check(tree) is true exactly when the tree satisfies the constraint, whatever was "
                                        "checked on this solver before (history independence)", "witness": w,
                              "evaluate": E, "impl": o})
        cases_d.append(f"(@{'Ok' if E[0] == 'ok' else 'Raise'} tv {E[1]}, @{'Ok' if o[0] == 'ok' else 'Raise'} bool {o[1]})")
        meta_d.append(dict(w, evaluate=E, impl=o))
        return E

    # 1. bundle on a (preferably valid) string; 2. keep the tree the solver itself returned, check it
    bundle(S0, grammar, cg, G, v1, None, seq=tag("bundle"))
    r = guarded(lambda: S0.parse(v1, skip_check=True, silent=True), 20)
    t = r[1] if r[0] == "ok" else None
    if t is not None:
        e_t = check_tree_case(t, "check(parsed tree)")
        # 3. derived trees: replace a subtree by a same-label subtree of another pool tree; root/ancestor ids are kept
        others = [u for _, u, _ in trees]
        cands = []
        for path, sub in t.paths():
            if not path or sub.children is None or not sub.value.startswith("<"):
                continue
            for u in others:
                for _, r2 in u.paths():
                    if r2.value == sub.value and r2.children is not None and not r2.structurally_equal(sub):
                        cands.append((path, sub, r2))
        rng.shuffle(cands)
        flipped = same = 0
        for path, sub, r2 in cands[:40]:
            t2 = t.replace_path(path, r2)
            e2 = eval_obs(S0, t2)
            differs = e2 != e_t
            if (differs and flipped >= (2 if thorough else 1)) or (not differs and same >= (1 if thorough else 0)):
                continue
            flipped += differs; same += (not differs)
            check_tree_case(t2, "check(replace_path(checked tree))")
            if thorough and unamb and e2[0] == "ok":
                bundle(S0, grammar, cg, G, str(t2), None, seq=tag("bundle(str of derived tree)"))
            check_tree_case(t2.replace_path(path, sub), "check(replace_path back)")
        # 4. repair / mutate of the tree that was already checked on this solver
        what = "mutate" if (thorough or hist.get("stateful_sequences", 0) % 3 == 0) else "repair"
        bundle(S0, grammar, cg, G, v1, None, seq=tag(what + "(checked tree)"), rm_force=what, keep_tree=t)
    # 5./6. copy with another start symbol after the original has parsed; then the original again
    nts = [k for k in grammar if k != "<start>" and k not in grammar["<start>"]] or [k for k in grammar if k != "<start>"]
    nt = rng.choice(nts)
    subs = [str(sub) for _, u, _ in trees for _, sub in u.paths() if sub.value == nt] or [v1]
    sub_s = rng.choice(subs)

    def derived(origin, n, **kw):
        try:
            D = origin.copy_without_queue(**kw)
        except Exception as e:
            hist["copy_without_queue_raises"] = hist.get("copy_without_queue_raises", 0) + 1
            return None
        name = f"GR_{gname}_{n}_{nt.strip('<>')}"
        gdefs.setdefault(name, f"Definition {name} : grammar := {g_grammar(canonical(D.grammar))}.\n")
        return D, D.grammar, canonical(D.grammar), name
    d1 = derived(S0, "sub", start_symbol=nt)
    if d1:
        bundle(*d1, v1, None, seq=tag(f"copy(start_symbol={nt}).bundle"), lenient=True)
        if thorough:
            bundle(*d1, sub_s, None, seq=tag(f"copy(start_symbol={nt}).bundle"), lenient=True)
            bundle(S0, grammar, cg, G, sub_s, None, seq=tag("original.bundle after copy"))
        bundle(S0, grammar, cg, G, v1, None, seq=tag("original.bundle after copy"))
    # 7. the other order: the copy parses first, then a fresh original
    if thorough or hist["stateful_sequences"] % 2 == 0:
        S1 = ISLaSolver(gsrc, phi)
        d3 = derived(S1, "sub", start_symbol=nt)
        if d3:
            bundle(*d3, sub_s, None, seq=tag(f"fresh.copy(start_symbol={nt}).bundle first"), lenient=True)
            bundle(S1, grammar, cg, G, v1, None, seq=tag("fresh original.bundle after its copy parsed"))
    # 8. copy over a sub-grammar (one terminal alternative dropped), interleaved with the original
    if thorough or hist["stateful_sequences"] % 2 == 1:
        import copy as _copy
        other = _copy.deepcopy(grammar)
        ks = [k for k in other if len(other[k]) >= 2 and "<" not in other[k][-1] and other[k][-1] != ""]
        if ks:
            k = ks[-1]
            dropped = other[k].pop()
            with_d = [x for x in dict.fromkeys(pool) if dropped in x] or [v1]
            x = rng.choice(with_d)
            saved_nt = nt
            d2 = derived(S0, "less" + str(abs(hash(k)) % 97), grammar=Some(other))
            if d2:
                bundle(*d2, x, None, seq=tag(f"copy(grammar without {k} ::= {dropped!r}).bundle"), lenient=True)
                bundle(S0, grammar, cg, G, x, None, seq=tag("original.bundle after sub-grammar copy"))
                if thorough:
                    bundle(*d2, v1, None, seq=tag("sub-grammar copy.bundle again"), lenient=True)


def run(run):
    rng = random.Random(run.seed)
    thorough = run.tier == "thorough"
    run.cov["rule"] = (
        "4 grammars (epsilon alternatives, recursion, one ambiguous) x 26 constraints (quantifiers, match "
        "expressions, structural/semantic predicates, SMT atoms, constraints without tree constant); inputs = "
        "fuzzer-generated valid strings, single-character edits of them (mostly outside the language), and the "
        "fuzzed TREES themselves (epsilon child shape differs from the parser's). Each input goes through "
        "ISLaSolver.check(str), check(tree), parse (default / skip_check / sub-nonterminal), and a subset through "
        "repair and mutate with recorded component traces. non-trivial = the input parses but violates the constraint")
    proof_ok = run.proof_stage()
    findings = {e["key"]: e for e in lib.known_findings("C18") if e.get("status") == "open"}
    disagreements, prop_fail = [], []
    hist = {"valid": 0, "syntactically_invalid": 0, "semantically_invalid": 0, "unknown_or_raise": 0,
            "repair_calls": 0, "repair_some": 0, "repair_nothing": 0, "repair_raise": 0, "repair_hang": 0,
            "mutate_calls": 0, "mutate_ok": 0, "mutate_raise": 0, "mutate_hang": 0,
            "tree_vs_string_pairs": 0, "eps_shape_differs": 0}

    safe_defect, notop_defect, probe = defect_probes()
    run.cov["safe_api_defect_present"] = safe_defect
    run.cov["no_top_constant_defect_present"] = notop_defect
    if safe_defect and "safe-api" in findings:
        run.known(findings["safe-api"]["what"])
    elif safe_defect:
        prop_fail.append({"clause": "repair raises TypeError (returns.safe call form)", "witness":
                          {"grammar": "digits", "constraint": 'forall <d> d in start: d = "1"', "input": "x12"}})
    if notop_defect and "repair-no-constant" in findings:
        run.known(findings["repair-no-constant"]["what"])
    elif notop_defect:
        prop_fail.append({"clause": "repair returns an input violating the constraint", "witness":
                          {"grammar": "digits", "constraint": "false", "input": "x12"}})
    # model switches: a finding that is not `open` (fixed / never recorded) FORCES the repaired model,
    # so a regression shows up as a disagreement / clause failure; only an open finding may switch the
    # model to the defective behaviour observed on its witness
    SOK = g_bool(not (safe_defect and "safe-api" in findings))
    FX = g_bool(not (notop_defect and "repair-no-constant" in findings))
    run.cov["model_switches"] = {"safe_ok": SOK, "fix_notop": FX}

    n_inputs = 40 if thorough else 10
    n_repair = 12 if thorough else 2
    n_mutate = 4 if thorough else 1
    fix_to = 0.4
    cases_a, meta_a = [], []          # check / parse
    shards_b, meta_b = [], []         # repair / mutate (one shard per call: own tables)
    cases_c, meta_c = [], []          # returned trees: wf_treeb / closed / eqv
    solvers = 0
    gdefs = {}
    t_budget = time.time() + (900 if thorough else 50)
    t_seq_budget = time.time() + (1200 if thorough else 100)
    cases_d, meta_d = [], []          # check(tree) on trees derived by replace_path (ids kept), one solver, in sequence

    for gname, gsrc, unamb, constraints in FAMILY:
        for phi in constraints:
            try:
                solver = ISLaSolver(gsrc, phi)
            except Exception as e:
                disagreements.append({"kind": "constraint of the fixed family no longer constructs", "grammar": gname,
                                      "constraint": phi, "error": repr(e)[:200]})
                continue
            solvers += 1
            grammar = solver.grammar
            cg = canonical(grammar)
            gdefs.setdefault(gname, f"Definition GR_{gname} : grammar := {g_grammar(cg)}.\n")
            G = f"GR_{gname}"
            has_top = solver.top_constant.value_or(None) is not None
            random.seed(rng.randrange(1 << 30))
            fuzzer = GrammarFuzzer(grammar, max_nonterminals=6)
            inputs = []
            for _ in range(n_inputs):
                t = fuzzer.fuzz_tree()
                s = str(t)
                if len(s) > 9:
                    continue
                inputs.append((s, t))
                if rng.random() < 0.6 and s:
                    i = rng.randrange(len(s)); c = rng.choice(ALPHABET[gname])
                    s2 = rng.choice([s[:i] + c + s[i + 1:], s[:i] + s[i + 1:], s[:i] + c + s[i:]])
                    inputs.append((s2, None))
            left = {"rep": n_repair, "mut": (n_mutate if thorough or solvers % 2 == 1 else 0)}

            def bundle(solver, grammar, cg, G, s, ft, seq="", rm_force=None, keep_tree=None, lenient=False):
                key = (gname, phi, s, seq)
                P = first_parse(grammar, s)
                E = eval_obs(solver, P) if P is not None else None
                member = in_lang(cg, "<start>", s)
                kind = ("syntactically_invalid" if P is None else "valid" if E == ("ok", "TT") else
                        "semantically_invalid" if E == ("ok", "FF") else "unknown_or_raise")
                hist[kind] += 1
                run.count(key, kind == "semantically_invalid")

                # ---- API outcomes ----
                def api(f, conv):
                    r = guarded(f, 20)
                    if r[0] == "ok":
                        return ("ok", conv(r[1]), r[1])
                    if r[0] == "hang":
                        return ("hang", None, None)
                    return ("raise", xname(r[1]), r[1])
                o_check = api(lambda: solver.check(s), g_bool)
                o_parse = api(lambda: solver.parse(s, silent=True), g_tree)
                o_skip = api(lambda: solver.parse(s, skip_check=True, silent=True), g_tree)
                outs = [("check_str", o_check), ("parse", o_parse), ("parse_skip", o_skip)]
                o_ctree = None
                if P is not None:
                    o_ctree = api(lambda: solver.check(P), g_bool)
                    outs.append(("check_tree", o_ctree))
                for nm, o in outs:
                    if lenient and E is not None and E[0] == "raise":
                        hist["derived_solver_evaluator_raises"] = hist.get("derived_solver_evaluator_raises", 0) + 1
                        return
                    if o[0] == "hang" or (o[0] == "raise" and o[1] is None):
                        prop_fail.append({"clause": f"{nm} raised an undocumented exception / hung", "witness":
                                          {"grammar": gname, "constraint": phi, "input": s, "outcome": repr(o[2])[:200]}})
                if any(o[0] == "hang" or (o[0] == "raise" and o[1] is None) for _, o in outs):
                    return

                def lit(o):
                    return f"(Ok {o[1]})" if o[0] == "ok" else f"(Raise {o[1]})"
                # parse of a sub-string from a sub-nonterminal (never checked semantically)
                Pn, o_nt = None, ("raise", "SyntaxErr", None)
                if P is not None:
                    subs = [t for _, t in P.paths() if t.value != "<start>" and t.children is not None
                            and t.value.startswith("<")]
                    if subs:
                        st = rng.choice(subs)
                        ss = str(st) if rng.random() < 0.8 else str(st) + rng.choice(ALPHABET[gname])
                        Pn = first_parse(grammar, ss, st.value)
                        o_nt = api(lambda: solver.parse(ss, nonterminal=st.value, silent=True), g_tree)
                        if o_nt[0] == "hang" or (o_nt[0] == "raise" and o_nt[1] is None):
                            prop_fail.append({"clause": "parse(nonterminal=..) raised an undocumented exception / hung", "witness":
                                              {"grammar": gname, "constraint": phi, "input": ss, "nonterminal": st.value}})
                            return
                        if (Pn is None) != (not in_lang(cg, st.value, ss)):
                            prop_fail.append({"clause": "parser accepts exactly the language (premise C10)",
                                              "witness": {"grammar": gname, "constraint": phi, "input": ss, "nonterminal": st.value}})
                def topt(t):
                    return "(@None tree)" if t is None else f"(Some {g_tree(t)})"

                def tlit(o, ty):          # explicitly typed: a shard may hold only None / only Raise
                    return f"(@Ok {ty} {o[1]})" if o[0] == "ok" else f"(@Raise {ty} {o[1]})"
                El = tlit(E, "tv") if E else "(@Raise tv NotImpl)"
                cases_a.append(f"({topt(P)}, {El}, {tlit(o_check, 'bool')}, {tlit(o_parse, 'tree')}, {tlit(o_skip, 'tree')}, "
                               f"{tlit(o_ctree, 'bool') if o_ctree else '(@Raise bool NotImpl)'}, {topt(Pn)}, {tlit(o_nt, 'tree')})")
                meta_a.append({"grammar": gname, "constraint": phi, "input": s, "parser": None if P is None else str(P),
                               "evaluate": E, "check": o_check[:2], "parse": (o_parse[0], o_parse[1] if o_parse[0] == "raise" else "tree"),
                               "kind": kind})
                if len(run.cov["samples"]) < 4 and kind == "semantically_invalid":
                    run.sample(meta_a[-1])

                # ---- the property clauses, directly on the implementation (spec-side oracles:
                #      in_lang for membership, evaluate for the constraint, wf_treeb below) ----
                w = {"grammar": gname, "constraint": phi, "input": s}
                if seq:
                    w["sequence_on_one_solver"] = seq
                if (P is None) != (not member):
                    prop_fail.append({"clause": "parser accepts exactly the language (premise C10)", "witness": w})
                exp_check = member and E == ("ok", "TT")
                if E is None or E[0] == "ok" and E[1] != "UU":
                    if o_check[:2] != ("ok", g_bool(exp_check)):
                        prop_fail.append({"clause": "check(str) is true exactly when the string parses and the tree satisfies the constraint",
                                          "witness": w, "impl": repr(o_check[:2])})
                    exp_parse = "SyntaxErr" if not member else ("SemanticErr" if E[1] == "FF" else None)
                    got = o_parse[1] if o_parse[0] == "raise" else None
                    if got != exp_parse:
                        prop_fail.append({"clause": "parse raises SyntaxError outside the grammar, SemanticError on violation",
                                          "witness": w, "impl": repr(o_parse[:2])[:200], "expected": exp_parse})
                if o_parse[0] == "ok":
                    cases_c.append(f"({G}, {o_parse[1]}, {g_str(s)}, @None tree)")
                    meta_c.append(dict(w, what="tree returned by parse"))
                # tree vs string (fuzzed tree has ("", []) epsilon children)
                if ft is not None and P is not None:
                    hist["tree_vs_string_pairs"] += 1
                    hist["eps_shape_differs"] += int(not ft.structurally_equal(P))
                    o_ft = api(lambda: solver.check(ft), g_bool)
                    if unamb:
                        cases_c.append(f"({G}, {g_tree(ft)}, {g_str(s)}, Some {g_tree(P)})")
                        meta_c.append(dict(w, what="fuzzed tree vs parse of its string (eqv)"))
                        if o_ft[:2] != (o_ctree[:2] if o_ctree else None) or (
                                o_check[0] == "ok" and o_ft[0] == "ok" and o_ft[1] != o_check[1]):
                            prop_fail.append({"clause": "check gives the same answer on a tree as on its string (unambiguous grammar)",
                                              "witness": dict(w, tree=str(ft)), "on_tree": repr(o_ft[:2]), "on_string": repr(o_check[:2])})

                # ---- repair / mutate with component traces ----
                if P is not None and time.time() < t_budget and (rm_force or (not seq and (
                        (left["rep"] > 0 and (kind != "valid" or rng.random() < 0.3)) or left["mut"] > 0))):
                    do_mut = (rm_force == "mutate") if rm_force else (left["mut"] > 0 and (left["rep"] <= 0 or rng.random() < 0.3))
                    inp_tree = keep_tree if keep_tree is not None else first_parse(grammar, s)
                    with Trace(solver) as tr:
                        if do_mut:
                            left["mut"] -= 1; hist["mutate_calls"] += 1
                            random.seed(rng.randrange(1 << 30))
                            r = guarded(lambda: solver.mutate(inp_tree, 1, 3, fix_to), 12 if thorough else 6)
                        else:
                            left["rep"] -= 1; hist["repair_calls"] += 1
                            random.seed(rng.randrange(1 << 30))
                            r = guarded(lambda: solver.repair(inp_tree, fix_to), 12 if thorough else 6)
                    what = "mutate" if do_mut else "repair"
                    if r[0] == "hang":
                        hist[what + "_hang"] += 1      # non-termination / long search: not an outcome to compare
                        return
                    if r[0] == "raise" and xname(r[1]) is None:
                        prop_fail.append({"clause": f"{what} raised an undocumented exception", "witness": w, "impl": repr(r[1])[:200]})
                        return
                    repaired = [inp_tree] if not do_mut else [m[1] for m in tr.mut if m[0] == "ok"]
                    ev, ab, sb, sm, mu = tr.tables(repaired)
                    HT = g_bool(has_top)
                    kx = len(meta_b)
                    if do_mut:
                        if r[0] == "ok":
                            hist["mutate_ok"] += 1; obs = f"(Some (Ok {g_tree(r[1])}))"; rt = r[1]
                        else:
                            hist["mutate_raise"] += 1; obs = f"(Some (Raise {xname(r[1])}))"; rt = None
                        case = (f"(match run_mutate {HT} {SOK} {FX} EV{kx} AB{kx} SB{kx} SM{kx} MU{kx} INP{kx}, {obs} with "
                                "| Some a, Some b => res_eqb tree_eqb a b | _, _ => false end)")
                    else:
                        if r[0] == "ok":
                            v = r[1].value_or(None)
                            hist["repair_some" if v is not None else "repair_nothing"] += 1
                            obs = f"(Ok {g_option(v, g_tree)})"; rt = v
                        else:
                            hist["repair_raise"] += 1; obs = f"(Raise {xname(r[1])})"; rt = None
                        case = f"(ropt_eqb (run_repair {HT} {SOK} {FX} EV{kx} AB{kx} SB{kx} SM{kx} INP{kx}) {obs})"
                    defs = (f"Definition EV{kx} : list (tree * res tv) := {ev}.\n"
                            f"Definition AB{kx} : list (tree * list tree) := {ab}.\n"
                            f"Definition SB{kx} : list (tree * res tree) := {sb}.\n"
                            f"Definition SM{kx} : list (tree * bool) := {sm}.\n"
                            f"Definition MU{kx} : list (res tree) := {mu}.\nDefinition INP{kx} := {g_tree(inp_tree)}.\n")
                    if kx % 6 == 0:
                        shards_b.append((MODEL_DEFS, []))
                    shards_b[-1] = (shards_b[-1][0] + defs, shards_b[-1][1] + [case])
                    meta_b.append(dict(w, call=what, impl=obs[:300], n_eval=len(tr.ev), n_abstractions=sum(len(x[1]) for x in tr.abs),
                                       n_subsolve=len(tr.sub), n_mutants=len(tr.mut)))
                    run.count((what,) + key, kind == "semantically_invalid")
                    # property clauses on the result
                    if what == "repair" and kind == "valid" and not (r[0] == "ok" and r[1].value_or(None) is inp_tree):
                        prop_fail.append({"clause": "repair returns an already valid input unchanged", "witness": w, "impl": obs[:200]})
                    if rt is not None:
                        cases_c.append(f"({G}, {g_tree(rt)}, {g_str(str(rt))}, @None tree)")
                        meta_c.append(dict(w, what=f"tree returned by {what}"))
                        e2 = eval_obs(solver, rt)
                        if e2 != ("ok", "TT"):
                            cls_known = (not has_top) and notop_defect and "repair-no-constant" in findings
                            if cls_known:
                                run.known(findings["repair-no-constant"]["what"])
                            else:
                                prop_fail.append({"clause": f"{what} returns only inputs satisfying the constraint",
                                                  "witness": w, "returned": str(rt), "evaluate": e2})
                    if r[0] == "raise" and isinstance(r[1], TypeError) and "safe()" in str(r[1]):
                        if "safe-api" in findings:
                            run.known(findings["safe-api"]["what"])
                        else:
                            prop_fail.append({"clause": f"{what} raises TypeError (returns.safe call form)", "witness": w})
                    elif r[0] == "raise":
                        # e.g. a RuntimeError of the sub-solver escaping do_complete: component behaviour
                        # (C01/C02); the model propagates it, so the correspondence below still checks it
                        hist["raise_kinds"] = hist.get("raise_kinds", {})
                        hist["raise_kinds"][type(r[1]).__name__] = hist["raise_kinds"].get(type(r[1]).__name__, 0) + 1


            for s, ft in inputs:
                bundle(solver, grammar, cg, G, s, ft)
            if time.time() < t_seq_budget and (thorough or solvers % 2 == 0):
                stateful_sequence(run, rng, hist, prop_fail, cases_d, meta_d, gdefs, bundle, solver, gname, gsrc, phi, unamb,
                                  [x for x, _ in inputs], thorough)

    run.cov.update(hist)
    run.cov["solvers"] = solvers
    run.cov["api_cases"] = len(cases_a)
    if solvers < 20 or len(cases_a) < 100:
        run.violation({"kind": "correspondence-not-evaluable", "obligation": "C18 generators produced too few cases",
                       "solvers": solvers, "cases": len(cases_a)}, found_input=False)

    # ---- evaluate the model in Coq ----
    NT = "[60;97;62]%N"
    ok_a = ("fun c : option tree * res tv * res bool * res tree * res tree * res bool * option tree * res tree => "
            "let '(P, E, oc, op, os, ot, Pn, on) := c in "
            f"let fp := fun (nt _ : str) => if str_eqb nt START then P else Pn in let ev := fun _ : tree => E in "
            "res_eqb Bool.eqb (check_str fp ev START) oc && res_eqb struct_eqb (parse_api fp ev START START false) op "
            "&& res_eqb struct_eqb (parse_api fp ev START START true) os && "
            f"res_eqb struct_eqb (parse_api fp ev START {NT} false) on && "
            "match P with Some t => res_eqb Bool.eqb (check_tree ev t) ot | None => true end")
    import concurrent.futures as _cf
    _ex = _cf.ThreadPoolExecutor(max_workers=4)
    ok_c = ("fun c : grammar * tree * str * option tree => let '(g, t, s, p) := c in "
            "wf_treeb g t && closedb t && str_eqb (yield t) s && str_eqb (lbl t) START && "
            "match p with Some u => eqvb t u | None => true end")
    fut_a = _ex.submit(lib.coq_mismatches, "c18a", "Api", ok_a, cases_a, 60)
    fut_b = _ex.submit(lib.coq_run_shards, "c18b", "Api", "fun b : bool => b", shards_b)
    ok_d = ("fun c : res tv * res bool => res_eqb Bool.eqb (check_tree (fun _ => fst c) (Node [] 0%N false [])) (snd c)")
    fut_d = _ex.submit(lib.coq_mismatches, "c18d", "Api", ok_d, cases_d, 400)
    fut_c = _ex.submit(lib.coq_mismatches, "c18c", "Api", ok_c, cases_c, 80, "".join(gdefs.values()))
    try:
        bad, dt = fut_a.result()
        run.cov["coq_seconds_api"] = round(dt, 1)
        for i in bad:
            disagreements.append(dict(meta_a[i], kind="model != implementation (check/parse)"))
    except RuntimeError as e:
        run.violation({"kind": "correspondence-not-evaluable", "obligation": "Api.v check/parse cases", "error": str(e)[-1500:]},
                      found_input=False)
    try:
        bad, dt = fut_b.result()
        run.cov["coq_seconds_repair_mutate"] = round(dt, 1)
        for k, i in bad:
            disagreements.append(dict(meta_b[6 * k + i], kind="model != implementation (repair/mutate trace)"))
    except RuntimeError as e:
        run.violation({"kind": "correspondence-not-evaluable", "obligation": "Api.v repair/mutate cases", "error": str(e)[-1500:]},
                      found_input=False)
    ok_c = ("fun c : grammar * tree * str * option tree => let '(g, t, s, p) := c in "
            "wf_treeb g t && closedb t && str_eqb (yield t) s && str_eqb (lbl t) START && "
            "match p with Some u => eqvb t u | None => true end")
    try:
        bad, dt = fut_c.result()
        run.cov["returned_trees_validated"] = len(cases_c)
        for i in bad:
            prop_fail.append({"clause": "returned / compared tree is a valid closed derivation of its string "
                                        "(and equals the parse of its string up to ids and epsilon shape)", "witness": meta_c[i]})
    except RuntimeError as e:
        run.violation({"kind": "correspondence-not-evaluable", "obligation": "wf_treeb on returned trees", "error": str(e)[-1500:]},
                      found_input=False)

    try:
        bad, dt = fut_d.result()
        run.cov["derived_tree_cases"] = len(cases_d)
        for i in bad:
            disagreements.append(dict(meta_d[i], kind="model != implementation (check on a tree derived with kept ids, one solver)"))
    except RuntimeError as e:
        run.violation({"kind": "correspondence-not-evaluable", "obligation": "Api.v check_tree on derived trees", "error": str(e)[-1500:]},
                      found_input=False)

    # ---- classify ----
    run.cov["disagreements_checked"] = len(disagreements) + len(prop_fail)
    if prop_fail:
        prop_fail.sort(key=lambda d: len(json.dumps(d, default=str)))
        run.violation({"kind": "implementation violates a clause of C18", "failing": prop_fail[0], "all_failing": len(prop_fail),
                       "others": prop_fail[1:6], "witness": prop_fail[0]["witness"],
                       "how_to_replay": "./check C18 --replay <this file>"})
    elif disagreements:
        run.violation({"kind": "correspondence broken, property clauses hold on all searched inputs", "first": disagreements[0],
                       "count": len(disagreements), "obligation": "correspondence Solver/Api.v <-> isla.solver.ISLaSolver.check/parse/repair/mutate"},
                      found_input=False)
    if not proof_ok:
        run.violation({"kind": "proof obligation failed", "problems": run.proof_problems, "obligation": "Props/C18.v"},
                      found_input=False)
    run.cov["trusted_base"] = lib.TRUSTED_BASE_COMMON + [
        "premises of the exported theorems (Section hypotheses): parser sound+complete (C10), evaluator definite and "
        "equal to the specification semantics on closed trees (C03), sub-solver results valid (C01), mutants valid (C12), "
        "sat invariant under node ids and epsilon-child shape",
        "component observations (evaluate, generate_abstracted_trees, sub-solver solve, Mutator.mutate) recorded by wrappers "
        "installed by the harness at run time; sem_false is inferred from the absence of an abstraction request",
        "independent span-fixpoint recogniser in harness/c18.py as membership oracle"]


def replay(path):
    d = json.load(open(path))
    w = d.get("witness")
    if not w:
        print("replay file names an obligation, not an input:", d.get("obligation")); return 1
    gsrc = next(g[1] for g in FAMILY if g[0] == w["grammar"])
    s = ISLaSolver(gsrc, w["constraint"])
    P = first_parse(s.grammar, w["input"])
    print("parser:", None if P is None else str(P), "evaluate:", eval_obs(s, P) if P else None)
    for nm, f in [("check", lambda: s.check(w["input"])), ("parse", lambda: str(s.parse(w["input"], silent=True))),
                  ("repair", lambda: s.repair(w["input"], 0.5).map(str))]:
        r = guarded(f, 20)
        print(nm, "->", r[0], repr(r[1])[:200] if len(r) > 1 else "")
    print("clause:", d.get("failing", {}).get("clause"))
    return 1
