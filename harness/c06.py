"""C06 — three-valued verdicts of evaluate() on partial (open) trees never contradict a completion.

Per generated triple (grammar, closed tree t', formula) and an open prefix t of t' (1-4 random
nonterminal subtrees of t' cut to open leaves, node ids KEPT):
  impl   : evaluate(formula, t, grammar) and evaluate(formula, t', grammar)  (same formula object)
  model  : m3_evaluate (coq/Logic/Eval3.v instantiating coq/Logic/Eval.v) on both, inside Coq
  property itself, on the implementation: a definite verdict on t must equal the verdict on t'.
Additionally the two functions that decide UNKNOWN are tied directly:
  quantified_formula_might_match (incl. already_matched sets, match expressions) <-> qmm3,
  GrammarGraph.reachable <-> reachb on all pairs of nonterminals, reach_closedb g (premise of the
  reachability theorem) evaluated for every grammar.
A definite-verdict flip that belongs to an open known-finding class (K_selfrec_open, K_nth_open,
K_count_insert, K_cons_rel_open;
the class predicates are evaluated in Coq and compared with their Python mirrors) prints
KNOWN-FINDING; any other flip is a VIOLATION."""
import base64
import json
import pickle
import random
import signal
import sys
import time

import lib
from lib import g_str, g_path, g_bool, g_tree, g_list, g_N, g_grammar
from gen_trees import tree_json, tree_from_json
import c03
from c03 import (build, g_formula, g_var, g_mexpr, impl_evaluate, g_out_tv, gen_formula, rand_derivation,
                 min_depths, has_mexpr, Unencodable, START, SP)

from isla import language as L
from isla.derivation_tree import DerivationTree as T
from isla.evaluator import evaluate, quantified_formula_might_match
from isla.helpers import canonical, is_nonterminal
from isla.parser import EarleyParser
from grammar_graph import gg

G_REC = {"<start>": ["<a>"], "<a>": ["x<a>", "y", "(<b>)"], "<b>": ["<a>", "<a>;<b>"]}
GRAMMARS = dict(c03.GRAMMARS)
del GRAMMARS["wide"]
GRAMMARS["rec"] = G_REC
HAS_MEXPRS = set(c03.MEXPRS)


def prune(t, cuts, path=()):
    """open prefix of t: the subtrees at `cuts` become open leaves; every node keeps its id"""
    if path in cuts:
        return T(t.value, None, id=t.id)
    return T(t.value, None if t.children is None else
             [prune(c, cuts, path + (i,)) for i, c in enumerate(t.children)], id=t.id)


def nt_paths(t):
    return [p for p, s in t.paths() if is_nonterminal(s.value) and p]


def rand_cuts(rng, t):
    cand = nt_paths(t)
    cuts = set()
    for p in rng.sample(cand, min(len(cand), rng.randint(1, 4))):
        if not any(p[:len(q)] == q or q[:len(p)] == p for q in cuts):
            cuts.add(p)
    return cuts


# --------------------------------------------------------------------------
# Python mirrors of the Coq class predicates (checked against Coq on every case)
# --------------------------------------------------------------------------
def quantifier_types(f):
    out = []

    class V(L.FormulaVisitor):
        def visit_exists_formula(self, x):
            out.append(x.bound_variable.n_type)

        def visit_forall_formula(self, x):
            out.append(x.bound_variable.n_type)
    f.accept(V())
    return out


def pred_names(f):
    out = []

    class V(L.FormulaVisitor):
        def visit_predicate_formula(self, x):
            out.append(x.predicate.name)
    f.accept(V())
    return out


def py_kselfrec(graph, t, f):
    qt = set(quantifier_types(f))
    return any(s.value in qt and graph.reachable(s.value, s.value) for _, s in t.open_leaves())


def py_knth(t, f):
    return "nth" in pred_names(f) and t.is_open()


def py_cons_unsafe(t):
    """mirror of Eval3Preds.cons_unsafe: an open leaf at o = c ++ q (c, q non-empty), the node at c has
    at least two children, q and c prefix-comparable as lists"""
    def pre(a, b):
        return b[:len(a)] == a
    for o, _ in t.open_leaves():
        for k in range(1, len(o)):
            c, q = o[:k], o[k:]
            if len(t.get_subtree(c).children or ()) > 1 and (pre(q, c) or pre(c, q)):
                return True
    return False


def py_kconsopen(t, f):
    """mirror of Eval3Stable2.K_cons_rel_open (checked against Coq on every case)"""
    return "consecutive" in pred_names(f) and py_cons_unsafe(t)


def start_only_atom(ast):
    """an SMT atom whose only variable is the constant: evaluate() decides it while instantiating and
    the `&`/`|` smart constructors then simplify the formula (not modelled in Eval.v, see C03)"""
    k = ast[0]
    if k == "streq":
        vs = [x[1][0] for x in (ast[2], ast[3]) if x[0] == "var"]
        return all(v == "start" for v in vs)
    if k == "len":
        return ast[2][0] != "var" or ast[2][1][0] == "start"
    if k == "not":
        return start_only_atom(ast[1])
    if k in ("and", "or"):
        return any(start_only_atom(x) for x in ast[1])
    if k in ("forall", "exists"):
        return start_only_atom(ast[4])
    return False


def count_atoms(f):
    out = []

    class V(L.FormulaVisitor):
        def visit_semantic_predicate_formula(self, x):
            if x.predicate.name == "count" and len(x.args) == 3 and isinstance(x.args[1], str) \
                    and isinstance(x.args[2], str):
                out.append(x.args)
    f.accept(V())
    return out


def py_kcount(graph, t, f):
    """mirror of Eval3.K_count_insert (checked against Coq on every case)"""
    for x, needle, num in count_atoms(f):
        try:
            k = int(num)
        except ValueError:
            continue
        if not any(graph.reachable(s.value, needle) for _, s in t.open_leaves()):
            continue
        if isinstance(x, L.Constant):
            if len(t.filter(lambda n: n.value == needle)) < k:
                return True
        elif k >= 1:
            return True
    return False


class EvalTimeout(BaseException):
    pass


def _alarm(*_):
    raise EvalTimeout()


def impl_evaluate_t(fobj, t, g, seconds=4):
    """evaluate() with a wall-clock limit (count's tree-insertion search does not always terminate
    quickly); ('timeout', None) when the limit is hit"""
    old = signal.signal(signal.SIGALRM, _alarm)
    signal.alarm(seconds)
    try:
        return impl_evaluate(fobj, t, g)
    except EvalTimeout:
        return ("timeout", None)
    finally:
        signal.alarm(0)
        signal.signal(signal.SIGALRM, old)


def tree_arg_formulas(rng, g, tp):
    """formulas with instantiated tree arguments (subtrees of the closed tree t')"""
    nts = [k for k in g if k != "<start>"]
    nodes = [(p, s) for p, s in tp.paths() if is_nonterminal(s.value)]
    out = []
    for _ in range(4):
        ty = rng.choice(nts)
        _, arg = rng.choice(nodes)
        pred = rng.choice(c03.PRED2)
        v = ("v", ty)
        args = [("var", v), ("tree", arg)] if rng.random() < 0.5 else [("tree", arg), ("var", v)]
        body = ("sp", pred, args)
        if rng.random() < 0.4:
            body = ("not", body)
        out.append((rng.choice(["forall", "exists"]), v, ("start", "<start>"), None, body))
    # a quantifier over an instantiated tree, and nth with a tree argument
    _, arg = rng.choice(nodes)
    ty = rng.choice(nts)
    out.append(("tree_in", rng.choice(["forall", "exists"]), ("w", ty), arg,
                ("sp", rng.choice(c03.PRED2), [("var", ("w", ty)), ("tree", arg)])))
    return out


def same_type_cuts(rng, t):
    """2-4 open leaves of ONE nonterminal, in different subtrees (none below another)"""
    by = {}
    for p, s in t.paths():
        if is_nonterminal(s.value) and p:
            by.setdefault(s.value, []).append(p)
    cands = [ty for ty, ps in by.items() if len(ps) >= 2]
    rng.shuffle(cands)
    for ty in cands:
        ps = by[ty][:]
        rng.shuffle(ps)
        cuts, want = set(), rng.randint(2, 4)
        for p in ps:
            if len(cuts) < want and not any(p[:len(q)] == q or q[:len(p)] == p for q in cuts):
                cuts.add(p)
        if len(cuts) >= 2:
            return cuts
    return rand_cuts(rng, t)


def nested_formulas(rng, g, graph, tp, cuts=(), n=6):
    """Q1 <A> a in start: Q2 <B> v in a: body  with B reachable from A: the might-match test of the
    inner quantifier must look at every open leaf below the current `a` only"""
    nts = [k for k in g if k != "<start>"]
    pairs = [(a, b) for a in nts for b in nts if a != b and graph.reachable(a, b)]
    subs = {}
    for _, s in tp.paths():
        if is_nonterminal(s.value):
            subs.setdefault(s.value, []).append(str(s))
    cut_subs = {}       # strings that only exist in the completion (inside the cut subtrees)
    for c in cuts:
        for _, s in tp.get_subtree(c).paths():
            if is_nonterminal(s.value):
                cut_subs.setdefault(s.value, []).append(str(s))
    out = []
    for i in range(n):
        if not pairs:
            break
        a_ty, b_ty = rng.choice(pairs)
        a, v = ("na%d" % i, a_ty), ("nv%d" % i, b_ty)
        r = rng.random()
        if r < 0.55:
            if cut_subs.get(b_ty) and rng.random() < 0.5:
                lit = rng.choice(cut_subs[b_ty])
            elif subs.get(b_ty) and rng.random() < 0.8:
                lit = rng.choice(subs[b_ty])
            else:
                lit = rng.choice(c03.LITS)
            body = ("streq", rng.random() < 0.25, ("var", v), ("lit", lit))
        elif r < 0.75:
            body = ("len", rng.choice(c03.CMPS), ("var", v), rng.randint(0, 4))
        else:
            body = ("sp", rng.choice(c03.PRED2), [("var", v), ("var", a)] if rng.random() < 0.5
                    else [("var", a), ("var", v)])
        if rng.random() < 0.2:
            body = ("not", body)
        inner = (rng.choice(["forall", "exists"]), v, a, None, body)
        if rng.random() < 0.2:
            inner = ("not", inner)
        out.append((rng.choice(["forall", "exists"]), a, ("start", "<start>"), None, inner))
    return out


def count_formulas(rng, g, graph, t, n=6):
    """count atoms, plain and negated, preferably with a RECURSIVE needle that also labels an open
    leaf of t; target = current number of needles, one less, one more"""
    nts = [k for k in g if k != "<start>"]
    rec = [k for k in nts if graph.reachable(k, k)]
    open_labels = {s.value for _, s in t.open_leaves()}
    pref = [k for k in rec if k in open_labels]
    out = []
    for i in range(n):
        needle = rng.choice(pref) if pref and rng.random() < 0.6 else rng.choice(rec or nts) \
            if rng.random() < 0.7 else rng.choice(nts)
        if rng.random() < 0.75:
            cur = len(t.filter(lambda x: x.value == needle))
            more = any(graph.reachable(s.value, needle) for _, s in t.open_leaves())
            delta = rng.choice([-1, 0, 0] if more else [-1, 0, 0, 1])   # +1 with `more` = insertion search
            body = ("count", ("start", "<start>"), needle, str(max(0, cur + delta)))
            if rng.random() < 0.5:
                body = ("not", body)
            out.append(body)
        else:
            a = ("ca%d" % i, rng.choice(nts))
            body = ("count", a, needle, str(rng.randint(0, 3)))
            if rng.random() < 0.5:
                body = ("not", body)
            out.append((rng.choice(["forall", "exists"]), a, ("start", "<start>"), None, body))
    return out


def build3(ast):
    if ast[0] == "tree_in":
        _, kind, bv, tree, body = ast
        cls = L.ForallFormula if kind == "forall" else L.ExistsFormula
        return cls(L.BoundVariable(*bv), tree, build(body))
    return build(ast)


# --------------------------------------------------------------------------
# known findings
# --------------------------------------------------------------------------
def known_entries():
    """known_findings.json is GENERATED from harness/meta/C06.findings.json; entries of the source
    file that the generated file does not have yet (not regenerated) are taken from the source"""
    import os
    es = list(lib.known_findings("C06") or [])
    p = os.path.join(lib.VERIF, "harness", "meta", "C06.findings.json")
    if os.path.exists(p):
        have = {e.get("key") for e in es}
        es += [e for e in json.load(open(p)) if e.get("key") not in have]
    return es


def witness_outcome(w):
    g = w["grammar"]
    tp = T.from_parse_tree(next(EarleyParser(g).parse(w["input"])))
    t = prune(tp, {tuple(p) for p in w["cuts"]})
    return impl_evaluate(w["formula"], t, g), impl_evaluate(w["formula"], tp, g)


def is_flip(r, rp):
    """the PROPERTY at one pair: definite verdict on the open tree, different verdict on the completion"""
    return r[0] == "ok" and r[1] in ("TT", "FF") and rp[0] == "ok" and rp[1] != r[1]


def replay_known(run):
    for e in known_entries():
        if e.get("status") != "open":
            continue
        try:
            r, rp = witness_outcome(e["witness"])
        except Exception as ex:
            print(f"[C06] note: witness of {e['key']} could not be replayed: {ex!r}", file=sys.stderr)
            continue
        if is_flip(r, rp):
            run.known(e["what"])


IMPORTS = "Eval3 Eval3Preds Eval3Stable2"
CST_DEF = f"Definition CST := {g_var(START)}.\n"
OK_DEF = ("fun c : nat * formula atom * res TV * res TV * bool * bool * bool * bool => "
          "let '(k, f, ev, ev', ks, kn, kc, kco) := c in let '(G, T, T') := nth k ENV ([], DUMMY, DUMMY) in "
          "let skip := fun r : res TV => match r with Raise NotImpl => true | _ => false end in "
          "let m := m3_evaluate G T CST (lift3 f) in let m' := m3_evaluate G T' CST (lift3 f) in "
          "(skip m || res_eqb tv_eqb m ev) && (skip m' || res_eqb tv_eqb m' ev') "
          "&& Bool.eqb (m3_kselfrec G T (lift3 f)) ks && Bool.eqb (m3_knth T (lift3 f)) kn "
          "&& Bool.eqb (m3_kcount G T (lift3 f)) kc && Bool.eqb (K_cons_rel_open atom3 T (lift3 f)) kco")
# direct tie of quantified_formula_might_match
OK_QMM = ("fun c : nat * var * path * option mexpr * list N * path * bool => "
          "let '(k, v, ip, m, am, leaf, r) := c in let '(G, T, _) := nth k ENV ([], DUMMY, DUMMY) in "
          "Bool.eqb (qmm3 G T am v ip m leaf) r && "
          "negb (match m with Some me => ce_assert_fails T am me leaf | None => false end)")


def run(run):
    rng = random.Random(run.seed)
    thorough = run.tier == "thorough"
    run.cov["rule"] = (
        "pairs (open tree t, closed completion t') x formula: 4 grammars (assignment language, nested blocks "
        "with epsilon, nested lists of numbers, a self-recursive grammar); t' random derivation (fuzzer shape for "
        "epsilon; every 4th re-parsed = parser shape), t = t' with 1-4 random nonterminal subtrees cut to open "
        "leaves keeping all node ids; formulas: the C03 generator (quantifier chains 1-3 with/without match "
        "expressions, not/and/or over all 9 structural predicates, count, string equality, str.len) plus "
        "formulas with instantiated tree arguments (predicate argument / quantifier `in` is a subtree of t'), "
        "6 nested quantifiers `Q <A> a in start: Q <B> v in a: ...` (B reachable from A) and 6 count atoms (plain / "
        "negated, recursive needle that labels an open leaf, target = current count, +-1) per pair; every other "
        "pair has 2-4 open leaves of ONE nonterminal in different subtrees. "
        "Both trees go through isla.evaluator.evaluate with the same formula object and through the Coq model; "
        "the implication (definite verdict on t => same verdict on t') is checked on the implementation. "
        "non-trivial = the verdict on t' is not the same for all trees generated for the grammar, or the "
        "verdict on t is definite while t has an open leaf")
    t_0 = time.time()
    proof_ok = run.proof_stage()
    t_1 = time.time()
    replay_known(run)
    known = {e["class"]: e for e in known_entries() if e.get("status") == "open"}

    n_pairs = 40 if thorough else 8
    n_formulas = 50 if thorough else 12
    envs, all_cs, all_ms, all_qcs, all_qms = [], [], [], [], []
    hist = {"open_TT": 0, "open_FF": 0, "open_UU": 0, "open_raise": 0, "closed_TT": 0, "closed_FF": 0,
            "closed_UU": 0, "closed_raise": 0, "definite_on_open": 0, "with_mexpr": 0, "tree_args": 0,
            "unencodable": 0, "flips": 0, "flips_known": 0, "qmm_calls": 0, "qmm_true": 0, "cuts": 0,
            "pairs_with_repeated_open_type": 0, "evaluate_timeouts": 0, "nested_in_outer_var": 0, "count_atoms": 0}
    flips, timeouts = [], []
    reach_cases, reach_meta = [], []
    verdicts = {}
    for gname, g in GRAMMARS.items():
        cg = canonical(g)
        md = min_depths(cg)
        graph = gg.GrammarGraph.from_grammar(g)
        # reachability tie, all pairs
        for a in g:
            for b in g:
                reach_cases.append(f"({g_grammar(cg)}, {g_str(a)}, {g_str(b)}, {g_bool(graph.reachable(a, b))})")
                reach_meta.append((gname, a, b))
        formulas = []
        counter = [0]
        while len(formulas) < n_formulas:
            ast = gen_formula(rng, gname, g, [("start", "<start>")], rng.randint(1, 3), counter,
                              allow_mexpr=gname in HAS_MEXPRS)
            if start_only_atom(ast):
                continue
            formulas.append(ast)
        compiled = [(fi, ast, build(ast)) for fi, ast in enumerate(formulas)]
        for k in range(n_pairs):
            tp = rand_derivation(rng, cg, md, "<start>", rng.randint(3, 7))
            if len(tp.paths()) > 60:
                tp = rand_derivation(rng, cg, md, "<start>", 4)
            if k % 4 == 3:
                try:
                    tp = T.from_parse_tree(next(EarleyParser(g).parse(str(tp))))
                except Exception:
                    pass
            # every other pair: several open leaves of the SAME nonterminal in different subtrees
            if k % 2 == 1:
                cuts = same_type_cuts(rng, tp)
                for _ in range(6):
                    if len({tp.get_subtree(p).value for p in cuts}) < len(cuts):
                        break
                    tp2 = rand_derivation(rng, cg, md, "<start>", rng.randint(5, 8))
                    if len(tp2.paths()) <= 70:
                        tp = tp2
                        cuts = same_type_cuts(rng, tp)
            else:
                cuts = rand_cuts(rng, tp)
            labels = [tp.get_subtree(p).value for p in cuts]
            hist["pairs_with_repeated_open_type"] += len(set(labels)) < len(labels)
            t = prune(tp, cuts)
            hist["cuts"] += len(cuts)
            env_idx = "@K@"
            envs.append(f"({g_grammar(cg)}, {g_tree(t)}, {g_tree(tp)})")
            cs, ms = [], []
            extra = [(1000 + i, ast, build3(ast)) for i, ast in enumerate(tree_arg_formulas(rng, g, tp))]
            extra += [(2000 + i, ast, build(ast)) for i, ast in enumerate(nested_formulas(rng, g, graph, tp, cuts))]
            extra += [(3000 + i, ast, build(ast)) for i, ast in enumerate(count_formulas(rng, g, graph, t))]
            for (fi, ast, fobj) in compiled + extra:
                r = impl_evaluate_t(fobj, t, g)
                rp = impl_evaluate_t(fobj, tp, g)
                if r[0] == "timeout" or rp[0] == "timeout":
                    hist["evaluate_timeouts"] += 1
                    timeouts.append({"grammar": gname, "open": str(t), "closed": str(tp), "formula": str(fobj)})
                    continue
                ks, kn, kc = py_kselfrec(graph, t, fobj), py_knth(t, fobj), py_kcount(graph, t, fobj)
                kco = py_kconsopen(t, fobj)
                hist["open_" + (r[1] if r[0] == "ok" else "raise")] += 1
                hist["closed_" + (rp[1] if rp[0] == "ok" else "raise")] += 1
                definite = r[0] == "ok" and r[1] != "UU"
                hist["definite_on_open"] += definite
                hist["with_mexpr"] += (fi < 1000 and has_mexpr(ast))
                hist["tree_args"] += 1000 <= fi < 2000
                hist["nested_in_outer_var"] += 2000 <= fi < 3000
                hist["count_atoms"] += fi >= 3000
                key = (gname, fi if fi < 1000 else str(fobj))
                verdicts.setdefault(key, set()).add(rp)
                meta = {"grammar": gname, "tree_open": tree_json(t), "tree_closed": tree_json(tp),
                        "open": str(t), "closed": str(tp), "cuts": sorted(map(list, cuts)),
                        "formula": str(fobj), "verdict_open": r, "verdict_closed": rp,
                        "K_selfrec_open": ks, "K_nth_open": kn, "K_count_insert": kc, "K_cons_rel_open": kco,
                        "key": key, "definite": definite}
                try:
                    meta["ast_pickle"] = base64.b64encode(pickle.dumps(ast)).decode()
                except Exception:
                    meta["ast_pickle"] = None
                if is_flip(r, rp):
                    flips.append(meta)
                try:
                    lit = g_formula(fobj, g)
                    cs.append(f"({env_idx}%nat, {lit}, {g_out_tv(r)}, {g_out_tv(rp)}, {g_bool(ks)}, {g_bool(kn)}, {g_bool(kc)}, {g_bool(kco)})")
                    ms.append(meta)
                except Unencodable as e:
                    hist["unencodable"] += 1
                if len(run.cov["samples"]) < 5 and definite and fi == k:
                    run.sample({x: meta[x] for x in ("grammar", "open", "closed", "formula", "verdict_open",
                                                      "verdict_closed")})
            all_cs.append(cs)
            all_ms.append(ms)
            # ---- direct tie of quantified_formula_might_match on this open tree ----
            qcs, qms = [], []
            leaves = [p for p, _ in t.open_leaves()]
            innodes = [(p, s) for p, s in t.paths() if is_nonterminal(s.value)]
            ids = [s.id for _, s in t.paths()]
            qforms = [f for _, _, f in compiled if isinstance(f, L.QuantifiedFormula)][:6]
            for qf in qforms:
                for _ in range(3):
                    ip, inode = rng.choice(innodes)
                    am = rng.sample(ids, min(len(ids), rng.randint(1, 3))) if rng.random() < 0.4 else []
                    cls = L.ForallFormula if (am or isinstance(qf, L.ForallFormula)) else L.ExistsFormula
                    kw = {"already_matched": set(am)} if am else {}
                    q2 = cls(qf.bound_variable, inode, qf.inner_formula, qf.bind_expression, **kw)
                    for leaf in leaves:
                        try:
                            res = bool(quantified_formula_might_match(q2, leaf, t, g, graph.reachable))
                        except Exception as e:
                            run.violation({"kind": "quantified_formula_might_match raised", "error": repr(e)[:300],
                                           "witness": {"grammar": gname, "tree_open": tree_json(t), "leaf": list(leaf),
                                                       "formula": str(q2)},
                                           "obligation": "correspondence qmm3 <-> quantified_formula_might_match"},
                                          found_input=False)
                            continue
                        m = "(@None mexpr)" if qf.bind_expression is None else f"(Some {g_mexpr(qf, g)})"
                        qcs.append(f"({env_idx}%nat, {g_var(qf.bound_variable)}, {g_path(ip)}, {m}, {g_list(am, g_N)}, "
                                   f"{g_path(leaf)}, {g_bool(res)})")
                        qms.append({"grammar": gname, "open": str(t), "tree_open": tree_json(t), "in_path": list(ip),
                                    "already_matched": am, "leaf": list(leaf), "formula": str(q2), "impl": res})
                        hist["qmm_calls"] += 1
                        hist["qmm_true"] += res
            all_qcs.append(qcs)
            all_qms.append(qms)

    t_2 = time.time()
    nonconst = {k for k, vs in verdicts.items() if len({v for v in vs if v[0] == "ok"}) > 1}
    for ms in all_ms:
        for m in ms:
            run.count((m["key"], m["open"], m["closed"]), m["key"] in nonconst or m["definite"])
    run.cov["histogram"] = hist
    run.cov["evaluate_timeouts_first"] = timeouts[:3]
    run.cov["pairs"] = len(envs)
    run.cov["formula_pairs"] = sum(len(ms) for ms in all_ms)
    # few coqc processes (start-up dominates): a shard holds several (grammar, t, t') triples in a
    # list ENV, every case carries the index of its triple
    group = 10 if thorough else 32
    shards, smeta, qshards, qmeta = [], [], [], []
    for lo in range(0, len(envs), group):
        idx = range(lo, min(lo + group, len(envs)))
        env_def = (CST_DEF + "Definition DUMMY := Node [] 0%N false [].\n"
                   "Definition ENV : list (grammar * tree * tree) := [\n" +
                   ";\n".join(envs[i] for i in idx) + "\n].\n")
        shards.append((env_def, [c.replace("@K@", str(i - lo), 1) for i in idx for c in all_cs[i]]))
        smeta.append([m for i in idx for m in all_ms[i]])
        qshards.append((env_def, [c.replace("@K@", str(i - lo), 1) for i in idx for c in all_qcs[i]]))
        qmeta.append([m for i in idx for m in all_qms[i]])
    print(f"[C06] pairs={len(envs)} cases={run.cov['formula_pairs']} hist={hist}", flush=True)

    # ---- correspondence in Coq ----
    corr_bad = []
    ok_reach = ("fun c : grammar * str * str * bool => let '(g, a, b, r) := c in "
                "Bool.eqb (reachb g a b) r && reach_closedb g")
    try:
        import concurrent.futures as cf
        with cf.ThreadPoolExecutor(max_workers=3) as ex:      # the three Coq stages side by side
            f_ev = ex.submit(lib.coq_run_shards, "c06", IMPORTS, OK_DEF, shards)
            f_q = ex.submit(lib.coq_run_shards, "c06q", IMPORTS, OK_QMM, qshards)
            f_r = ex.submit(lib.coq_mismatches, "c06r", IMPORTS, ok_reach, reach_cases, 400)
            bad, dt = f_ev.result()
            run.cov["coq_seconds_evaluate"] = round(dt, 1)
            corr_bad += [("evaluate", smeta[k][i]) for (k, i) in bad]
            bad, dt = f_q.result()
            run.cov["coq_seconds_qmm"] = round(dt, 1)
            corr_bad += [("qmm", qmeta[k][i]) for (k, i) in bad]
            bad = f_r.result()[0]
        corr_bad += [("reachable", {"grammar": reach_meta[i][0], "from": reach_meta[i][1], "to": reach_meta[i][2]})
                     for i in bad]
        run.cov["reachability_pairs"] = len(reach_cases)
    except RuntimeError as e:
        run.violation({"kind": "correspondence-not-evaluable", "obligation": "Eval3.v cases",
                       "error": str(e)[-2500:]}, found_input=False)
    t_3 = time.time()
    run.cov["phase_seconds"] = {"proof_stage": round(t_1 - t_0, 1), "generate_and_run_impl": round(t_2 - t_1, 1),
                                "coq": round(t_3 - t_2, 1)}

    # ---- classification ----
    run.cov["disagreements_checked"] = len(corr_bad) + len(flips)
    hist["flips"] = len(flips)
    unknown = []
    for m in flips:
        cls = ("K_selfrec_open" if m["K_selfrec_open"] else "K_nth_open" if m["K_nth_open"]
               else "K_count_insert" if m["K_count_insert"]
               else "K_cons_rel_open" if m.get("K_cons_rel_open") else None)
        if cls and cls in known:
            run.known(known[cls]["what"])
            hist["flips_known"] += 1
            run.cov.setdefault("known_class_hits", {}).setdefault(cls, 0)
            run.cov["known_class_hits"][cls] += 1
        else:
            unknown.append(m)
    if unknown:
        unknown.sort(key=lambda m: len(json.dumps(m, default=str)))
        w = unknown[0]
        run.violation({"kind": "definite verdict on an open tree contradicts the verdict on a completion",
                       "witness": {x: w[x] for x in ("grammar", "tree_open", "tree_closed", "open", "closed",
                                                     "cuts", "formula", "ast_pickle")},
                       "verdict_open": w["verdict_open"], "verdict_closed": w["verdict_closed"],
                       "all_failing": len(unknown), "theorem": "Props/C06.v C06_verdict_stable_partial + correspondence",
                       "how_to_replay": "./check C06 --replay <this file>"})
    elif corr_bad:
        what, w = corr_bad[0]
        run.violation({"kind": "correspondence broken, no verdict flip found", "function": what,
                       "first": {x: w[x] for x in w if x not in ("tree_closed", "key", "ast_pickle")},
                       "count": len(corr_bad),
                       "obligation": "correspondence Eval3.v (m3_evaluate / qmm3 / reachb / K_*) <-> "
                                     "isla.evaluator.evaluate / quantified_formula_might_match / GrammarGraph.reachable"},
                      found_input=False)
    if not proof_ok:
        run.violation({"kind": "proof obligation failed", "problems": run.proof_problems,
                       "obligation": "Props/C06.v"}, found_input=False)
    run.cov["trusted_base"] = lib.TRUSTED_BASE_COMMON + [
        "Logic/Eval.v (C03 builder's model of evaluate/evaluate_legacy) is reused; its correspondence on closed trees is C03's",
        "match-expression prefix trees are inputs of the model (BindExpression.to_tree_prefix is not modelled)",
        "SMT atoms restricted to string (in)equality, str.len comparisons, true/false, with tree substitutions (atom3)",
        "count on an open tree below its target that can still gain needles (tree-insertion search) is not modelled: "
        "those cases are skipped in the functional comparison, the implication is still checked on the implementation",
        "reach_closedb g (the computed reachability sets are closed) is evaluated for every grammar used, not proved in general",
    ]


def replay(path):
    d = json.load(open(path))
    w = d.get("witness")
    if not w or "tree_closed" not in w:
        print("replay file names an obligation, not an input:", d.get("obligation"))
        return 1
    g = GRAMMARS[w["grammar"]]
    t, tp = tree_from_json(w["tree_open"]), tree_from_json(w["tree_closed"])
    print("formula:", w["formula"], "\nopen:", t, "\nclosed:", tp)
    print("recorded verdicts:", d.get("verdict_open"), d.get("verdict_closed"))
    if not w.get("ast_pickle"):
        print("formula object not recorded; rerun with VERIF_SEED=%s ./check C06" % d.get("seed"))
        return 1
    fobj = build3(pickle.loads(base64.b64decode(w["ast_pickle"])))
    r, rp = impl_evaluate(fobj, t, g), impl_evaluate(fobj, tp, g)
    print("verdicts now:", r, rp)
    return 1 if is_flip(r, rp) else 0
