#!/bin/bash
# round 2 seeds: /tmp/seed2-<ID>/out/<n>  ->  seeded/<ID>-r2-<n>
cd /verif
for d in /tmp/seed2-C*/out/*; do
  [ -f $d/patch.diff ] && [ -f $d/demo.py ] && [ -f $d/meta.json ] || continue
  id=$(echo $d | sed 's/.*seed2-\(C[0-9]*\).*/\1/'); n=$(basename $d)
  name=$id-r2-$n
  [ -d seeded/$name ] && continue
  mkdir -p seeded/$name
  echo "$id $d $name"
done > /tmp/seed2_todo.txt
cat /tmp/seed2_todo.txt | xargs -P ${1:-4} -L 1 bash -c 'harness/confirm_seed.sh $0 $1 $2 > /tmp/confirm-$2.log 2>&1'
