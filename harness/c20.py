"""C20 — library semantic predicates (count, crop, ljust/rjust(_crop), extend_crop,
octal_to_decimal): correspondence of Logic/SemPreds.v with isla.isla_predicates, observed
through SemanticPredicate.evaluate with a real grammar graph.

The model returns the verdict or the parser REQUEST (which argument is bound, for which
nonterminal, which input string); the check accepts an implementation outcome iff it is the
same verdict / exception, or an assignment of the same argument to a tree that the VERIFIED
checker wf_treeb accepts for the grammar, is closed, carries the requested nonterminal and
whose yield is the requested string (Coq function `agrees`).  A SyntaxError of the parser is
accepted iff the requested string is outside the nonterminal's language according to an
independent description of that language (cross-checked against the parser on every run).

Proof extension (composition with C10): on the small cases the COMPOSED model sem_eval_earley
(Logic/SemPredsParser.v: mk_parser modelled over the Earley model Grammar/Earley.v) is evaluated as
well and must reproduce the implementation's outcome exactly — same replacement tree, SyntaxError
iff the model's parser rejects (Coq function `agrees_full`).

Proof extension 2: on the same cases the guard of the FULL equivalences (C20_*_assign_iff,
C20_request_guard_total: grammar_guard, acyclicb of the specialised grammar, fuel bound —
Logic/SemPredsGuard.v) is evaluated in Coq; evidence key `e2e_guard` reports how many parser
requests lie inside it and what the implementation answered there."""
import itertools, json, random, re, string
import lib
from lib import g_str, g_bool, g_tree, g_Z, g_nat, g_grammar
from gen_trees import rand_tree, tree_json, tree_from_json
from isla import isla_predicates as P
from isla import language as L
from isla.derivation_tree import DerivationTree as T
from isla.helpers import canonical, srange
from isla.parser import EarleyParser
from grammar_graph import gg

GRAMMAR = {
    "<start>": ["<rec>"],
    "<rec>": ["<file_size><signed><chars><zeros><a>"],
    "<file_size>": ["<octal_digits><SPACE>"],
    "<octal_digits>": ["<octal_digit><octal_digits>", "<octal_digit>"],
    "<octal_digit>": srange("01234567"),
    "<decimal_digits>": ["<decimal_digit><decimal_digits>", "<decimal_digit>"],
    "<decimal_digit>": srange(string.digits),
    "<signed>": ["<sign><decimal_digits>"],
    "<sign>": ["-", "+", " "],
    "<chars>": ["<char><chars>", ""],
    "<char>": ["a", "b", "0", " "],
    "<zeros>": ["0<zeros>", "0"],
    "<SPACE>": [" "],
    "<a>": ["<b>x", "y"], "<b>": ["<c>"], "<c>": ["<a>", "z"],
}
# independent description of the languages:  nt -> (prefixes, charset, min body length, suffix)
LANGS = {
    "<octal_digits>": ([""], "01234567", 1, ""),
    "<decimal_digits>": ([""], "0123456789", 1, ""),
    "<file_size>": ([""], "01234567", 1, " "),
    "<signed>": (["-", "+", " "], "0123456789", 1, ""),
    "<chars>": ([""], "ab0 ", 0, ""),
    "<zeros>": ([""], "0", 1, ""),
}
GRAPH = gg.GrammarGraph.from_grammar(GRAMMAR)
CANON = canonical(GRAMMAR)
OCT = P.OCTAL_TO_DEC_PREDICATE(GRAPH, "<octal_digits>", "<decimal_digits>")
JUST = {"ljust": (True, False, P.LJUST_PREDICATE), "rjust": (False, False, P.RJUST_PREDICATE),
        "ljust_crop": (True, True, P.LJUST_CROP_PREDICATE), "rjust_crop": (False, True, P.RJUST_CROP_PREDICATE),
        "extend_crop": (True, True, P.EXTEND_CROP_PREDICATE)}
_parsers = {}

# ---- cross-grammar stream: grammars with IDENTICAL nonterminal names and different productions, evaluated
# alternately in this ONE process (a parser cached per name set / start symbol would answer with the wrong grammar)
XGRAMMARS = [
    {"<start>": ["<xs>"], "<xs>": ["<x><xs>", "<x>"], "<x>": ["<u>"], "<u>": ["a", "b", "0"]},       # right-recursive
    {"<start>": ["<xs>"], "<xs>": ["<xs><x>", "<x>"], "<x>": ["<u>"], "<u>": ["a", "b", "0"]},       # left-recursive
    {"<start>": ["<xs>"], "<xs>": ["<x><xs>", "<x>"], "<x>": ["<u>", "0"], "<u>": ["a", "b"]},       # other unit level / terminals
]
assert all(set(g) == set(XGRAMMARS[0]) for g in XGRAMMARS)
XLANGS = {"<xs>": ([""], "ab0", 1, ""), "<x>": ([""], "ab0", 1, "")}
XGRAPHS = [gg.GrammarGraph.from_grammar(g) for g in XGRAMMARS]
XCANON = [canonical(g) for g in XGRAMMARS]
_CTX = [GRAPH, LANGS]          # graph / language description of the call being observed or judged
_xparsers = {}


def xparse(gi, nt, s):
    """argument tree built with a parser of exactly grammar XGRAMMARS[gi] (own parser, not mk_parser)"""
    if (gi, nt) not in _xparsers:
        g = dict(XGRAMMARS[gi]); g["<start>"] = [nt]
        _xparsers[(gi, nt)] = EarleyParser(g)
    return T.from_parse_tree(next(iter(_xparsers[(gi, nt)].parse(s)))).get_subtree((0,))


def gen_cross(rng, thorough):
    """round-robin over the grammars: consecutive calls use the same nonterminal with another grammar"""
    strs = ["a", "ab", "0a", "ab0", "b0ab", "000"] + (["abab0", "a0b0a0"] if thorough else [])
    per_g = []
    for gi in range(len(XGRAMMARS)):
        calls = []
        for s_ in strs:
            t = xparse(gi, "<xs>", s_)
            n = len(s_)
            for w in range(0, n + 3):
                if w == n:
                    continue
                calls.append((gi, "crop", [t, T(str(w), ())]))
                calls.append((gi, "ljust_crop", [t, w, rng.choice("0ab")]))
                calls.append((gi, "rjust_crop", [t, T(str(w), ()), rng.choice("0ab")]))
                if w > n:
                    calls.append((gi, rng.choice(["ljust", "rjust"]), [t, w, rng.choice("0ab")]))
            if len(set(s_)) == 1:
                calls.append((gi, "extend_crop", [t, n + 2]))
        per_g.append(calls)
    for row in zip(*per_g):          # same position in every list = same request, different grammar
        for c in row:
            yield c


def in_lang(nt, s):
    ps, cs, mn, suf = _CTX[1][nt]
    for p in ps:
        if s.startswith(p):
            r = s[len(p):]
            if len(r) >= len(suf) and r.endswith(suf):
                body = r[:len(r) - len(suf)]
                if len(body) >= mn and all(c in cs for c in body):
                    return True
    return False


def parse(nt, s):
    if nt not in _parsers:
        g = dict(GRAMMAR); g["<start>"] = [nt]
        _parsers[nt] = EarleyParser(g)
    return T.from_parse_tree(next(iter(_parsers[nt].parse(s)))).get_subtree((0,))


def prune(t, rng):
    """open version of a closed tree: one inner node cut to children=None"""
    inner = [p for p, s in t.paths() if s.children and p]
    if not inner:
        return T(t.value, None)
    p = rng.choice(inner)
    return t.replace_path(p, T(t.get_subtree(p).value, None))


# ---- encoding of calls ----
VAR = L.Constant("v", "<decimal_digits>")


_TREE_DEFS = {}      # id(tree) -> (name, literal): argument trees are defined once per case file


_LABELS = {}         # label string -> name of a Gallina constant (keeps 40-deep trees small)
TREE_PRELUDE = ("Definition nd (l : str) (ks : list tree) := Node l 0%N false ks.\n"
                "Definition lf (l : str) := Node l 0%N false [].\n"
                "Definition op (l : str) := Node l 0%N true [].\n")


def g_lbl(v):
    if v not in _LABELS:
        _LABELS[v] = f"L{len(_LABELS)}"
    return _LABELS[v]


def g_ctree(t):
    """compact literal (node ids are irrelevant to the model: all 0)"""
    out, stack = {}, [(t, False)]
    while stack:
        node, done = stack.pop()
        if done:
            ch = node.children
            if ch is None:
                out[id(node)] = f"(op {g_lbl(node.value)})"
            elif not ch:
                out[id(node)] = f"(lf {g_lbl(node.value)})"
            else:
                out[id(node)] = f"(nd {g_lbl(node.value)} [" + "; ".join(out.pop(id(c)) for c in ch) + "])"
        else:
            stack.append((node, True))
            for c in node.children or ():
                stack.append((c, False))
    return out[id(t)]


def label_defs():
    return "".join(f"Definition {nm} : str := {g_str(v)}.\n" for v, nm in _LABELS.items())


def g_tref(t):
    if id(t) not in _TREE_DEFS:
        _TREE_DEFS[id(t)] = (f"t{len(_TREE_DEFS)}", g_ctree(t), t)
    return _TREE_DEFS[id(t)][0]


def g_targ(a):
    return "TVar" if isinstance(a, L.Variable) else f"(TTree {g_tref(a)})"


def g_warg(a):
    if isinstance(a, L.Variable):
        return "WVar"
    if isinstance(a, T):
        return f"(WTree {g_tref(a)})"
    if isinstance(a, bool):
        raise ValueError
    if isinstance(a, int):
        return f"(WInt {g_Z(a)})"
    return f"(WStr {g_str(a)})"


def g_call(kind, args):
    if kind == "count":
        return f"(CCount {g_targ(args[0])} {g_str(args[1])} {g_warg(args[2])})"
    if kind == "crop":
        return f"(CCrop {g_targ(args[0])} {g_warg(args[1])})"
    if kind == "octal":
        return f"(COctal {g_str('<octal_digits>')} {g_str('<decimal_digits>')} {g_targ(args[0])} {g_targ(args[1])})"
    lj, cr, _ = JUST[kind]
    fill = "None" if kind == "extend_crop" else f"(Some {g_str(args[2])})"
    return f"(CJust {g_bool(lj)} {g_bool(cr)} {g_targ(args[0])} {g_warg(args[1])} {fill})"


def pred_of(kind):
    return {"count": P.COUNT_PREDICATE, "crop": P.CROP_PREDICATE, "octal": OCT}.get(kind) or JUST[kind][2]


def observe(kind, args):
    """canonical outcome of SemanticPredicate.evaluate"""
    try:
        r = pred_of(kind).evaluate(_CTX[0], *args).result
    except Exception as e:  # the outcome is the observable
        return ("raise", lib.exn_name(e))
    if r is None:
        return ("notready",)
    if r is True or r is False:
        return ("bool", r)
    assert isinstance(r, dict) and len(r) == 1, r
    (k, v), = r.items()
    idx = [i for i, a in enumerate(args) if a is k]
    assert len(idx) == 1, (kind, args, r)
    return ("assign", idx[0], v)


def g_iout(o):
    if o[0] == "raise":
        return f"(IRaise {o[1]})"
    if o[0] == "notready":
        return "INotReady"
    if o[0] == "bool":
        return f"(IBool {g_bool(o[1])})"
    return f"(IAssign {g_nat(o[1])} {g_ctree(o[2])})"


def j_arg(a):
    if isinstance(a, L.Variable):
        return {"var": a.name}
    if isinstance(a, T):
        return {"tree": tree_json(a), "str": str(a)}
    return a


def j_out(o):
    if o[0] == "assign":
        return ["assign", o[1], {"tree": tree_json(o[2]), "str": str(o[2])}]
    return list(o)


def arg_from_json(j):
    if isinstance(j, dict) and "var" in j:
        return VAR
    if isinstance(j, dict):
        return tree_from_json(j["tree"])
    return j


# ---- python reference of the declarative SPEC (failing-input search only) ----
def digits(s, cs):
    return len(s) > 0 and all(c in cs for c in s)


def closed(a):
    return isinstance(a, T) and a.is_complete()


def valid_repl(v, nt):
    return (isinstance(v, T) and v.value == nt and v.is_complete() and _CTX[0].tree_is_valid(v)
            and (nt not in _CTX[1] or in_lang(nt, str(v))))


def e2e_small(kind, args, o):
    """cases cheap enough to run the Earley MODEL in Coq (end-to-end correspondence of
    Logic/SemPredsParser.v mk_grammar / mk_parse with isla_predicates.mk_parser)"""
    for a in args:
        if isinstance(a, T) and len(str(a)) > 10:
            return False
        if isinstance(a, T) and (width_value(a) or 0) > 12:
            return False
        if isinstance(a, int) and not isinstance(a, bool) and abs(a) > 12:
            return False
    return not (o[0] == "assign" and len(str(o[2])) > 12)


def width_value(w):
    """the integer a width argument denotes (None: not a plain non-negative numeral / int)"""
    if isinstance(w, bool):
        return None
    if isinstance(w, int):
        return w
    if isinstance(w, T) and w.is_complete():
        s = str(w)
        if digits(s, string.digits):
            return int(s)
        if len(s) > 1 and s[0] == "-" and digits(s[1:], string.digits):
            return -int(s[1:])
    return None


def spec_verdict(kind, args, o):
    """Does the observed outcome conform to the documented relation?  Only definite verdicts and
    proposed replacements are judged (exceptions / not-ready are left to the correspondence).
    None: the property says nothing here; True: conforms; False: violates."""
    if o[0] not in ("bool", "assign"):
        return None
    if kind == "count":
        t, needle, num = args
        if not closed(t):
            return None
        n = sum(1 for _, s in t.paths() if s.value == needle)
        if o[0] == "assign":
            return (isinstance(num, L.Variable) and o[1] == 2 and o[2].value == str(n)
                    and o[2].children is None)
        s = num.value if isinstance(num, T) and not num.children else num
        if isinstance(s, str) and digits(s, string.digits):
            return o[1] == (int(s) == n)
        # other spellings: a True verdict must at least denote n under Python's own reading
        return _py_int_is(s, n) if o[1] else None
    if kind == "octal":
        oa, da = args
        so = str(oa) if closed(oa) else None
        sd = str(da) if closed(da) else None
        if o[0] == "bool":
            if so is None or sd is None:
                return False
            if digits(so, "01234567") and digits(sd, string.digits):
                return o[1] == (int(so, 8) == int(sd))
            if o[1] and digits(so, string.digits) and not digits(so, "01234567"):
                return False          # "holds" although the first argument contains the digit 8 or 9
            return None               # signs / blanks / underscores: Python's liberal int() reading, not judged
        if o[1] == 1:                 # proposes a decimal for a given octal
            return (so is not None and digits(so, "01234567") and valid_repl(o[2], "<decimal_digits>")
                    and int(str(o[2])) == int(so, 8))
        return (sd is not None and valid_repl(o[2], "<octal_digits>")
                and _py_int_is(sd, int(str(o[2]), 8)))
    # crop / just
    t, w = args[0], args[1]
    if not closed(t):
        return None
    s, n = str(t), len(str(t))
    if isinstance(w, L.Variable):
        return o[0] == "assign" and o[1] == 1 and o[2].value == str(n) and o[2].children is None
    wv = width_value(w)
    if wv is None:
        return None
    holds = n <= wv if kind == "crop" else n == wv
    if o[0] == "bool":
        return o[1] == holds
    if holds or o[1] != 0 or not valid_repl(o[2], t.value):
        return False
    r = str(o[2])
    if kind == "crop":
        return len(r) == wv and s.startswith(r)
    if len(r) != wv:
        return False
    lj = JUST[kind][0]
    k = min(n, wv)
    if lj:
        return r[:k] == s[:k] and len(set(r[k:])) <= 1
    return r[len(r) - k:] == s[n - k:] and len(set(r[:len(r) - k])) <= 1


def _py_int_is(s, n):
    try:
        return int(s) == n
    except Exception:
        return False


def in_known_class(entry, kind, args):
    """membership of a call in the class of an open finding (mirrors the Coq guards K_*)"""
    cls = entry["class"]
    nonoctal = (kind == "octal" and closed(args[0]) and not digits(str(args[0]), "01234567"))
    if cls == "K_octal_both":
        return kind == "octal" and closed(args[0]) and closed(args[1]) and not nonoctal
    if cls == "K_nonoctal":
        return nonoctal
    if cls == "K_neg_width":
        w = args[1] if kind != "count" and kind != "octal" else None
        if isinstance(w, T) and w.is_complete():
            return _py_int_lt0(str(w))
        return isinstance(w, int) and w < 0
    return False


def _py_int_lt0(s):
    try:
        return int(s) < 0
    except Exception:
        return False


# ---- generators ----
NUM_STRS = ["0", "1", "2", "3", "007", "+1", "-1", "-0", " 2", "2 ", "\t1\n", "1_0", "_1", "1_", "1__0", "",
            "abc", "1.0", "0x1", "0o1", "+", " ", "\x1c1", "\xa01", "12"]


def gen_count(rng, n_trees):
    for ti in range(n_trees):
        t = rand_tree(rng, depth=rng.randint(1, 4), max_deg=3, open_prob=0.0)
        labels = sorted({s.value for _, s in t.paths()})
        needles = [t.value] + [l for l in rng.sample(labels, min(3, len(labels))) if l != t.value] \
            + [rng.choice(["<zz>", "q", ""])]          # the ROOT label is always one of the needles
        for needle in needles:
            n = sum(1 for _, s in t.paths() if s.value == needle)
            nums = [VAR, str(n), str(n + 1), str(max(n - 1, 0)), "0" + str(n), " %d " % n, "+%d" % n, "-%d" % n,
                    T(str(n), None), T(str(n), ()), T(str(n + 1), None), T("x", ()), T(str(n), [T("y", ())]),
                    n, rng.choice(NUM_STRS), rng.choice(NUM_STRS), T(rng.choice(NUM_STRS), None)]
            for num in nums:
                yield ("count", [t, needle, num], len(t.paths()) >= 2)
    # trees of the harness grammar whose ROOT is the needle nonterminal (recursive <a> -> <b> -> <c> -> <a>)
    for nt, src in [("<a>", "y"), ("<a>", "zx"), ("<a>", "yxx"), ("<b>", "yx"), ("<c>", "zxx"),
                    ("<octal_digits>", "170"), ("<chars>", "ab")]:
        t = parse(nt, src)
        for needle in [nt, "<a>", "<c>", "x", "<octal_digit>", "<start>"]:
            n = sum(1 for _, s_ in t.paths() if s_.value == needle)
            for num in [VAR, str(n), str(n + 1), "0", T(str(n), None), T(str(max(n - 1, 0)), ())]:
                yield ("count", [t, needle, num], len(t.paths()) >= 2)
    yield ("count", [VAR, "<a>", "1"], False)


def tree_pool(rng, thorough):
    pool = []
    for nt, strs in [("<octal_digits>", ["0", "7", "17", "007", "1234567"]),
                     ("<decimal_digits>", ["0", "8", "15", "100", "0042"]),
                     ("<file_size>", ["1 ", "644 ", "00017 "]),
                     ("<chars>", ["", "a", "aaa", "ab0 ", "  ", "000"]),
                     ("<zeros>", ["0", "000"]),
                     ("<signed>", ["-1", "+12", " 7"])]:
        for s in (strs if thorough else rng.sample(strs, 2)):
            pool.append(parse(nt, s))
        _, cs, mn, suf = LANGS[nt]
        for _ in range(3 if thorough else 1):
            body = "".join(rng.choice(cs) for _ in range(rng.randint(max(mn, 1), 6)))
            s = rng.choice(LANGS[nt][0]) + body + suf
            pool.append(parse(nt, s))
    return pool


def width_args(rng, n):
    ws = []
    for w in range(0, n + 4):
        ws += [w, T(str(w), ())]
    ws += [-1, -2, T("-1", ()), parse("<decimal_digits>", str(n)), parse("<decimal_digits>", "0" + str(max(n - 1, 0))),
           parse("<signed>", "-1"), parse("<signed>", " %d" % (n + 1)), parse("<signed>", "+%d" % max(n - 1, 0)),
           T(" %d " % n, ()), T("abc", ()), T("", ()), T("<decimal_digits>", None), prune(parse("<decimal_digits>", "12"), rng),
           VAR, str(n), "x"]
    return ws


def gen_just(rng, pool, thorough):
    fills = ["0", " ", "a", "\x00", "00", ""]
    kinds = ("ljust", "rjust", "ljust_crop", "rjust_crop")
    for t in pool:
        n = len(str(t))
        nontriv = len(t.paths()) >= 2
        for w in width_args(rng, n):
            wv = width_value(w)
            nt_ = nontriv and wv is not None and wv != n
            yield ("crop", [t, w], nt_)
            yield ("extend_crop", [t, w], nt_)
            if thorough:
                combos = [(k, f) for k in kinds for f in fills]
            else:
                combos = [(rng.choice(kinds), rng.choice(fills[:4])), (rng.choice(kinds), rng.choice(fills))]
            for kind, f in combos:
                yield (kind, [t, w, f], nt_)
        for w in (0, 1, T("0", ()), T("1", ())):          # always: crop variants at width 0 and 1
            for kind in ("ljust_crop", "rjust_crop"):
                for f in ("0", "a"):
                    yield (kind, [t, w, f], nontriv and width_value(w) != n)
        o = prune(t, rng)
        for kind in ("crop", "extend_crop"):
            yield (kind, [o, 3], False)
            yield (kind, [o, VAR], False)
        yield ("ljust", [o, 3, "0"], False)
        yield ("rjust_crop", [VAR, 3, "0"], False)
        yield ("crop", [VAR, T("3", ())], False)


def gen_octal(rng, thorough):
    octs = ["0", "7", "10", "17", "007", "777", "00", "1234567", "0000010", "15", "21"]
    decs = ["0", "7", "8", "15", "17", "63", "511", "007", "0015", "342391", "10", "21", "9"]
    for _ in range(40 if thorough else 6):
        n = rng.randrange(0, 5000)
        octs.append("0" * rng.randint(0, 2) + oct(n)[2:])
        decs.append("0" * rng.randint(0, 2) + str(n))
    ot = [parse("<octal_digits>", s) for s in octs]
    dt = [parse("<decimal_digits>", s) for s in decs]
    odd_o = [parse("<decimal_digits>", "8"), parse("<decimal_digits>", "19"), parse("<file_size>", "17 "),
             parse("<signed>", "-5"), parse("<signed>", "+17"), T("17", ()), T("", ()), parse("<chars>", "a0")]
    odd_d = [parse("<signed>", "-5"), parse("<signed>", "+15"), parse("<signed>", " 15"), T("15", ()), T("", ()),
             parse("<chars>", "ab"), parse("<file_size>", "15 ")]
    # LONG digit strings (23..40 digits, beyond any 64-bit / fixed-size table), with leading-zero variants,
    # in all three modes; the model computes in unbounded N / Z
    long_o = ["1" + "0" * 22, "7" * 23, "1" + "0" * 39, "0" * 4 + "1" + "0" * 22]
    long_d = ["1" + "0" * 22, "9" * 23, "1" + "0" * 39, "000" + "9" * 24]
    for _ in range(6 if thorough else 2):
        k = rng.randint(23, 40)
        so = rng.choice("1234567") + "".join(rng.choice("01234567") for _ in range(k - 1))
        long_o += [so, "0" * rng.randint(1, 3) + so]
        k = rng.randint(23, 40)
        sd = rng.choice("123456789") + "".join(rng.choice(string.digits) for _ in range(k - 1))
        long_d += [sd, "0" * rng.randint(1, 3) + sd]
    lot = [parse("<octal_digits>", s_) for s_ in long_o]
    ldt = [parse("<decimal_digits>", s_) for s_ in long_d]
    for o, so in zip(lot, long_o):
        yield ("octal", [o, VAR], True)                                        # concrete octal
        yield ("octal", [o, T("<decimal_digits>", None)], True)
        n = int(so, 8)
        for sd in (str(n), "00" + str(n), str(n + 1), str(n % 8 ** 22), long_d[0]):
            yield ("octal", [o, parse("<decimal_digits>", sd)], True)          # both trees
    for d, sd in zip(ldt, long_d):
        yield ("octal", [VAR, d], True)                                        # concrete decimal
        yield ("octal", [T("<octal_digits>", None), d], True)
        n = int(sd)
        for so in (oct(n)[2:], "00" + oct(n)[2:], oct(n + 8 ** 22)[2:], oct(n)[2:][-22:].lstrip("0") or "0"):
            yield ("octal", [parse("<octal_digits>", so), d], True)            # both trees
    for o in ot + odd_o:
        yield ("octal", [o, VAR], True)
        yield ("octal", [o, T("<decimal_digits>", None)], True)
        yield ("octal", [o, prune(dt[3], rng)], True)
    for d in dt + odd_d:
        yield ("octal", [VAR, d], True)
        yield ("octal", [T("<octal_digits>", None), d], True)
        yield ("octal", [prune(ot[3], rng), d], True)
    for o in ot + odd_o:
        for d in dt + odd_d:
            yield ("octal", [o, d], True)
    yield ("octal", [VAR, VAR], False)
    yield ("octal", [L.Constant("o", "<octal_digits>"), VAR], False)
    yield ("octal", [T("<octal_digits>", None), T("<decimal_digits>", None)], False)
    yield ("octal", [T("<octal_digits>", None), VAR], False)
    yield ("octal", [VAR, T("<decimal_digits>", None)], False)


def lang_crosscheck(rng, run):
    """the independent language description agrees with the Earley parser"""
    bad = []
    n = 0
    for nt, (ps, cs, mn, suf) in LANGS.items():
        alpha = sorted(set(cs[:3] + "".join(ps) + suf + "x9"))
        cands = [""] + ["".join(w) for k in (1, 2, 3) for w in itertools.product(alpha, repeat=k)]
        rng.shuffle(cands)
        for s in cands[:120]:
            n += 1
            try:
                parse(nt, s); ok = True
            except SyntaxError:
                ok = False
            if ok != in_lang(nt, s):
                bad.append((nt, s, ok))
    run.cov["language_oracle_crosschecked_strings"] = n
    return bad


def g_langs():
    ents = []
    for nt, (ps, cs, mn, suf) in LANGS.items():
        ents.append(f"({g_str(nt)}, ({lib.g_list(ps, g_str)}, {g_str(cs)}, {g_nat(mn)}, {g_str(suf)}))")
    return "[" + "; ".join(ents) + "]"


WITNESS_BOTH = ("17", "15")


def defect_both_present():
    o = observe("octal", [parse("<octal_digits>", WITNESS_BOTH[0]), parse("<decimal_digits>", WITNESS_BOTH[1])])
    return o == ("bool", False)


def e2e_guard_stats(run, lits, metas, defs_e2e):
    """Evaluate the guards of Logic/SemPredsGuard.v in Coq (theorems C20_request_guard_total,
    C20_*_assign_iff): how many end-to-end cases make a parser request, how many of those lie inside
    the guard, and what the implementation answered there."""
    imports = "SemPreds SemPredsParser SemPredsGuard Earley EarleyFuel EarleyAcyclic"
    out = lib.coq_eval("c20g", imports,
                       "(grammar_guard G, map (fun nt => acyclicb (cgram (mk_grammar G nt) START)) (map fst G))",
                       extra_defs=defs_e2e)
    m = re.search(r"=\s*\((true|false),\s*\[([^\]]*)\]", out)
    if not m:
        raise RuntimeError("guard evaluation failed: " + out[-1500:])
    gguard = m.group(1) == "true"
    acyc = re.findall(r"true|false", m.group(2))
    # one Coq run for both questions: (true, c) -> "c makes no parser request", (false, c) -> "no request or inside the guard"
    ok = ("fun p : bool * (call * iout) => if fst p then negb (is_request FX (fst (snd p))) "
          "else negb (is_request FX (fst (snd p))) || request_guard_tab GT NMAX FX (fst (snd p))")
    # the table is computed once per case file; C20_request_guard_tab_sound: request_guard_tab GT NMAX implies request_guard FUEL G
    defs_e2e = defs_e2e + "Definition NMAX := 14.\nDefinition GT := Eval vm_compute in (guard_table FUEL G NMAX).\n"
    n = len(lits)
    bad, dt = lib.coq_mismatches("c20g", imports, ok, [f"(true, {c})" for c in lits] + [f"(false, {c})" for c in lits],
                                 shard=700, extra_defs=defs_e2e)
    requests = sorted(i for i in bad if i < n)
    outside = sorted(i - n for i in bad if i >= n)
    inside = [i for i in requests if i not in set(outside)]
    answered = {"replacement_tree": 0, "syntax_error": 0, "other": 0}
    for i in inside:
        o = metas[i][2]
        answered["replacement_tree" if o[0] == "assign" else "syntax_error" if o == ("raise", "SyntaxErr") else "other"] += 1
    why = {"start_rooted": 0, "other": 0}
    for i in outside:
        a0 = metas[i][1][0]
        why["start_rooted" if metas[i][0] != "octal" and isinstance(a0, T) and a0.value == "<start>" else "other"] += 1
    stats = {"grammar_guard": gguard, "specialised_grammars_acyclic": f"{acyc.count('true')}/{len(acyc)}",
             "cases": n, "parser_requests": len(requests), "inside_guard": len(inside),
             "inside_guard_impl_outcomes": answered, "outside_guard": why, "coq_seconds": round(dt, 1)}
    if not gguard:
        run.violation({"kind": "harness grammar outside grammar_guard (canonical_form / unique keys / <start> on a right-hand side)",
                       "obligation": "harness/c20.py GRAMMAR satisfies the hypotheses of the C20_*_earley theorems"},
                      found_input=False)
    if answered["other"]:
        # inside the guard the composed model answers tree | SyntaxError (C20_request_guard_total); the end-to-end
        # comparison above has already reported the disagreement, this names the theorem
        run.violation({"kind": "implementation outcome inside request_guard is neither a replacement nor SyntaxError",
                       "n": answered["other"], "obligation": "C20_request_guard_total + end-to-end correspondence"},
                      found_input=False)
    return stats


def run(run):
    rng = random.Random(run.seed)
    thorough = run.tier == "thorough"
    run.cov["rule"] = (
        "calls of the 8 bundled semantic predicates through SemanticPredicate.evaluate(graph, ...) on closed "
        "argument trees parsed from strings of a 15-nonterminal grammar (octal/decimal digit lists with leading "
        "zeros, tar-like <file_size>, nullable <chars>, signed numbers) and on random closed trees for count; "
        "widths 0..len+3 as int and as tree, negative / non-numeric / open / Variable widths, 6 fill strings, "
        "num of count as Variable / str / leaf tree / int incl. nasty numerals; octal: all pairs of the octal "
        "and decimal pools plus non-octal digits and signed strings, Variable and open partners. "
        "non-trivial = argument tree has >= 2 nodes and (for crop/just) the width differs from the current length")
    import time
    t0 = time.time()
    proof_ok = run.proof_stage()
    run.cov["seconds_proof_stage"] = round(time.time() - t0, 1)
    ents = lib.known_findings("C20")
    if not ents:   # known_findings.json not regenerated yet: same content, committed next to this file
        import os
        ents = json.load(open(os.path.join(lib.VERIF, "harness", "meta", "C20.findings.json")))
    findings = {e["key"]: e for e in ents if e.get("status") == "open"}

    lang_bad = lang_crosscheck(rng, run)
    if lang_bad:
        run.violation({"kind": "language oracle of the harness disagrees with EarleyParser", "first": lang_bad[:5],
                       "obligation": "harness/c20.py LANGS <-> isla.parser.EarleyParser"}, found_input=False)

    # which both-trees behaviour does the implementation show on the recorded witness?
    # /repo contains the fix c0b7afd (finding octal-both-trees: fixed): the REPAIRED model is forced, so a
    # regression of the both-trees branch is a disagreement + spec failure and is reported as VIOLATION
    pinned = False
    run.cov["octal_both_trees_variant"] = "fixed (forced; repaired by c0b7afd)"

    calls = list(gen_count(rng, 60 if thorough else 12))
    pool = tree_pool(rng, thorough)
    calls += list(gen_just(rng, pool, thorough))
    calls += list(gen_octal(rng, thorough))
    # trees rooted in <start>: mk_parser overwrites the start rule with <start> ::= <start>, every parser request is
    # answered SyntaxError (theorem C20_start_rooted_syntaxerr; judged by the end-to-end stage below)
    st = T.from_parse_tree(next(iter(EarleyParser(GRAMMAR).parse("1 -10y"))))
    calls += [("crop", (st, T("3", ())), True), ("crop", (st, T("7", ())), True), ("ljust_crop", (st, 9, "0"), True),
              ("rjust_crop", (st, 2, " "), True), ("ljust", (st, 8, "0"), True)]

    t1 = time.time()
    cases, meta, hist = [], [], {}
    for kind, args, nontriv in calls:
        o = observe(kind, args)
        try:
            lit = f"({g_call(kind, args)}, {g_iout(o)})"
        except (ValueError, AssertionError):
            continue
        cases.append(lit)
        meta.append((kind, args, o))
        key = (kind, json.dumps([j_arg(a) for a in args], sort_keys=True, default=str))
        run.count(key, nontriv)
        hk = f"{kind}:{o[0] if o[0] != 'raise' else o[1]}"
        hist[hk] = hist.get(hk, 0) + 1
    run.cov["outcome_histogram"] = dict(sorted(hist.items()))
    run.cov["seconds_implementation"] = round(time.time() - t1, 1)
    for kind in ("count", "crop", "rjust_crop", "octal"):
        for m in meta:
            if m[0] == kind and m[2][0] == "assign":
                run.sample({"pred": kind, "args": [j_arg(a) for a in m[1]], "impl": j_out(m[2])}); break
    for m in meta:
        if m[0] == "octal" and m[2][0] == "bool" and closed(m[1][0]) and str(m[1][0]) == "17":
            run.sample({"pred": "octal", "args": [j_arg(a) for a in m[1]], "impl": j_out(m[2])}); break

    defs = (TREE_PRELUDE + label_defs()
            + "".join(f"Definition {nm} := {lit}.\n" for nm, lit, _ in _TREE_DEFS.values())
            + f"Definition G : grammar := {g_grammar(CANON)}.\n"
            f"Definition LANGS := {g_langs()}.\n"
            f"Definition FX := {g_bool(not pinned)}.\n")
    ok_def = "fun c : call * iout => agrees G (charset_lang LANGS) (pre_eval FX (fst c)) (snd c)"
    disagreements = []
    try:
        bad, dt = lib.coq_mismatches("c20", "SemPreds", ok_def, cases, shard=1300, extra_defs=defs)
        run.cov["coq_seconds"] = round(dt, 1)
        for i in bad:
            kind, args, o = meta[i]
            model = lib.coq_eval(f"c20d{i}", "SemPreds", f"pre_eval FX {g_call(kind, args)}", extra_defs=defs) \
                if len(disagreements) < 3 else ""
            disagreements.append({"pred": kind, "args": [j_arg(a) for a in args], "impl": j_out(o),
                                  "model": model[-600:], "spec": spec_verdict(kind, args, o), "_raw": (kind, args, o)})
    except RuntimeError as e:
        run.violation({"kind": "correspondence-not-evaluable", "obligation": "SemPreds.v cases", "error": str(e)[-2000:]},
                      found_input=False)

    # ---- end-to-end correspondence: predicate model composed with the Earley MODEL of C10 through
    # mk_parse (Logic/SemPredsParser.v) must give the implementation's outcome, replacement TREE included ----
    e2e_idx = [i for i, m in enumerate(meta) if e2e_small(*m)]
    parse_idx = [i for i in e2e_idx if meta[i][2][0] == "assign" and isinstance(meta[i][2][2], T)
                 and meta[i][2][2].children is not None]
    syn_idx = [i for i in e2e_idx if meta[i][2] == ("raise", "SyntaxErr")]
    other_idx = [i for i in e2e_idx if i not in set(parse_idx) and i not in set(syn_idx)]
    rng2 = random.Random(run.seed + 20)
    cap = (1500, 600, 300) if thorough else (400, 200, 100)
    pick = sorted(rng2.sample(parse_idx, min(cap[0], len(parse_idx))) + rng2.sample(syn_idx, min(cap[1], len(syn_idx)))
                  + rng2.sample(other_idx, min(cap[2], len(other_idx))))
    forced = [i for i in e2e_idx if meta[i][0] != "count" and isinstance(meta[i][1][0], T) and meta[i][1][0].value == "<start>"]
    pick = sorted(set(pick) | set(forced))
    run.cov["e2e_start_rooted"] = {"cases": len(forced),
                                   "syntax_error": sum(1 for i in forced if meta[i][2] == ("raise", "SyntaxErr"))}
    run.cov["e2e_cases"] = {"parsed_replacement": min(cap[0], len(parse_idx)), "syntax_error": min(cap[1], len(syn_idx)),
                            "other": min(cap[2], len(other_idx))}
    ok_e2e = ("fun c : call * iout => agrees_full (sem_eval_earley false false FUEL G FX (fst c)) (snd c) "
              "&& agrees_full (sem_eval_earley true true FUEL G FX (fst c)) (snd c)")
    defs_e2e = defs + "Definition FUEL := fuel_bound (sct G) 14 + 40.\n" if pick else ""
    try:
        if pick:
            bad2, dt2 = lib.coq_mismatches("c20e", "SemPreds SemPredsParser Earley EarleyFuel", ok_e2e,
                                           [cases[i] for i in pick], shard=150, extra_defs=defs_e2e)
            run.cov["coq_seconds_e2e"] = round(dt2, 1)
            for j in bad2:
                kind, args, o = meta[pick[j]]
                model = lib.coq_eval(f"c20e{j}", "SemPreds SemPredsParser Earley EarleyFuel",
                                     f"sem_eval_earley false false FUEL G FX {g_call(kind, args)}", extra_defs=defs_e2e) \
                    if len(disagreements) < 3 else ""
                disagreements.append({"pred": kind, "args": [j_arg(a) for a in args], "impl": j_out(o),
                                      "model": model[-600:], "spec": spec_verdict(kind, args, o), "stage": "end-to-end",
                                      "_raw": (kind, args, o)})
    except RuntimeError as e:
        run.violation({"kind": "correspondence-not-evaluable", "obligation": "SemPredsParser.v mk_parse cases",
                       "error": str(e)[-2000:]}, found_input=False)

    # ---- the guard of the FULL equivalences (C20_*_assign_iff, C20_request_guard_total), evaluated in Coq:
    # grammar_guard G once, acyclicb of every specialised grammar mk_grammar G nt, and per end-to-end case
    # request_guard FUEL G FX c (= parser request for nt <> <start>, acyclicb (cgram (mk_grammar G nt) START),
    # fuel_bound .. |s| <= FUEL).  Inside the guard the theorem leaves exactly: replacement tree | SyntaxError.
    if pick:
        try:
            run.cov["e2e_guard"] = e2e_guard_stats(run, [cases[i] for i in pick], [meta[i] for i in pick], defs_e2e)
        except RuntimeError as e:
            run.violation({"kind": "correspondence-not-evaluable", "obligation": "SemPredsGuard.v request_guard cases",
                           "error": str(e)[-2000:]}, found_input=False)

    # ---- cross-grammar stream: same nonterminal names, different productions, alternating in this process;
    # every replacement is judged by wf_treeb against the grammar OF THAT CALL and compared as an exact tree with
    # the Earley model run on that grammar ----
    xmeta, xcases = [], []
    for gi, kind, args in gen_cross(rng, thorough):
        _CTX[:] = [XGRAPHS[gi], XLANGS]
        try:
            o = observe(kind, args)
            v = spec_verdict(kind, args, o)
        finally:
            _CTX[:] = [GRAPH, LANGS]
        xmeta.append((gi, kind, args, o, v))
        xcases.append(f"({g_nat(gi)}, ({g_call(kind, args)}, {g_iout(o)}))")
        run.count(("x", gi, kind, json.dumps([j_arg(a) for a in args], sort_keys=True, default=str)), True)
        hk = f"cross:{kind}:{o[0] if o[0] != 'raise' else o[1]}"
        hist[hk] = hist.get(hk, 0) + 1
    run.cov["outcome_histogram"] = dict(sorted(hist.items()))
    run.cov["cross_grammar_cases"] = {"grammars": len(XGRAMMARS), "cases": len(xcases),
                                      "replacements": sum(1 for m in xmeta if m[3][0] == "assign")}
    xlangs = "[" + "; ".join(f"({g_str(nt)}, ({lib.g_list(ps, g_str)}, {g_str(cs)}, {g_nat(mn)}, {g_str(suf)}))"
                             for nt, (ps, cs, mn, suf) in XLANGS.items()) + "]"
    xdefs = (TREE_PRELUDE + label_defs()
             + "".join(f"Definition {nm} := {lit}.\n" for nm, lit, _ in _TREE_DEFS.values())
             + "Definition XGS : list grammar := [" + "; ".join(g_grammar(c) for c in XCANON) + "].\n"
             + f"Definition XLANGS := {xlangs}.\nDefinition FX := true.\n"
             + "Definition XG (i : nat) := nth i XGS [].\n"
             + "Definition XFUEL (i : nat) := fuel_bound (sct (XG i)) 14 + 40.\n")
    ok_x = ("fun c : nat * (call * iout) => let g := XG (fst c) in let cl := fst (snd c) in let io := snd (snd c) in "
            "agrees g (charset_lang XLANGS) (pre_eval FX cl) io "
            "&& agrees_full (sem_eval_earley false false (XFUEL (fst c)) g FX cl) io")
    try:
        badx, dtx = lib.coq_mismatches("c20x", "SemPreds SemPredsParser Earley EarleyFuel", ok_x, xcases, shard=200,
                                       extra_defs=xdefs)
        run.cov["coq_seconds_cross"] = round(dtx, 1)
        for i in badx:
            gi, kind, args, o, v = xmeta[i]
            disagreements.append({"pred": kind, "grammar": XGRAMMARS[gi], "args": [j_arg(a) for a in args],
                                  "impl": j_out(o), "model": "", "spec": v, "stage": "cross-grammar",
                                  "_raw": (kind, args, o)})
    except RuntimeError as e:
        run.violation({"kind": "correspondence-not-evaluable", "obligation": "SemPreds.v / SemPredsParser.v cross-grammar cases",
                       "error": str(e)[-2000:]}, found_input=False)

    # ---- the property itself on every observed outcome (spec-side oracle, independent of the model) ----
    prop_fail = []
    for kind, args, o in meta:
        v = spec_verdict(kind, args, o)
        if v is False:
            prop_fail.append((kind, args, o))
    unknown_fail = []
    for kind, args, o in prop_fail:
        ent = next((e for e in findings.values() if in_known_class(e, kind, args)), None)
        if ent is not None:
            run.known(ent["what"])
        else:
            unknown_fail.append({"pred": kind, "args": [j_arg(a) for a in args], "impl": j_out(o), "spec": False})
    run.cov["property_failures_in_known_classes"] = len(prop_fail) - len(unknown_fail)
    for gi, kind, args, o, v in xmeta:      # cross-grammar stream: no known class applies (widths >= 0, no octal)
        if v is False:
            unknown_fail.append({"pred": kind, "grammar": XGRAMMARS[gi], "args": [j_arg(a) for a in args],
                                 "impl": j_out(o), "spec": False, "stage": "cross-grammar"})

    # replay the witnesses of the open findings (KNOWN-FINDING only while the defect is present)
    for e in findings.values():
        w = e["witness"]
        args = [arg_from_json(a) if not (isinstance(a, dict) and "parse" in a) else parse(a["parse"][0], a["parse"][1])
                for a in w["args"]]
        o = observe(w["pred"], args)
        if spec_verdict(w["pred"], args, o) is False:
            run.known(e["what"])

    run.cov["disagreements_checked"] = len(disagreements)
    for d in disagreements:
        d.pop("_raw")
    failing = [d for d in disagreements if d["spec"] is False] + unknown_fail
    if failing:
        failing.sort(key=lambda d: len(json.dumps(d, default=str)))
        run.violation({"kind": "implementation departs from the documented relation", "witness": failing[0],
                       "all_failing": len(failing), "how_to_replay": "./check C20 --replay <this file>",
                       "theorem": "Props/C20.v (model = spec) + correspondence"})
    elif disagreements:
        run.violation({"kind": "correspondence broken but the property holds on the differing inputs",
                       "first": disagreements[0], "n": len(disagreements),
                       "obligation": "correspondence SemPreds.v pre_eval / SemPredsParser.v mk_parse <-> isla_predicates.py (count/crop/just/octal_to_dec, mk_parser)"},
                      found_input=False)
    if not proof_ok:
        run.violation({"kind": "proof obligation failed", "problems": run.proof_problems,
                       "obligation": "Props/C20.v"}, found_input=False)
    run.cov["trusted_base"] = lib.TRUSTED_BASE_COMMON + [
        "parser: the *_earley theorems use the Earley MODEL of C10 (Grammar/Earley.v, tied to isla/parser.py by C10's "
        "check) through mk_parse (SemPredsParser.v, tied to isla_predicates.mk_parser by the end-to-end stage of this "
        "run: same outcome and same replacement tree on the small cases); every other observed replacement tree is "
        "checked by the verified wf_treeb + closedb + yield equality",
        "independent description of the nonterminal languages of the harness grammar (LANGS), cross-checked against "
        "EarleyParser each run, judges SyntaxError outcomes",
        "string model restricted to code points < 256 (int() on other Unicode digits/whitespace not modelled)",
        "DerivationTree.is_complete / __str__ / filter modelled by is_openT / yield / structural count (tied by this run)"]


def replay(path):
    d = json.load(open(path))
    w = d.get("witness")
    if not w:
        print("replay file names an obligation, not an input:", d.get("obligation")); return 1
    args = [arg_from_json(a) for a in w["args"]]
    o = observe(w["pred"], args)
    v = spec_verdict(w["pred"], args, o)
    print("impl:", j_out(o), "conforms to the documented relation:", v)
    return 1 if v is False else 0
