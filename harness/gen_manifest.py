#!/usr/bin/env python3
"""(Re)generate /verif/MANIFEST.json from harness/meta/*.json and properties.jsonl."""
import json, os
V = os.path.dirname(os.path.dirname(os.path.abspath(__file__)))
props = [json.loads(l) for l in open(os.path.join(V, "properties.jsonl"))]
na = json.load(open(os.path.join(V, "harness/meta/not_applicable.json")))
checks, not_app = [], []
for p in props:
    pid = p["id"]
    mp = os.path.join(V, "harness/meta", pid + ".json")
    if os.path.exists(mp) and os.path.exists(os.path.join(V, "harness", pid.lower() + ".py")):
        m = json.load(open(mp))
        checks.append({
            "property_id": pid,
            "quick_cmd": f"./check {pid} --tier quick",
            "thorough_cmd": f"./check {pid} --tier thorough",
            "evidence_file": f"/verif/evidence/{pid}.json",
            "replay_cmd_template": f"./check {pid} --replay {{path}}",
            "engine": "rocq-model+correspondence",
            "level_claimed": {"category": "proof", "text": m["level_text"], "design_ref": m.get("design_ref", "DESIGN.md §6")},
            "level_note": m["level_note"],
            "technique": m["technique"],
        })
    elif pid in na:
        not_app.append({"property_id": pid, "reason": na[pid]})
    else:
        not_app.append({"property_id": pid, "reason": "not claimed yet: the Rocq model/theorems/correspondence for this property are not built in this commit (planned, DESIGN.md §10)"})
man = {
    "version": 1,
    "setup_cmd": "./setup.sh",
    "hooks": {
        "guard": "ISLA_VERIF",
        "enable": "no source hooks: checks import /repo/src directly (PYTHONPATH=/repo/src) and call public entry points; ISLA_VERIF=1 is exported by ./check but read by nothing in /repo",
        "baseline_off_cmd": "cd /repo && /venv/bin/python -m pytest -ra -q -p no:cacheprovider --timeout=900 --continue-on-collection-errors",
        "source_commits": [],
        "add_only": True,
    },
    "engines": [{
        "name": "rocq-model+correspondence", "path": "/verif/coq + /verif/harness",
        "serves_properties": [c["property_id"] for c in checks],
        "kind_free_text": "Coq 8.16.1 development (hand-written Gallina models, specs, theorems; Props/<id>.v hold only the property theorems with Print Assumptions) + Python correspondence harness that runs the implementation in /repo and the model (vm_compute inside coqc) on the same inputs",
    }],
    "checks": checks,
    "not_applicable": not_app,
    "notes": "See DESIGN.md. known_findings.json lists recorded (open) and fixed defects; `fix:` commits in /repo are listed there with their hashes.",
}
json.dump(man, open(os.path.join(V, "MANIFEST.json"), "w"), indent=1)
# known_findings.json = union of harness/meta/*.findings.json (committed; never written at check time)
import glob
findings = []
for f in sorted(glob.glob(os.path.join(V, "harness/meta/*.findings.json"))):
    findings += json.load(open(f))
json.dump({"_comment": "Genuine defects of rindPHI/isla found by the checks (generated from harness/meta/*.findings.json by harness/gen_manifest.py; never modified at check time). status=open: recorded; the check prints 'KNOWN-FINDING: property=<id> <what>' for exactly this class/witness and exits 0. status=fixed: repaired by a fix: commit in /repo ('fixed_line'); suppresses nothing.",
           "findings": findings}, open(os.path.join(V, "known_findings.json"), "w"), indent=1)
print("checks:", [c["property_id"] for c in checks], "not_applicable:", len(not_app))
