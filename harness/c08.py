"""C08 — simplified syntax means exactly its documented core translation.

Two ties (DESIGN.md §6 C08):
 (i)  AST: parse_isla(sugar text) == Logic/Sugar.v `elab` of the surface AST (evaluated in Coq, strict
      structural equality, fresh names included);
 (ii) the property's observable: evaluate(parse_isla(sugar)) == evaluate(parse_isla(core)) where `core` is the
      hand expansion of the sugar following the WORDING of sphinx/islaspec.rst (python function elab_doc below,
      written independently of ISLa's algorithm: wrap the whole formula in `forall`, no push-in).
Disagreements of (ii) are classified: class K_pushin_empty (sugar FALSE or raising, documented core TRUE, and some universally
closed variable has an empty domain) is the recorded open finding; everything else is a VIOLATION."""
import json, random, itertools, re
import z3
import lib
from lib import g_str, g_nat, g_list, g_grammar
from isla.language import (parse_isla, unparse_isla, SMTFormula, StructuralPredicateFormula, NegatedFormula,
                           ConjunctiveFormula, DisjunctiveFormula, ForallFormula, ExistsFormula, Constant,
                           DummyVariable, BoundVariable, SemanticPredicateFormula, ForallIntFormula, ExistsIntFormula)
from isla.isla_predicates import STANDARD_STRUCTURAL_PREDICATES as SP, STANDARD_SEMANTIC_PREDICATES as MP
from isla.evaluator import evaluate
from isla.derivation_tree import DerivationTree
from isla.helpers import canonical

# ------------------------------------------------------------------ grammars
GRAMMARS = [
    {"<start>": ["<s>"], "<s>": ["<a>", "<a><b>"], "<a>": ["x", "z"], "<b>": ["y", "w"]},
    {"<start>": ["<s>"], "<s>": ["<a><a>", "<a><b><a>", "<b>"], "<a>": ["x", "<b>x"], "<b>": ["y", "yy"]},
    {"<start>": ["<l>"], "<l>": ["<i>", "<i>,<l>"], "<i>": ["<a>=<b>", "<b>"], "<a>": ["x", "z"], "<b>": ["y", "<a>y"]},
    {"<start>": ["<s>"], "<s>": ["<t><u>", "<u>"], "<t>": ["<a><a>", "<a>"], "<u>": ["<b>", "<t>y"],
     "<a>": ["x", "z"], "<b>": ["y", "w"]},
    {"<start>": ["<s>"], "<s>": ["<a>;<s>", "<c>"], "<a>": ["x", "y", "<c>z"], "<c>": ["w", ""], },
    {"<start>": ["<t>"], "<t>": ["<row>", "<row>;<t>"], "<row>": ["<d>", "<d>-<d>", "<d><row>"], "<d>": ["0", "1", "2"]},
]
NEEDLES = sorted({k for g in GRAMMARS for k in g})
# atoms that only occur in positive polarity (infix chains, atoms over numeric variables): payload 1000+i, identified
# by the canonical form of the z3 term that z3 itself builds from the HAND-EXPANDED core S-expression
CHAINS, CHAIN_ID = [], {}


def canon_z3(e, names):
    if z3.is_const(e) and e.decl().kind() == z3.Z3_OP_UNINTERPRETED:
        names.append(str(e))
        return "$"
    if not e.children():
        return e.sexpr()
    return "(" + e.decl().name() + " " + " ".join(canon_z3(c, names) for c in e.children()) + ")"


def register_chain(sugar_tmpl, core_tmpl, nslots):
    """templates use @i@ for the i-th term slot; returns payload id or None"""
    txt = core_tmpl
    for i in range(nslots):
        txt = txt.replace(f"@{i}@", f"s{i}")
    try:
        e = z3.parse_smt2_string(f"(assert {txt})", decls={f"s{i}": z3.String(f"s{i}") for i in range(nslots)})[0]
    except z3.Z3Exception:
        return None
    names = []
    c = canon_z3(e, names)
    if names != [f"s{i}" for i in range(nslots)]:
        return None
    if c not in CHAIN_ID:
        CHAIN_ID[c] = len(CHAINS)
        CHAINS.append({"sugar": sugar_tmpl, "core": core_tmpl, "canon": c, "nslots": nslots})
    idx = CHAIN_ID[c]
    if CHAINS[idx]["core"] != core_tmpl:
        return None     # same z3 term from a different text: keep one text per payload
    # several sugar texts for one core are fine: the text travels with the atom (f[4])
    return 1000 + idx


def fill(tmpl, ts):
    for i, t in enumerate(ts):
        tmpl = tmpl.replace(f"@{i}@", t)
    return tmpl

LITS = ["x", "y", "z", "w", "xy", "yy", "xz"]
PREDS = ["inside", "before", "same_position"]


def nts_of(g):
    return [k for k in g if k != "<start>"]


def min_cost(cg):
    cost = {k: 10 ** 6 for k in cg}
    changed = True
    while changed:
        changed = False
        for k, alts in cg.items():
            for alt in alts:
                c = 1 + sum(cost.get(s, 0) for s in alt)
                if c < cost[k]:
                    cost[k] = c
                    changed = True
    return cost


def derive(rng, cg, cost, sym, depth):
    if sym not in cg:
        return DerivationTree(sym, [])
    alts = cg[sym]
    if depth <= 0:
        m = min(1 + sum(cost.get(s, 0) for s in a) for a in alts)
        alts = [a for a in alts if 1 + sum(cost.get(s, 0) for s in a) == m]
    alt = rng.choice(alts)
    return DerivationTree(sym, [derive(rng, cg, cost, s, depth - 1) for s in alt])


# ------------------------------------------------------------------ surface formulas
# terms: ('var', n) | ('free', T) | ('xp', ((root,0),(t,i),...), ...segments)
# formulas: ('atom', smt, id, [terms], syn) ('not', f) (op, a, b) ('q', fa, T, name|None, in, body)
#   in: None | ('name', n) | ('type', T)
def steps_from(rng, cg, ty, maxlen):
    """random valid child-axis chain below type ty: list of (nonterminal, index)"""
    out = []
    cur = ty
    for _ in range(rng.randint(1, maxlen)):
        cands = []
        for alt in cg.get(cur, []):
            for s in set(alt):
                if s in cg:
                    for i in range(alt.count(s)):
                        cands.append((s, i))
        if not cands:
            break
        st = rng.choice(sorted(set(cands)))
        out.append(st)
        cur = st[0]
    return out


class Gen:
    def __init__(self, rng, g):
        self.rng, self.g, self.cg = rng, g, {k: [tuple(a) for a in v] for k, v in canonical(g).items()}
        self.nts = nts_of(g)
        self.xp_of_root = {}
        self.cnt = 0
        self.bad_scope = rng.random() < 0.04
        self.user_names = set()

    def user_name(self, T, prefix):
        """name written by the user for a quantifier / match-expression variable of type T.  One third of the names
        are taken from the name space the elaboration itself draws from (`d`, `d_0`, `d_1` for <d>): this is what
        makes the bookkeeping of used names observable (name capture)"""
        rng = self.rng
        self.cnt += 1
        if rng.random() < 0.35:
            nm = T[1:-1] + rng.choice(["", "", "_0", "_1"])
            if nm not in self.user_names and nm != "start":
                self.user_names.add(nm)
                return nm
        nm = prefix + T[1:-1] + str(self.cnt)
        self.user_names.add(nm)
        return nm

    # ---------------- infix chains (positive polarity only)
    def int_operand(self, slots, depth=0):
        rng = self.rng
        r = rng.random()
        if r < 0.35:
            i = len(slots); slots.append(None)
            return rng.choice([f"str.to.int(@{i}@)", f"(str.to.int @{i}@)"]), f"(str.to.int @{i}@)"
        if r < 0.6:
            i = len(slots); slots.append(None)
            return rng.choice([f"str.len(@{i}@)", f"(str.len @{i}@)"]), f"(str.len @{i}@)"
        if r < 0.9 or depth > 0:
            k = rng.choice([1, 2, 3, 1, 2, 0, -1])
            return str(k), str(k)
        op = rng.choice(["+", "-", "*"])
        a, b = self.int_operand(slots, 1), self.int_operand(slots, 1)
        return f"({op} {a[1]} {b[1]})", f"({op} {a[1]} {b[1]})"     # S-expression operand inside an infix chain

    def chain_atom(self, scope):
        rng = self.rng
        slots = []
        n = rng.randint(3, 5)
        if rng.random() < 0.2:
            # string chain with str.++
            opnds = []
            for _ in range(n):
                if rng.random() < 0.6 or not slots:
                    i = len(slots); slots.append(None)
                    opnds.append(f"@{i}@")
                else:
                    opnds.append('"' + rng.choice(["x", "y", "-", "1"]) + '"')
            sugar = " str.++ ".join(opnds)
            core = opnds[0]
            for o in opnds[1:]:
                core = f"(str.++ {core} {o})"
            lit = '"' + rng.choice(["xy", "1-2", "x", "11"]) + '"'
            sugar, core = f"{sugar} = {lit}", f"(= {core} {lit})"
        else:
            opnds = [self.int_operand(slots) for _ in range(n)]
            mode = rng.random()
            if mode < 0.45:
                ops = [rng.choice(["+", "-"]) for _ in range(n - 1)]
            elif mode < 0.8:
                ops = [rng.choice(["*", "div", "mod"]) for _ in range(n - 1)]
            else:
                ops = [rng.choice(["+", "-", "*", "div"]) for _ in range(n - 1)]
            sugar = opnds[0][0]
            for o, x in zip(ops, opnds[1:]):
                sugar += f" {o} {x[0]}"
            # documented core: * div mod bind tighter than + -, both levels nest to the left
            prods, cur = [], opnds[0][1]
            addops = []
            for o, x in zip(ops, opnds[1:]):
                if o in ("*", "div", "mod"):
                    cur = f"({o} {cur} {x[1]})"
                else:
                    prods.append(cur); addops.append(o); cur = x[1]
            prods.append(cur)
            core = prods[0]
            for o, x in zip(addops, prods[1:]):
                core = f"({o} {core} {x})"
            rel = rng.choice(["=", ">=", "<=", ">", "<"])
            k = rng.choice([0, 1, 2, 3, 4])
            sugar, core = f"{sugar} {rel} {k}", f"({rel} {core} {k})"
        if not slots:
            return None
        aid = register_chain(sugar, core, len(slots))
        if aid is None:
            return None
        return ('atom', True, aid, [self.term(scope) for _ in slots], sugar)

    def int_formula(self, scope, pol):
        """exists int n: count(T, "<needle>", n) [and str.to.int(n) REL k]"""
        rng = self.rng
        self.cnt += 1
        n = f"n{self.cnt}"
        needle = rng.choice(self.nts)
        body = ('atom', False, 100 + NEEDLES.index(needle), [self.term(scope), ('var', n)], 0)
        if pol == 2 and rng.random() < 0.5:
            rel, k = rng.choice([">=", "<=", "=", ">"]), rng.choice([0, 1, 2])
            sugar = rng.choice([f"str.to.int(@0@) {rel} {k}", f"({rel} (str.to.int @0@) {k})"])
            aid = register_chain(sugar, f"({rel} (str.to.int @0@) {k})", 1)
            if aid is not None:
                extra = ('atom', True, aid, [('var', n)], sugar)
                body = ('and', body, extra) if rng.random() < 0.7 else ('and', extra, body)
        return ('int', False, n, body)

    def capture_formula(self):
        """name-capture scenario: (un)named quantifier whose match expression binds a variable called like the
        name the elaboration would invent (`d` for <d>), and a free nonterminal / XPath result of that type
        inside and outside its scope"""
        rng = self.rng
        cands = [T for T in self.nts if any(any(s_ in self.cg for s_ in a) and a and "" not in a for a in self.cg[T])]
        T = rng.choice(cands)
        me, mbound = self.mexpr(T, force=True)
        if not mbound:
            return self.formula(2, [])
        mv = rng.choice(mbound)
        U = mv[2]
        named = rng.random() < 0.4
        name = self.user_name(T, "v") if named else None
        sc = [('name', name, T, True) if named else ('anon', T, True)] + mbound
        inner = ('atom', True, 50, [('var', mv[1]), ('free', U)], rng.randrange(2))
        if rng.random() < 0.5:
            inner = (rng.choice(['and', 'or']), inner, self.atom(sc, 1))
        f = ('q', rng.random() < 0.5, T, name, None, inner, me)
        r = rng.random()
        if r < 0.35:
            f = (rng.choice(['and', 'or']), f, ('atom', True, 1 + rng.randrange(len(LITS)), [('free', U)], 0))
        elif r < 0.6:
            # XPath whose result has type U, rooted at another free nonterminal
            roots = [R for R in self.nts if R != T and any(U in a for a in self.cg[R])]
            if roots:
                R = rng.choice(roots)
                alt = rng.choice([a for a in self.cg[R] if U in a])
                xp = ('xp', ((R, 0), (U, rng.randrange(alt.count(U)))))
                f = (rng.choice(['and', 'or']), ('atom', True, 1 + rng.randrange(len(LITS)), [xp], 0), f)
        return f

    def mexpr(self, T, force=False):
        """user-written match expression for a quantifier over T: (elements, bound scope entries)"""
        rng = self.rng
        alts = [a for a in self.cg.get(T, []) if any(s in self.cg for s in a) and "" not in a]
        if not alts:
            return None, []
        leaves = list(rng.choice(alts))
        if rng.random() < 0.25:      # second level
            idx = [i for i, s in enumerate(leaves) if s in self.cg]
            i = rng.choice(idx)
            sub = [a for a in self.cg[leaves[i]] if a and "" not in a]
            if sub:
                leaves = leaves[:i] + list(rng.choice(sub)) + leaves[i + 1:]
        # merge adjacent terminal tokens (the text is re-tokenised by RE_NONTERMINAL)
        toks = []
        for l in leaves:
            if toks and toks[-1] not in self.cg and l not in self.cg:
                toks[-1] += l
            else:
                toks.append(l)
        me, bound = [], []
        for t in toks:
            if t in self.cg and (rng.random() < 0.6 or (force and not bound)):
                nm = t[1:-1] + rng.choice(["", "", "_0"]) if force else None
                if nm is None or nm in self.user_names:
                    nm = self.user_name(t, "m")
                else:
                    self.user_names.add(nm)
                me.append(('b', t, nm))
                bound.append(('name', nm, t, True))
            else:
                me.append(('d', t))
        return me, bound

    def term(self, scope):
        """scope: list of ('name', n, T) | ('anon', T)"""
        rng = self.rng
        r = rng.random()
        roots = [(s[1], s[2], ('var', s[1]), s[3]) for s in scope if s[0] == 'name'] + \
                [(s[1], s[1], ('free', s[1]), s[2]) for s in scope if s[0] == 'anon']
        if r < 0.30 or not roots:
            # a free nonterminal; prefer the types of variables in scope (name capture is the interesting case)
            cand = [x[1] for x in roots if not any(s[0] == 'anon' and s[1] == x[1] for s in scope)]
            T = rng.choice(cand) if cand and rng.random() < 0.5 else rng.choice(self.nts)
            hit = [x for x in roots if x[0] == T]
            root = hit[0] if hit else (T, T, ('free', T), False)
        else:
            root = rng.choice(roots)
        if self.bad_scope and rng.random() < 0.3:
            return ('var', 'v' + rng.choice(self.nts)[1:-1] + '9')
        if rng.random() < 0.55 or root[3]:
            return root[2]
        key = root[0]
        if key in self.xp_of_root:
            return self.xp_of_root[key]
        # new xpath below root (type root[1])
        segs = None
        kind = rng.random()
        if kind < 0.6:
            st = steps_from(rng, self.cg, root[1], 2)
            if st:
                segs = (((key, 0),) + tuple(st),)
        elif kind < 0.8:
            T2 = rng.choice(self.nts)
            segs = (((key, 0),), ((T2, 0),))
        else:
            st = steps_from(rng, self.cg, root[1], 1)
            if st:
                segs = (((key, 0),) + tuple(st), ((rng.choice(self.nts), 0),))
        if segs is None:
            return root[2]
        t = ('xp',) + segs
        self.xp_of_root[key] = t
        return t

    def atom(self, scope, pol=0):
        rng = self.rng
        r = rng.random()
        if pol == 2 and r < 0.22:     # never negated: z3.simplify (SMTFormula.__neg__) would rewrite the arithmetic
            a = self.chain_atom(scope)
            if a is not None:
                return a
        if r < 0.5:
            return ('atom', True, 1 + rng.randrange(len(LITS)), [self.term(scope)], rng.randrange(2))
        if r < 0.6:
            t1, t2 = self.term(scope), self.term(scope)
            if t1 != t2:   # `not (x = x)`: z3.simplify folds the negated atom to False and SMTFormula asserts
                return ('atom', True, 50, [t1, t2], rng.randrange(2))
            return ('atom', True, 1 + rng.randrange(len(LITS)), [t1], rng.randrange(2))
        if r < 0.75:
            return ('atom', True, 60 + rng.randrange(5), [self.term(scope)], rng.randrange(3))
        if r < 0.82:
            return ('atom', True, 70 + rng.randrange(1, 3), [self.term(scope)], rng.randrange(3))
        return ('atom', False, rng.randrange(len(PREDS)), [self.term(scope), self.term(scope)], 0)

    def formula(self, depth, scope, pol=2):
        """pol: 2 = positive and below no negation at all, 1 / -1 = polarity, 0 = below iff/xor (both)"""
        rng = self.rng
        r = rng.random()
        if depth <= 0 or r < 0.22:
            return self.atom(scope, pol)
        if r < 0.29 and pol != 0:     # below iff/xor the hand-expanded core would declare the numeric variable twice
            return self.int_formula(scope, pol)
        if r < 0.37:
            return ('not', self.formula(depth - 1, scope, {2: -1, 1: -1, -1: 1, 0: 0}[pol]))
        if r < 0.70:
            op = rng.choice(['and', 'and', 'or', 'imp', 'iff', 'xor'])
            pl = {'and': pol, 'or': pol, 'imp': {2: -1, 1: -1, -1: 1, 0: 0}[pol]}.get(op, 0)
            pr = {'and': pol, 'or': pol, 'imp': pol}.get(op, 0)
            return (op, self.formula(depth - 1, scope, pl), self.formula(depth - 1, scope, pr))
        fa = rng.random() < 0.5
        T = rng.choice(self.nts)
        me, mbound = (None, [])
        if rng.random() < 0.35:
            me, mbound = self.mexpr(T)
        anon_in_scope = any(s[0] == 'anon' and s[1] == T for s in scope)
        if rng.random() < 0.5 and not anon_in_scope:
            name, sc = None, ('anon', T, me is not None)
        else:
            name = self.user_name(T, "v")
            sc = ('name', name, T, me is not None)
        r2 = rng.random()
        if r2 < 0.6:
            inn = None
        elif r2 < 0.7:
            inn = ('name', 'start')
        elif r2 < 0.85 and any(s[0] == 'name' for s in scope):
            inn = ('name', rng.choice([s[1] for s in scope if s[0] == 'name']))
        elif r2 < 0.93:
            inn = ('type', rng.choice([x for x in self.nts if x != T] + ["<start>"]))
        else:
            inn = None
        body = self.formula(depth - 1, scope + [sc] + mbound, pol)
        if name is None:
            self.xp_of_root.pop(T, None)   # the anonymous binder ends here
        else:
            self.xp_of_root.pop(name, None)
        return ('q', fa, T, name, inn, body, me)


# ------------------------------------------------------------------ printers
def p_term(t):
    if t[0] == 'var':
        return t[1]
    if t[0] == 'free':
        return t[1]
    segs = []
    for seg in t[1:]:
        segs.append(".".join(n + ("" if i == 0 else f"[{i + 1}]") for n, i in seg))
    return "..".join(segs)


# lexical variation of the SUGAR text only (the core text stays canonical): LEX is a random.Random or None
LEX = None


def ws(must=False):
    """legal token separator: blanks, tabs, newlines, line comments (`#...` up to end of line)"""
    if LEX is None:
        return " " if must else ""
    r = LEX.random()
    if r < 0.45:
        return " " if must else ""
    if r < 0.6:
        return " "
    return LEX.choice(["  ", "\t", "\n", " \n  ", "\r\n", " # c: x\n", "\t\t ", "\n\n"])


def bws(must=False):
    """blanks/tabs inside a match-expression binder (MexprLexer mode VAR_DECL skips [ \\t\\n\\r]+)"""
    if LEX is None:
        return " " if must else ""
    opts = [" ", "  ", "\t", " \t ", "   "] if must else ["", "", " ", "  ", "\t"]
    return LEX.choice(opts)


def p_mexpr(me, vary=False):
    if not vary or LEX is None:
        return '="' + "".join("{%s %s}" % (e[1], e[2]) if e[0] == 'b' else e[1] for e in me) + '"'
    return '=' + ws() + '"' + "".join("{" + bws() + e[1] + bws(True) + e[2] + bws() + "}" if e[0] == 'b' else e[1]
                                      for e in me) + '"'


def par(txt):
    """optional extra parentheses around a formula"""
    if LEX is not None and LEX.random() < 0.15:
        return "(" + ws() + txt + ws() + ")"
    return txt


def p_pred(aid, ts):
    if aid >= 100:
        return f'count({ts[0]}, "{NEEDLES[aid - 100]}", {ts[1]})'
    return f"{PREDS[aid]}({', '.join(ts)})"


def p_atom_smt(aid, ts, syn, core):
    if aid >= 1000:
        return fill(CHAINS[aid - 1000]["core"] if core else syn, ts)
    a = ts[0]
    if 1 <= aid < 50:
        lit = '"' + LITS[aid - 1] + '"'
        return f'(= {a} {lit})' if (core or syn == 1) else f'{a} = {lit}'
    if aid == 50:
        return f'(= {a} {ts[1]})' if (core or syn == 1) else f'{a} = {ts[1]}'
    if 60 <= aid < 70:
        n = aid - 61
        if core:
            return f'(= (str.len {a}) {n})'
        return [f'str.len({a}) = {n}', f'(= (str.len {a}) {n})', f'(= str.len({a}) {n})'][syn]
    n = aid - 70
    if core:
        return f'(>= (str.len {a}) {n})'
    return [f'str.len({a}) >= {n}', f'(>= (str.len {a}) {n})', f'(str.len({a}) >= {n})'][syn]


def p_sugar(f):
    k = f[0]
    if k == 'atom':
        ts = [p_term(t) for t in f[3]]
        if f[1]:
            return p_atom_smt(f[2], ts, f[4], False)
        return p_pred(f[2], ts)
    if k == 'not':
        return par(f"not{ws(True)}({ws()}{p_sugar(f[1])}{ws()})")
    if k == 'int':
        return par(f"{'forall' if f[1] else 'exists'}{ws(True)}int{ws(True)}{f[2]}{ws()}:{ws()}({p_sugar(f[3])})")
    if k == 'q':
        _, fa, T, name, inn, body, me = f
        s = ("forall" if fa else "exists") + ws(True) + T + (ws(True) + name if name else "")
        if me is not None:
            s += (ws(True) if not name else ws()) + p_mexpr(me, True)
        if inn:
            s += ws(True) + "in" + ws(True) + inn[1]
        return par(f"{s}{ws()}:{ws()}({ws()}{p_sugar(body)}{ws()})")
    op = {'and': 'and', 'or': 'or', 'imp': 'implies', 'iff': 'iff', 'xor': 'xor'}[k]
    return f"(({p_sugar(f[1])}){ws(True)}{op}{ws(True)}({p_sugar(f[2])}))"


# core formulas (python): ('atom', smt, id, [names]) ('not',f) ('and',a,b) ('or',a,b)
#   ('q', fa, T, name, in_name, mexpr|None, body)   mexpr: list of ('b', T, name) | ('d', text)
def p_core(f):
    k = f[0]
    if k == 'atom':
        if f[1]:
            return p_atom_smt(f[2], f[3], 1, True)
        return p_pred(f[2], f[3])
    if k == 'not':
        return f"not ({p_core(f[1])})"
    if k == 'int':
        return f"{'forall' if f[1] else 'exists'} int {f[2]}: ({p_core(f[3])})"
    if k == 'q':
        _, fa, T, name, inn, me, body = f
        s = ("forall " if fa else "exists ") + T + " " + name
        if me is not None:
            s += p_mexpr(me)
        return f"{s} in {inn}: ({p_core(body)})"
    return f"(({p_core(f[1])}) {k} ({p_core(f[2])}))"


# ------------------------------------------------------------------ elab_doc: the documented translation
class DocElab:
    """islaspec.rst, section 'Simplified Syntax', transcribed:
       * omitted `in` = `in start`
       * unnamed quantifier: fresh name, occurrences of <type> in its body replaced by the name
       * free nonterminal <type>: whole formula wrapped in `forall <type> name in start:`
       * implies/iff/xor: their propositional meaning over not/and/or
       * XPath: first segment -> match expression on the quantifier of its first variable, conjunction (forall)
         / disjunction (exists) over all expansions with enough occurrences; `..` -> universal quantifier
         `forall <type> y in x` directly inside that quantifier."""

    def __init__(self, cg):
        self.cg = cg
        self.k = 0

    def fresh(self, T):
        self.k += 1
        return f"d{T[1:-1]}{self.k}"

    # --- substitute a nonterminal (free occurrences) by a name
    def subst_t(self, t, T, name):
        if t[0] == 'free' and t[1] == T:
            return ('var', name)
        if t[0] == 'xp' and t[1][0][0] == T:
            return ('xp', ((name, 0),) + t[1][1:]) + t[2:]
        return t

    def subst(self, f, T, name):
        k = f[0]
        if k == 'atom':
            return ('atom', f[1], f[2], [self.subst_t(t, T, name) for t in f[3]], f[4])
        if k == 'not':
            return ('not', self.subst(f[1], T, name))
        if k == 'int':
            return f[:3] + (self.subst(f[3], T, name),)
        if k == 'q':
            _, fa, T2, nm, inn, body, me = f
            inn2 = ('name', name) if inn == ('type', T) else inn
            if nm is None and T2 == T:
                return ('q', fa, T2, nm, inn2, body, me)   # shadowed
            return ('q', fa, T2, nm, inn2, self.subst(body, T, name), me)
        return (k, self.subst(f[1], T, name), self.subst(f[2], T, name))

    def name_quantifiers(self, f):
        k = f[0]
        if k == 'atom':
            return f
        if k == 'not':
            return ('not', self.name_quantifiers(f[1]))
        if k == 'int':
            return f[:3] + (self.name_quantifiers(f[3]),)
        if k == 'q':
            _, fa, T, nm, inn, body, me = f
            if nm is None:
                nm = self.fresh(T)
                body = self.subst(body, T, nm)
            return ('q', fa, T, nm, inn, self.name_quantifiers(body), me)
        return (k, self.name_quantifiers(f[1]), self.name_quantifiers(f[2]))

    def free_nts(self, f, acc):
        k = f[0]
        if k == 'atom':
            for t in f[3]:
                if t[0] == 'free' and t[1] not in acc:
                    acc.append(t[1])
                if t[0] == 'xp' and t[1][0][0].startswith("<") and t[1][0][0] not in acc:
                    acc.append(t[1][0][0])
        elif k == 'not':
            self.free_nts(f[1], acc)
        elif k == 'int':
            self.free_nts(f[3], acc)
        elif k == 'q':
            if f[4] and f[4][0] == 'type' and f[4][1] != "<start>" and f[4][1] not in acc:
                acc.append(f[4][1])
            self.free_nts(f[5], acc)
        else:
            self.free_nts(f[1], acc)
            self.free_nts(f[2], acc)
        return acc

    def xpaths_rooted(self, f, name, acc):
        k = f[0]
        if k == 'atom':
            for t in f[3]:
                if t[0] == 'xp' and t[1][0][0] == name and t not in acc:
                    acc.append(t)
        elif k == 'not':
            self.xpaths_rooted(f[1], name, acc)
        elif k == 'int':
            self.xpaths_rooted(f[3], name, acc)
        elif k == 'q':
            self.xpaths_rooted(f[5], name, acc)
        else:
            self.xpaths_rooted(f[1], name, acc)
            self.xpaths_rooted(f[2], name, acc)
        return acc

    def repl_term(self, f, old, new):
        k = f[0]
        if k == 'atom':
            return ('atom', f[1], f[2], [new if t == old else t for t in f[3]], f[4])
        if k == 'not':
            return ('not', self.repl_term(f[1], old, new))
        if k == 'int':
            return f[:3] + (self.repl_term(f[3], old, new),)
        if k == 'q':
            return f[:5] + (self.repl_term(f[5], old, new),) + f[6:]
        return (k, self.repl_term(f[1], old, new), self.repl_term(f[2], old, new))

    def expansions(self, T, steps):
        """all (leaves, index) of partial derivations of T following the child-axis chain"""
        res = [([T], 0)]
        for nt, pos in steps:
            nxt = []
            for leaves, cur in res:
                for alt in self.cg.get(leaves[cur], []):
                    occ = [i for i, s in enumerate(alt) if s == nt]
                    if len(occ) > pos:
                        nxt.append((leaves[:cur] + list(alt) + leaves[cur + 1:], cur + occ[pos]))
            res = nxt
        return res

    def core(self, f):
        """surface (all quantifiers named, no free nonterminals) -> core"""
        k = f[0]
        if k == 'atom':
            names = []
            for t in f[3]:
                if t[0] != 'var':
                    raise ValueError(f"unresolved term {t}")
                names.append(t[1])
            return ('atom', f[1], f[2], names)
        if k == 'not':
            return ('not', self.core(f[1]))
        if k == 'and' or k == 'or':
            return (k, self.core(f[1]), self.core(f[2]))
        if k == 'imp':
            return ('or', ('not', self.core(f[1])), self.core(f[2]))
        if k == 'iff':
            a, b = self.core(f[1]), self.core(f[2])
            return ('or', ('and', a, b), ('and', ('not', a), ('not', b)))
        if k == 'xor':
            a, b = self.core(f[1]), self.core(f[2])
            return ('or', ('and', a, ('not', b)), ('and', ('not', a), b))
        if k == 'int':
            return ('int', f[1], f[2], self.core(f[3]))
        _, fa, T, nm, inn, body, me = f
        inn_name = 'start' if inn is None or inn == ('type', '<start>') else inn[1]
        xps = self.xpaths_rooted(body, nm, [])
        if len(xps) > 1:
            raise ValueError("two XPath expressions on one variable: documentation is silent")
        if me is not None:
            if xps:
                raise ValueError("XPath on a variable that already has a match expression: documentation is silent")
            return ('q', fa, T, nm, inn_name, me, self.core(body))
        if not xps:
            return ('q', fa, T, nm, inn_name, None, self.core(body))
        xp = xps[0]
        seg0, rest = xp[1], xp[2:]
        if len(seg0) == 1:
            # v..<t>
            y = self.fresh(rest[0][0][0])
            body2 = ('q', True, rest[0][0][0], y, ('name', nm), self.repl_term(body, xp, ('var', y)), None)
            return ('q', fa, T, nm, inn_name, None, self.core(body2))
        exps = self.expansions(T, seg0[1:])
        if not exps:
            raise ValueError("no expansion")
        lastT = seg0[-1][0]
        x = self.fresh(lastT)
        if rest:
            y = self.fresh(rest[0][0][0])
            body2 = ('q', True, rest[0][0][0], y, ('name', x), self.repl_term(body, xp, ('var', y)), None)
        else:
            body2 = self.repl_term(body, xp, ('var', x))
        cbody = self.core(body2)
        parts = []
        for j, (leaves, cur) in enumerate(exps):
            me = [('b', lastT, x) if i == cur else ('d', l) for i, l in enumerate(leaves) if i == cur or l != ""]
            # a numeric variable may be declared only once in a specification: rename it in the copies
            parts.append(('q', fa, T, nm, inn_name, me, cbody if j == 0 else rename_ints(cbody, f"c{j}", {})))
        out = parts[0]
        for p in parts[1:]:
            out = ('and' if fa else 'or', out, p)
        return out

    def run(self, f):
        f = self.name_quantifiers(f)
        closed = []
        for T in sorted(self.free_nts(f, [])):
            nm = self.fresh(T)
            f = ('q', True, T, nm, None, self.subst(f, T, nm), None)
            closed.append(T)
        return self.core(f), closed


def rename_ints(f, suffix, env):
    """core formula with the numeric quantifier variables renamed apart (alpha-renaming of the copy)"""
    k = f[0]
    if k == 'atom':
        return ('atom', f[1], f[2], [env.get(n, n) for n in f[3]])
    if k == 'not':
        return ('not', rename_ints(f[1], suffix, env))
    if k == 'int':
        env2 = dict(env, **{f[2]: f[2] + suffix})
        return ('int', f[1], f[2] + suffix, rename_ints(f[3], suffix, env2))
    if k == 'q':
        return f[:6] + (rename_ints(f[6], suffix, env),)
    return (k, rename_ints(f[1], suffix, env), rename_ints(f[2], suffix, env))


def dotdot_targets(f, acc):
    """(root type unknown here) nonterminals quantified through `..`"""
    k = f[0]
    if k == 'atom':
        for t in f[3]:
            if t[0] == 'xp' and len(t) > 2:
                acc.append(t[2][0][0])
    elif k == 'not':
        dotdot_targets(f[1], acc)
    elif k == 'int':
        dotdot_targets(f[3], acc)
    elif k == 'q':
        dotdot_targets(f[5], acc)
    else:
        dotdot_targets(f[1], acc)
        dotdot_targets(f[2], acc)
    return acc


def atom_ids(f, acc):
    k = f[0]
    if k == 'atom':
        acc.append(f[2] if f[1] else -1)
    elif k == 'not':
        atom_ids(f[1], acc)
    elif k == 'int':
        atom_ids(f[3], acc)
    elif k == 'q':
        atom_ids(f[5], acc)
    else:
        atom_ids(f[1], acc); atom_ids(f[2], acc)
    return acc


def mexpr_capture_case(f):
    """a match expression binds a variable of type T and a free nonterminal / XPath result of type T occurs too"""
    bound, invented = set(), set()

    def go(f):
        k = f[0]
        if k == 'atom':
            for t in f[3]:
                if t[0] == 'free':
                    invented.add(t[1])
                if t[0] == 'xp':
                    invented.add(t[-1][-1][0])
        elif k == 'not':
            go(f[1])
        elif k == 'int':
            go(f[3])
        elif k == 'q':
            for e in f[6] or []:
                if e[0] == 'b':
                    bound.add(e[1])
            if f[3] is None:
                invented.add(f[2])
            go(f[5])
        else:
            go(f[1]); go(f[2])
    go(f)
    return bool(bound & invented)


def changes_ast(f):
    """non-trivial = uses at least one sugar form"""
    k = f[0]
    if k == 'atom':
        return any(t[0] != 'var' for t in f[3]) or (f[1] and f[4] != 1)
    if k == 'not':
        return changes_ast(f[1])
    if k == 'int':
        return changes_ast(f[3])
    if k == 'q':
        return f[3] is None or f[4] is None or f[4][0] == 'type' or changes_ast(f[5])
    return k in ('imp', 'iff', 'xor') or changes_ast(f[1]) or changes_ast(f[2])


# ------------------------------------------------------------------ Gallina encoders
def g_xp(t):
    return "[" + "; ".join("[" + "; ".join(f"({g_str(n)}, {i}%nat)" for n, i in seg) + "]" for seg in t[1:]) + "]"


def g_term(t):
    if t[0] == 'var':
        return f"(TVar {g_str(t[1])})"
    if t[0] == 'free':
        return f"(TFree {g_str(t[1])})"
    return f"(TXPath {g_xp(t)})"


def g_sform(f):
    k = f[0]
    if k == 'atom':
        return f"(SAtom {'true' if f[1] else 'false'} {f[2]}%N {g_list(f[3], g_term)})"
    if k == 'not':
        return f"(SNot {g_sform(f[1])})"
    if k == 'int':
        return f"(SInt {'true' if f[1] else 'false'} {g_str(f[2])} {g_sform(f[3])})"
    if k == 'q':
        _, fa, T, nm, inn, body, me = f
        gi = "InDefault" if inn is None else (f"(InName {g_str(inn[1])})" if inn[0] == 'name' else f"(InType {g_str(inn[1])})")
        gn = "None" if nm is None else f"(Some {g_str(nm)})"
        gm = "None" if me is None else "(Some " + g_list(
            me, lambda e: f"(SMB {g_str(e[1])} {g_str(e[2])})" if e[0] == 'b' else f"(SMD {g_str(e[1])})") + ")"
        return f"(SQ {'true' if fa else 'false'} {g_str(T)} {gn} {gi} {gm} {g_sform(body)})"
    c = {'and': 'SAnd', 'or': 'SOr', 'imp': 'SImp', 'iff': 'SIff', 'xor': 'SXor'}[k]
    return f"({c} {g_sform(f[1])} {g_sform(f[2])})"


def g_var(v):
    if isinstance(v, Constant):
        kind = "VConst"
    elif isinstance(v, DummyVariable):
        return f"(MkVar VDummy (@nil N) {g_str(v.n_type)})"
    else:
        kind = "VBound"
    return f"(MkVar {kind} {g_str(v.name)} {g_str(v.n_type)})"


class Undecodable(Exception):
    pass


def dec_atom(e):
    neg = False
    if z3.is_not(e):
        neg, e = True, e.children()[0]
    if z3.is_true(e):
        return neg, 0, []
    if z3.is_false(e):
        return (not neg), 0, []
    ch = e.children()

    def isvar(x):
        return z3.is_const(x) and x.decl().kind() == z3.Z3_OP_UNINTERPRETED

    def intval(x):
        s = z3.simplify(x)
        if not z3.is_int_value(s):
            raise Undecodable(str(e))
        return s.as_long()
    if z3.is_eq(e) and len(ch) == 2:
        l, r = ch
        if isvar(l) and z3.is_string_value(r) and r.as_string() in LITS:
            return neg, 1 + LITS.index(r.as_string()), [str(l)]
        if isvar(l) and isvar(r):
            return neg, 50, [str(l), str(r)]
        if l.decl().kind() == z3.Z3_OP_SEQ_LENGTH and isvar(l.children()[0]):
            return neg, 61 + intval(r), [str(l.children()[0])]
    if e.decl().kind() == z3.Z3_OP_GE and ch[0].decl().kind() == z3.Z3_OP_SEQ_LENGTH and isvar(ch[0].children()[0]):
        return neg, 70 + intval(ch[1]), [str(ch[0].children()[0])]
    names = []
    c = canon_z3(e, names)
    if not neg and c in CHAIN_ID:
        return False, 1000 + CHAIN_ID[c], names
    raise Undecodable(str(e))


def g_cform(f):
    if isinstance(f, SMTFormula):
        neg, aid, names = dec_atom(f.formula)
        byname = {v.name: v for v in f.free_variables()}
        return f"(FSmt (MkAtom {'true' if neg else 'false'} {aid}%N {g_list([byname[n] for n in names], g_var)}))"
    if isinstance(f, SemanticPredicateFormula):
        if f.predicate.name != "count" or not isinstance(f.args[1], str) or f.args[1] not in NEEDLES:
            raise Undecodable(str(f))
        return f"(FSemPred [{100 + NEEDLES.index(f.args[1])}%N] {g_list([f.args[0], f.args[2]], lambda a: '(PVar ' + g_var(a) + ')')})"
    if isinstance(f, (ForallIntFormula, ExistsIntFormula)):
        c = "FForallInt" if isinstance(f, ForallIntFormula) else "FExistsInt"
        return f"({c} {g_var(f.bound_variable)} {g_cform(f.inner_formula)})"
    if isinstance(f, StructuralPredicateFormula):
        return f"(FSPred [{PREDS.index(f.predicate.name)}%N] {g_list(f.args, lambda a: '(PVar ' + g_var(a) + ')')})"
    if isinstance(f, NegatedFormula):
        return f"(FNot {g_cform(f.args[0])})"
    if isinstance(f, ConjunctiveFormula):
        return f"(FAnd {g_list(f.args, g_cform)})"
    if isinstance(f, DisjunctiveFormula):
        return f"(FOr {g_list(f.args, g_cform)})"
    if isinstance(f, (ForallFormula, ExistsFormula)):
        me = "None" if f.bind_expression is None else \
            f"(Some (MkMexpr {g_list(f.bind_expression.bound_elements, g_var)} []))"
        c = "FForall" if isinstance(f, ForallFormula) else "FExists"
        return f"({c} {g_var(f.bound_variable)} (InVar {g_var(f.in_variable)}) {me} {g_cform(f.inner_formula)})"
    raise Undecodable(type(f).__name__)


# ------------------------------------------------------------------ implementation calls
def impl_parse(src, g):
    try:
        return ("ok", parse_isla(src, g, SP, MP))
    except Exception as e:  # the outcome is the observable
        return ("raise", lib.exn_name(e), str(e)[:200])


def impl_eval(f, t, g):
    try:
        return ("ok", str(evaluate(f, t, g)))
    except Exception as e:
        return ("raise", lib.exn_name(e), str(e)[:200])


def count_label(t, T):
    return sum(1 for _, s in t.paths() if s.value == T)


def resolve_chain(node, steps):
    """documented meaning of the child axis: pos-th direct child of that type"""
    cur = node
    for nt, pos in steps:
        ks = [c for c in (cur.children or []) if c.value == nt]
        if len(ks) <= pos:
            return None
        cur = ks[pos]
    return cur


def xp_terms(f, env, pol, acc, path_ok=True):
    """all XPath terms with (root type, binder) ; env: name/anon-type -> (type, fa, polarity, path_ok) where
    path_ok = every quantifier ENCLOSING the binder is effectively universal (push-in can pass through it)"""
    k = f[0]
    if k == 'atom':
        for t in f[3]:
            if t[0] == 'xp':
                r = t[1][0][0]
                b = env.get(r)
                acc.append((t, b[0] if b else r, b))
    elif k == 'not':
        xp_terms(f[1], env, -pol, acc, path_ok)
    elif k == 'int':
        xp_terms(f[3], env, pol, acc, False)
    elif k == 'q':
        _, fa, T, nm, inn, body, me = f
        eff_univ = (fa and pol == 1) or ((not fa) and pol == -1)
        xp_terms(body, dict(env, **{(nm or T): (T, fa, pol, path_ok)}), pol, acc, path_ok and eff_univ)
    elif k == 'imp':
        xp_terms(f[1], env, -pol, acc, path_ok); xp_terms(f[2], env, pol, acc, path_ok)
    elif k in ('iff', 'xor'):
        xp_terms(f[1], env, 0, acc, False); xp_terms(f[2], env, 0, acc, False)
    else:
        xp_terms(f[1], env, pol, acc, path_ok); xp_terms(f[2], env, pol, acc, path_ok)
    return acc


def k_pushin_empty(surface, closed, tree):
    """python mirror of SugarFacts.K_pushin_empty: the domain of some quantifier added by the elaboration (closure of
    a free nonterminal, with the match expressions of its XPath expression; `..` quantifier) is empty"""
    nodes = [s for _, s in tree.paths()]
    doms = [count_label(tree, T) for T in closed]
    for t, rt, binder in xp_terms(surface, {}, 1, []):
        res = [resolve_chain(n, t[1][1:]) for n in nodes if n.value == rt]
        res = [r for r in res if r is not None]
        if binder is None:
            doms.append(len(res))
        if len(t) > 2:
            for r in res:
                doms.append(count_label(r, t[2][0][0]))
    return any(d == 0 for d in doms), doms


def k_xpath_dup(surface):
    """an XPath expression whose first variable is bound by a quantifier inside an operand of iff/xor: the operand
    is duplicated, the copies are renamed apart, the XPath is elaborated for the first copy only"""
    return any(b is not None and b[2] == 0 for t, _, b in xp_terms(surface, {}, 1, []))


def k_dotdot_polarity(surface):
    """a `..` XPath whose first variable is not bound by a universal quantifier in positive polarity, or whose
    binder lies below an existential / numeric quantifier (the added quantifier is pushed in from the top and
    only passes universal quantifiers and and/or); free nonterminal roots are closed at top level and are fine"""
    return any(len(t) > 2 and b is not None and not (b[1] and b[2] == 1 and b[3])
               for t, _, b in xp_terms(surface, {}, 1, []))


def fresh_bases(f, acc, env=None, ctr=None):
    """(kind, nonterminal) for every variable the elaboration has to invent a name for;
    env: nonterminal -> kind of the enclosing unnamed quantifier"""
    env = env or {}
    ctr = ctr if ctr is not None else [0]
    k = f[0]

    def nt_kind(T):
        return env.get(T, 'free')
    if k == 'atom':
        for t in f[3]:
            if t[0] == 'free':
                acc.append((nt_kind(t[1]), t[1]))
            if t[0] == 'xp':
                if t[1][0][0].startswith("<"):
                    acc.append((nt_kind(t[1][0][0]), t[1][0][0]))
                acc.append(('xp' + repr(t), t[-1][-1][0]))
                if len(t) > 2 and len(t[1]) > 1:
                    acc.append(('xpi' + repr(t), t[1][-1][0]))
    elif k == 'not':
        fresh_bases(f[1], acc, env, ctr)
    elif k == 'int':
        fresh_bases(f[3], acc, env, ctr)
    elif k == 'q':
        if f[4] and f[4][0] == 'type' and f[4][1] != "<start>":
            acc.append((nt_kind(f[4][1]), f[4][1]))
        if f[3] is None:
            ctr[0] += 1
            kind = f"anon{ctr[0]}"
            acc.append((kind, f[2]))
            fresh_bases(f[5], acc, dict(env, **{f[2]: kind}), ctr)
        else:
            fresh_bases(f[5], acc, env, ctr)
    else:
        fresh_bases(f[1], acc, env, ctr)
        fresh_bases(f[2], acc, env, ctr)
    return acc


def k_fresh_clash(surface):
    """python mirror of the class K_fresh_clash: two DIFFERENT invented variables (free nonterminal, unnamed
    quantifier, XPath result, XPath intermediate) get the same base name"""
    by_nt = {}
    for kind, nt in set(fresh_bases(surface, [])):
        by_nt.setdefault(nt, set()).add(kind)
    return any(len(ks) > 1 for ks in by_nt.values())


def binder_names(f, acc, mult=1):
    """user-written binder names (quantifier variables, match-expression variables, numeric variables) with the number
    of copies the elaboration makes of them (operands of iff / xor are duplicated)"""
    k = f[0]
    if k == 'atom':
        pass
    elif k == 'not':
        binder_names(f[1], acc, mult)
    elif k == 'int':
        acc.extend([f[2]] * mult)
        binder_names(f[3], acc, mult)
    elif k == 'q':
        if f[3] is not None:
            acc.extend([f[3]] * mult)
        for e in (f[6] or []):
            if e[0] == 'b':
                acc.extend([e[2]] * mult)
        binder_names(f[5], acc, mult)
    elif k in ('iff', 'xor'):
        binder_names(f[1], acc, 2 * mult); binder_names(f[2], acc, 2 * mult)
    else:
        binder_names(f[1], acc, mult); binder_names(f[2], acc, mult)
    return acc


def k_uniq_capture(surface):
    """python mirror (over-approximation, used only OUTSIDE the Coq guard sugar_guard2) of the class K_uniq_capture =
    negation of SugarAlpha3.uniq_ok: some binder name is repeated (so ensure_unique_bound_variables invents a name
    stem_k) and the stem of a user-written binder name is the base of a variable the elaboration invents for a free
    nonterminal / unnamed quantifier / XPath expression (whose name the used-name set of the pass does not contain)"""
    names = binder_names(surface, [])
    if len(set(names)) == len(names):
        return False
    stems = {re.sub(r"_[0-9]+$", "", n) for n in names}
    invented = {nt[1:-1] for _, nt in fresh_bases(surface, [])}
    return bool(stems & invented)


def k_root_also_free(surface):
    """a free nonterminal occurs both on its own and as the first element of an XPath expression"""
    alone, roots = set(), set()

    def go(f, env):
        k = f[0]
        if k == 'atom':
            for t in f[3]:
                if t[0] == 'free' and t[1] not in env:
                    alone.add(t[1])
                if t[0] == 'xp' and t[1][0][0].startswith("<") and t[1][0][0] not in env:
                    roots.add(t[1][0][0])
        elif k == 'not':
            go(f[1], env)
        elif k == 'int':
            go(f[3], env)
        elif k == 'q':
            if f[4] and f[4][0] == 'type' and f[4][1] not in env:
                alone.add(f[4][1])
            go(f[5], (env | {f[2]}) if f[3] is None else env)
        else:
            go(f[1], env)
            go(f[2], env)
    go(surface, frozenset())
    return bool(alone & roots)


CAPTURE_WITNESS = {"grammar": 3, "sugar": '(exists <a> a in start: a = "x") and (forall <a> a in start: a = <a>)',
                   "core": 'forall <a> a_0 in start: ((exists <a> a in start: (= a "x")) and (forall <a> a in start: (= a a_0)))',
                   "input": "xzy"}
FINDING_WITNESS = {"grammar": 0, "sugar": '<a> = "x" and <b> = "y"',
                   "core": 'forall <a> a in start: forall <b> b in start: ((= a "x") and (= b "y"))', "input": "z"}


def tree_of_string(g, s):
    from isla.parser import EarleyParser
    return DerivationTree.from_parse_tree(next(EarleyParser(g).parse(s)))


def replay_known(run):
    w = FINDING_WITNESS
    g = GRAMMARS[w["grammar"]]
    t = tree_of_string(g, w["input"])
    s = impl_eval(parse_isla(w["sugar"], g, SP, MP), t, g)
    c = impl_eval(parse_isla(w["core"], g, SP, MP), t, g)
    for e in lib.known_findings("C08"):
        if e.get("status") == "open" and e.get("class") == "K_pushin_empty" and s == ("ok", "FALSE") and c == ("ok", "TRUE"):
            run.known(e["what"])
    w2 = CAPTURE_WITNESS
    g2 = GRAMMARS[w2["grammar"]]
    t2 = tree_of_string(g2, w2["input"])
    s2 = impl_eval(parse_isla(w2["sugar"], g2, SP, MP), t2, g2)
    c2 = impl_eval(parse_isla(w2["core"], g2, SP, MP), t2, g2)
    for e in lib.known_findings("C08"):
        if e.get("status") == "open" and e.get("class") == "K_uniq_capture" and s2 == ("ok", "TRUE") and c2 == ("ok", "FALSE"):
            run.known(e["what"])
    return s, c


GUARD_EXPR = "sugar_guard2 g s"
GUARD_IMPORTS = "SugarCompose SugarComposeX SugarCompose2"


def run(run):
    rng = random.Random(run.seed)
    lex_rng = random.Random(run.seed * 7919 + 13)
    thorough = run.tier == "thorough"
    run.cov["rule"] = ("surface formulas generated AST-first over 6 grammars (user-written match expressions whose variable names are "
                       "partly drawn from the names the elaboration invents, numeric quantifiers with count, infix chains "
                       "of 3-5 mixed operators, free nonterminals, unnamed quantifiers, "
                       "omitted/explicit/nonterminal `in`, XPath child chains with indices, `..`, infix/prefix/S-expr "
                       "SMT syntax, negative literal, implies/iff/xor, structural predicates); printed by the harness's "
                       "own printers. (i) parse_isla(sugar) vs Coq model elab (strict AST equality). (ii) "
                       "evaluate(sugar) vs evaluate(hand-expanded core per islaspec.rst) on 3 (quick) / 4 (thorough) random "
                       "derivation trees each. non-trivial = the formula uses at least one sugar form (AST differs from core)")
    proof_ok = run.proof_stage()
    known = {e["class"]: e for e in lib.known_findings("C08") if e.get("status") == "open"}
    try:
        replay_known(run)
    except Exception as e:
        run.violation({"kind": "known-finding witness not replayable", "error": str(e)[:500],
                       "obligation": "harness/c08.py replay_known"}, found_input=False)

    nform = 2000 if thorough else 360
    ntrees = 4 if thorough else 3
    hist = {"parse_ok": 0, "parse_raise": 0, "doc_undefined": 0, "eval_pairs": 0, "eval_agree": 0,
            "known_pushin_empty": 0, "known_dotdot_polarity": 0, "known_fresh_clash": 0, "known_root_also_free": 0, "known_xpath_dup": 0, "known_uniq_capture": 0, "nonconstant_formulas": 0, "uses_xpath": 0, "uses_dotdot": 0,
            "uses_free_nt": 0, "uses_derived": 0, "undecodable": 0, "uses_user_mexpr": 0,
            "uses_mexpr_var_and_free_nt_same_type": 0, "uses_numeric_quantifier": 0, "uses_infix_chain": 0, "lexical_variation": 0}
    cases, meta = [], []          # tie (i)
    eval_viol = []                # tie (ii)
    case_of = {}                  # formula number -> index in `cases` (guard evaluation in Coq)
    pairs_of = {}                 # formula number -> number of sugar/core evaluation pairs
    pushin_of = {}                # formula number -> disagreements attributed to K_pushin_empty
    excused = []                  # (formula number, witness) of disagreements attributed to a static K class
    per_g = {}
    for n in range(nform):
        gi = rng.randrange(len(GRAMMARS))
        g = GRAMMARS[gi]
        gen = Gen(rng, g)
        f = gen.capture_formula() if rng.random() < 0.07 else gen.formula(rng.randint(1, 3), [])
        # lexical variation (own PRNG, so the formula stream does not depend on it): 60 % of the texts
        global LEX
        LEX = lex_rng if lex_rng.random() < 0.6 else None
        sugar = p_sugar(f)
        hist["lexical_variation"] += LEX is not None
        LEX = None
        nontrivial = changes_ast(f)
        run.count((gi, sugar), nontrivial)
        txt = json.dumps(f)
        hist["uses_xpath"] += '"xp"' in txt
        hist["uses_dotdot"] += bool(dotdot_targets(f, []))
        hist["uses_free_nt"] += '"free"' in txt
        hist["uses_derived"] += any(('"%s"' % k) in txt for k in ("imp", "iff", "xor"))
        hist["uses_user_mexpr"] += '["b", ' in txt or '["d", ' in txt
        hist["uses_mexpr_var_and_free_nt_same_type"] += mexpr_capture_case(f)
        hist["uses_numeric_quantifier"] += '"int"' in txt
        hist["uses_infix_chain"] += any(a >= 1000 for a in atom_ids(f, []))
        r = impl_parse(sugar, g)
        if r[0] == "ok":
            hist["parse_ok"] += 1
            try:
                lit = f"(Ok {g_cform(r[1])})"
            except Undecodable as e:
                hist["undecodable"] += 1
                lit = None
                if hist["undecodable"] <= 2:
                    run.violation({"kind": "atom of the elaborated formula is not the z3 term of the hand-expanded core "
                                           "(infix chain nested differently, or z3.simplify changed a modelled atom)",
                                   "sugar": sugar, "atom": str(e),
                                   "obligation": "correspondence Sugar.v <-> language.py (SMT text of atoms)"},
                                  found_input=False)
        else:
            hist["parse_raise"] += 1
            lit = f"(Raise {r[1]})"
        if lit is not None:
            case_of[n] = len(cases)
            cases.append((gi, f"({g_sform(f)}, {lit})"))
            meta.append((gi, f, sugar, r))
        if n < 3:
            run.sample({"grammar": gi, "sugar": sugar,
                        "impl": unparse_isla(r[1]).replace("\n", " ") if r[0] == "ok" else list(r)})
        # ---- tie (ii)
        try:
            core, closed = DocElab(gen.cg).run(f)
        except ValueError:
            hist["doc_undefined"] += 1
            continue
        core_txt = p_core(core)
        rc = impl_parse(core_txt, g)
        kd, kf, kr, kx = k_dotdot_polarity(f), k_fresh_clash(f), k_root_also_free(f), k_xpath_dup(f)
        ku = k_uniq_capture(f)

        def known_static():
            """classes that depend on the formula only"""
            if kf and "K_fresh_clash" in known:
                hist["known_fresh_clash"] += 1
                run.known(known["K_fresh_clash"]["what"])
                return True
            if kr and "K_root_also_free" in known:
                hist["known_root_also_free"] += 1
                run.known(known["K_root_also_free"]["what"])
                return True
            if kx and "K_xpath_dup" in known:
                hist["known_xpath_dup"] += 1
                run.known(known["K_xpath_dup"]["what"])
                return True
            if kd and "K_dotdot_polarity" in known:
                hist["known_dotdot_polarity"] += 1
                run.known(known["K_dotdot_polarity"]["what"])
                return True
            if ku and "K_uniq_capture" in known:
                hist["known_uniq_capture"] += 1
                run.known(known["K_uniq_capture"]["what"])
                return True
            return False
        if r[0] != "ok" or rc[0] != "ok":
            hist["eval_pairs"] += 1
            if r[0] != "ok" and rc[0] != "ok":
                hist["eval_agree"] += 1          # ill-formed either way (unbound variable)
            elif known_static():
                pass                             # parser rejection of one text: the theorem assumes elab = Ok
            else:
                eval_viol.append({"kind": "sugar and documented core: one is rejected by the parser", "grammar": gi,
                                  "sugar": sugar, "core": core_txt, "sugar_parse": list(r[:1]) + list(r[1:] if r[0] != "ok" else []),
                                  "core_parse": list(rc[:1]) + list(rc[1:] if rc[0] != "ok" else []),
                                  "K_dotdot_polarity": kd, "K_fresh_clash": kf, "K_root_also_free": kr, "K_xpath_dup": kx, "K_uniq_capture": ku})
            continue
        cost = per_g.setdefault(gi, min_cost(gen.cg))
        verdicts = set()
        for _ in range(ntrees):
            t = derive(rng, gen.cg, cost, "<start>", rng.randint(1, 4))
            vs, vc = impl_eval(r[1], t, g), impl_eval(rc[1], t, g)
            hist["eval_pairs"] += 1
            pairs_of[n] = pairs_of.get(n, 0) + 1
            verdicts.add(vs)
            if vs == vc:
                hist["eval_agree"] += 1
                continue
            kflag, doms = k_pushin_empty(f, closed, t)
            # K_pushin_empty: the conjunct left outside the pushed-in quantifier is evaluated although the documented
            # closure is vacuously true: the sugar is FALSE, or evaluating that conjunct raises (e.g. str.to.int of a
            # non-numeral: DomainError)
            if kflag and (vs == ("ok", "FALSE") or vs[0] == "raise") and vc == ("ok", "TRUE") and "K_pushin_empty" in known:
                hist["known_pushin_empty"] += 1
                pushin_of[n] = pushin_of.get(n, 0) + 1
                run.known(known["K_pushin_empty"]["what"])
                continue
            wit = {"grammar": gi, "sugar": sugar, "core": core_txt, "input": str(t), "sugar_verdict": list(vs),
                   "core_verdict": list(vc), "K_pushin_empty": kflag, "domain_sizes": doms,
                   "K_dotdot_polarity": kd, "K_fresh_clash": kf, "K_root_also_free": kr, "K_xpath_dup": kx, "K_uniq_capture": ku}
            if known_static():
                excused.append((n, wit))         # re-examined below: inside the proved guard no class may excuse it
                continue
            eval_viol.append({"kind": "sugar and documented core evaluate differently", "grammar": gi,
                              "sugar": sugar, "core": core_txt, "input": str(t), "sugar_verdict": list(vs),
                              "core_verdict": list(vc), "K_pushin_empty": kflag, "domain_sizes": doms,
                              "K_dotdot_polarity": kd, "K_fresh_clash": kf, "K_root_also_free": kr, "K_xpath_dup": kx, "K_uniq_capture": ku})
        hist["nonconstant_formulas"] += len(verdicts) > 1

    # ---- tie (i) in Coq.  Every coqc process costs seconds of start-up/import CPU (much more on a loaded machine),
    # the vm_compute itself is negligible: few, large shards; the grammar travels with the case
    disagreements = []
    shards, smeta = [], []
    gdefs = "".join(f"Definition G{gi} : grammar := {g_grammar(canonical(g))}.\n" for gi, g in enumerate(GRAMMARS))
    per = 130 if thorough else 190
    allc = [(f"(G{gi}, {c[1:]}", m) for (gi, c), m in zip(cases, meta)]     # c = "(sform, res)" -> "(Gi, sform, res)"
    # every case literal is defined once (c_i) and listed twice: (false, c_i) is the AST tie, (true, c_i) evaluates the
    # boolean guard of the end-to-end theorem C08_sugar_core_noxpath_partial (index reported <=> INSIDE the guard)
    shard_base = []
    for k in range(0, len(allc), per):
        chunk = allc[k:k + per]
        defs = gdefs + "".join(f"Definition c_{i} : grammar * sform * res cform := {c}.\n" for i, (c, _) in enumerate(chunk))
        shards.append((defs, [f"(false, c_{i})" for i in range(len(chunk))] + [f"(true, c_{i})" for i in range(len(chunk))]))
        smeta.append([m for _, m in chunk])
        shard_base.append(k)
    ok_def = ("fun c : bool * (grammar * sform * res cform) => let '(b, (g, s, r)) := c in "
              f"if b then negb ({GUARD_EXPR}) else res_eqb cf_eqb (elab g s) r")
    inside = set()                # indices into `cases` that lie inside the guard
    guard_known = False
    try:
        bad_all, dt = lib.coq_run_shards("c08", "Str Outcome Tree Grammar Formula Sugar " + GUARD_IMPORTS, ok_def, shards)
        bad = []
        for (k, i) in bad_all:
            if i >= len(smeta[k]):
                inside.add(shard_base[k] + i - len(smeta[k]))
            else:
                bad.append((k, i))
        guard_known = True
        run.cov["coq_seconds_ast"] = round(dt, 1)
        run.cov["ast_disagreements"] = len(bad)
        for (k, i) in bad:
            gi, f, sugar, r = smeta[k][i]
            if k_fresh_clash(f) and r[0] == "raise" and r[1] == "AssertErr" and "K_fresh_clash" in known:
                # the clash identifies two variables: an atom x = x arises, z3.simplify folds its negation to False
                # and SMTFormula's symbol-count assertion fires (atoms are abstract in the model)
                hist["known_fresh_clash"] += 1
                run.known(known["K_fresh_clash"]["what"])
                continue
            if k_fresh_clash(f) and "K_fresh_clash" in known and len(disagreements) < 4:
                m0 = lib.coq_eval("c08d", "Str Outcome Tree Grammar Formula Sugar",
                                  f"elab ({g_grammar(canonical(GRAMMARS[gi]))}) {g_sform(f)}")
                if "Raise NotImpl" in m0:
                    # the clash attaches an XPath match expression to a quantifier that already has a user-written
                    # one: ISLa merges (or fails to), the model does not model merging
                    hist["known_fresh_clash"] += 1
                    run.known(known["K_fresh_clash"]["what"])
                    continue
            model = lib.coq_eval("c08d", "Str Outcome Tree Grammar Formula Sugar", f"elab ({g_grammar(canonical(GRAMMARS[gi]))}) {g_sform(f)}")
            disagreements.append({"grammar": gi, "sugar": sugar, "surface": f,
                                  "impl": unparse_isla(r[1]).replace("\n", " ") if r[0] == "ok" else list(r),
                                  "model": model[-1500:]})
            if len(disagreements) >= 4:
                break
    except RuntimeError as e:
        run.violation({"kind": "correspondence-not-evaluable", "obligation": "Sugar.v elab cases", "error": str(e)[-2000:]},
                      found_input=False)
    # ---- the guard of the end-to-end theorem, evaluated in Coq on every case
    if guard_known:
        in_n = {n for n, ci in case_of.items() if ci in inside}
        hist["inside_guard_formulas"] = len(in_n)
        hist["inside_guard_eval_pairs"] = sum(pairs_of.get(n, 0) for n in in_n)
        hist["inside_guard_pushin_empty_disagreements"] = sum(pushin_of.get(n, 0) for n in in_n)
        hist["outside_guard_formulas"] = len(case_of) - len(in_n)
        run.cov["guard"] = (f"{GUARD_EXPR} (Logic/SugarCompose2.v: sugar_guard_nox2 s || sugar_guard_xp1b g s; wave-4 guard without "
                            "the condition 'binder names pairwise distinct': it is replaced by the guard uniq_ok of the alpha-renaming "
                            f"theorem C08_uniq_sound_partial) evaluated by vm_compute on all {len(case_of)} decodable "
                            f"cases: {len(in_n)} inside; their {hist['inside_guard_eval_pairs']} sugar/core evaluation pairs "
                            "must agree unless the input is in K_pushin_empty (premise of the theorem) - no static class "
                            "excuses a disagreement inside the guard")
        for n, wit in excused:
            if n in in_n:
                eval_viol.append(dict(wit, kind="INSIDE the guard of C08_sugar_core_noxpath2_partial / _xpath1b_partial (and not "
                                                "K_pushin_empty) but sugar and documented core evaluate differently"))
    run._eval_viol, run._disagreements = eval_viol, disagreements
    run.cov["ast_cases"] = len(cases)
    run.cov["histogram"] = hist
    run.cov["disagreements_checked"] = len(disagreements) + len(eval_viol)

    # ---- classify
    if eval_viol:
        eval_viol.sort(key=lambda d: len(json.dumps(d)))
        run.violation({"kind": eval_viol[0]["kind"], "witness": eval_viol[0], "all_failing": len(eval_viol),
                       "how_to_replay": "./check C08 --replay <this file>",
                       "theorem": "Props/C08.v (C08_pushin_sound / C08_derived_connectives) + correspondence"})
    if disagreements:
        # the AST differs from the model: evaluate the property on this input (sugar vs documented core)
        d = disagreements[0]
        run.violation({"kind": "elaborated AST differs from model; property (sugar vs documented core) held on all "
                               "generated trees for this input" if not eval_viol else "elaborated AST differs from model",
                       "first": d, "count": len(disagreements),
                       "obligation": "correspondence Sugar.v elab <-> isla.language.ISLaEmitter"}, found_input=False)
    if not proof_ok:
        run.violation({"kind": "proof obligation failed", "problems": run.proof_problems,
                       "obligation": "Props/C08.v"}, found_input=False)
    run.cov["trusted_base"] = lib.TRUSTED_BASE_COMMON + [
        "SMT atoms are abstract (payload, polarity, variables); z3.simplify is the identity on the generated atom "
        "shapes and their negations (checked: every elaborated atom must decode to a modelled shape)",
        "evaluate() itself is not modelled here (C03); tie (ii) compares the implementation with itself on sugar vs "
        "hand-expanded core text",
        "elab_doc (harness/c08.py DocElab) is a faithful reading of sphinx/islaspec.rst 'Simplified Syntax'",
        "merging of two XPath expressions on one variable (AddMexprTransformer with existing match expression) "
        "is outside the model and outside the documented translation; not generated"]


def replay(path):
    d = json.load(open(path))
    w = d.get("witness")
    if not w or "sugar" not in w:
        print("replay file names an obligation, not an input:", d.get("obligation")); return 1
    g = GRAMMARS[w["grammar"]]
    fs, fc = parse_isla(w["sugar"], g, SP, MP), parse_isla(w["core"], g, SP, MP)
    t = tree_of_string(g, w["input"])
    vs, vc = impl_eval(fs, t, g), impl_eval(fc, t, g)
    print("sugar:", vs, "core:", vc)
    return 0 if vs == vc else 1
