"""C07 — unparse_isla / parse_isla round trip.

(i)  tie: unparse_isla(f) = Coq model `unparse` (Logic/Unparse.v), character for character, on
     formulas obtained from parse_isla of generated concrete syntax (sugar included) and on
     formulas built AST-first; string-literal codec (str_lit / read_lit) and fresh_name /
     register_free against z3 / ISLaEmitter.
(ii) the property itself on the implementation: parse_isla(unparse_isla(f)) == f, text fixpoint,
     equal evaluate() on sample trees.  A failure inside a recorded class (K_* of Unparse.v,
     mirrored below) prints KNOWN-FINDING; any other failure is a VIOLATION with the constraint."""
import json, random, re, time
import z3
import lib
from lib import g_str, g_list, g_option
from isla import language as L
from isla.language import (parse_isla, unparse_isla, Constant, BoundVariable, DummyVariable, Variable,
                           ForallFormula, ExistsFormula, ForallIntFormula, ExistsIntFormula,
                           NegatedFormula, ConjunctiveFormula, DisjunctiveFormula, SMTFormula,
                           StructuralPredicateFormula, SemanticPredicateFormula, BindExpression)
from isla.isla_predicates import STANDARD_STRUCTURAL_PREDICATES as SP, STANDARD_SEMANTIC_PREDICATES as SE
from isla.z3_helpers import smt_expr_to_str, is_z3_var, z3_eq
from isla.derivation_tree import DerivationTree
from isla.parser import EarleyParser
from isla.evaluator import evaluate
from orderedset import FrozenOrderedSet

SPM = {p.name: p for p in SP}
SEM = {p.name: p for p in SE}

# ---------------------------------------------------------------- grammars
GRAMMARS = {
    "assgn": {
        "<start>": ["<stmt>"],
        "<stmt>": ["<assgn>", "<assgn> ; <stmt>"],
        "<assgn>": ["<var> := <rhs>"],
        "<rhs>": ["<var>", "<digit>"],
        "<var>": ["a", "b", "c"],
        "<digit>": ["0", "1", "2"],
    },
    # terminals with a meaning in match-expression / string-token syntax
    "nasty": {
        "<start>": ["<a>"],
        "<a>": ['x{<b>}"y', "[<b>]", "\n<b>\\", "<b>"],
        "<b>": ["q", "r"],
    },
    # nonterminal names that collide with generated variable names
    "names": {
        "<start>": ["<a><a_0><var>"],
        "<a>": ["x", "y"],
        "<a_0>": ["0", "1"],
        "<var>": ["v", "w"],
    },
}
SAMPLES = {
    "assgn": ["a := 1", "a := b ; b := 2", "c := c ; a := 0 ; b := a", "b := 2 ; a := b"],
    "nasty": ['x{q}"y', "[r]", "\nq\\", "r"],
    "names": ["x0v", "y1w"],
}
_TREES = {}
NTREES = [2]


def trees(gname):
    if gname not in _TREES:
        p = EarleyParser(GRAMMARS[gname])
        _TREES[gname] = [DerivationTree.from_parse_tree(next(iter(p.parse(s)))) for s in SAMPLES[gname]]
    return _TREES[gname]


# ---------------------------------------------------------------- encoders
def g_cps(cps):
    return "(@nil N)" if not cps else "[" + ";".join(str(c) for c in cps) + "]%N"


def decode_lstring(s):
    """inverse of Z3_get_lstring as delivered by z3py as_string(): code points as ints"""
    out, i = [], 0
    while i < len(s):
        m = re.compile(r"\\u\{([0-9a-f]*)\}").match(s, i)
        if m:
            out.append(int(m.group(1), 16) if m.group(1) else 0)
            i = m.end()
        else:
            out.append(ord(s[i]))
            i += 1
    return out


class Unsupported(Exception):
    pass


KINDS = {z3.Z3_OP_SEQ_IN_RE: "KInRe", z3.Z3_OP_SEQ_CONCAT: "KSeqConcat", z3.Z3_OP_RE_CONCAT: "KReConcat",
         z3.Z3_OP_STR_TO_INT: "KStrToInt"}


def sx(f, strs, ops, top=True):
    """z3 expression -> Gallina `sx` (same case order as smt_expr_to_str)"""
    if z3.is_var(f) or isinstance(f, z3.QuantifierRef):
        raise Unsupported("quantified SMT")
    if z3.is_string_value(f):
        cps = decode_lstring(f.as_string())
        strs.append(cps)
        return f"(SStr {g_cps(cps)})"
    if z3.is_int_value(f):
        return f"(SInt ({f.as_long()})%Z)"
    if z3.is_true(f):
        return "STrue"
    if z3.is_false(f):
        return "SFalse"
    if is_z3_var(f):
        return f"(SVar {g_str(str(f))})"
    if z3.is_app(f):
        kind = f.decl().kind()
        if kind == z3.Z3_OP_RE_LOOP:
            ps = f.params()
            if len(ps) >= 2:
                k = f"(KLoop {ps[0]}%N {ps[1]}%N)"
                ops.append("#loop:" + ("hi=0" if ps[1] == 0 else "lo=hi" if ps[0] == ps[1] else "lo>hi" if ps[0] > ps[1] else "lo<hi"))
            else:
                k = f"(KLoopShort {g_list([str(x) + '%N' for x in ps])})"
                ops.append("#short")
        elif kind == z3.Z3_OP_RE_POWER:
            k = f"(KPower {f.params()[0]}%N)"
            ops.append(f"#pow:{min(f.params()[0], 2)}")
        else:
            k = KINDS.get(kind, "KOther")
        name = f.decl().name()
        ops.append(name if k == "KOther" else k.split()[0].strip("("))
        if name in ("str.at", "str.substr", "str.indexof"):
            for c in f.children()[1:]:
                if z3.is_int_value(c):
                    v = c.as_long()
                    ops.append(f"#idx:{name}:" + ("neg" if v < 0 else str(v) if v <= 1 else ">1"))
        if name in ("str.<", "if") or (name == "not" and (not top or any(
                z3.is_app(c) and c.decl().name() in ("and", "or", "=>", "not", "xor", "if") for c in f.children()))):
            ops.append("#bad")
        return f"(SApp {k} {g_str(name)} {g_list([sx(c, strs, ops, False) for c in f.children()])})"
    raise Unsupported(str(f))


def g_var(v):
    kind = "VDummy" if isinstance(v, DummyVariable) else "VConst" if isinstance(v, Constant) else "VBound"
    return f"(MkVar {kind} {g_str(v.name)} {g_str(v.n_type)})"


def g_mexpr(m, info):
    if m is None:
        return "None"
    els = []
    for e in m.bound_elements:
        if isinstance(e, list):
            els.append(DummyVariable("["))
            els.extend(e)
            els.append(DummyVariable("]"))
        else:
            els.append(e)
    for e in els:
        if isinstance(e, DummyVariable) and not L.is_nonterminal(e.n_type) and e.n_type not in "[]":
            info["mterms"].append(e.n_type)
    info["mexpr"] += 1
    return f"(Some (MkMexpr {g_list([g_var(e) for e in els])} []))"


def g_parg(a):
    if isinstance(a, Variable):
        return f"(PVar {g_var(a)})"
    if isinstance(a, bool):
        raise Unsupported("bool arg")
    if isinstance(a, int):
        return f"(parg_int ({a})%Z)"
    if isinstance(a, str):
        return f"(PStr {g_str(a)})"
    raise Unsupported("tree argument")


def g_formula(f, info):
    if isinstance(f, SMTFormula):
        if f.substitutions or f.instantiated_variables:
            raise Unsupported("instantiated SMT formula")
        info["atoms"] += 1
        return f"(FSmt ({sx(f.formula, info['strs'], info['ops'])}, {g_list([g_var(v) for v in f.free_variables_])}))"
    if isinstance(f, (StructuralPredicateFormula, SemanticPredicateFormula)):
        c = "FSPred" if isinstance(f, StructuralPredicateFormula) else "FSemPred"
        info["preds"] += 1
        return f"({c} {g_str(f.predicate.name)} {g_list([g_parg(a) for a in f.args])})"
    if isinstance(f, NegatedFormula):
        return f"(FNot {g_formula(f.args[0], info)})"
    if isinstance(f, (ConjunctiveFormula, DisjunctiveFormula)):
        c = "FAnd" if isinstance(f, ConjunctiveFormula) else "FOr"
        info["conn"] += 1
        return f"({c} {g_list([g_formula(a, info) for a in f.args])})"
    if isinstance(f, (ForallFormula, ExistsFormula)):
        c = "FForall" if isinstance(f, ForallFormula) else "FExists"
        info["quant"] += 1
        if isinstance(f.in_variable, DerivationTree):
            raise Unsupported("tree in-variable")
        info["bound"].append(f.bound_variable.name)
        if f.bind_expression is not None:
            info["bound"] += [v.name for v in f.bind_expression.bound_variables()]
        return (f"({c} {g_var(f.bound_variable)} (InVar {g_var(f.in_variable)}) "
                f"{g_mexpr(f.bind_expression, info)} {g_formula(f.inner_formula, info)})")
    if isinstance(f, (ForallIntFormula, ExistsIntFormula)):
        c = "FForallInt" if isinstance(f, ForallIntFormula) else "FExistsInt"
        info["numq"] += 1
        info["numq_names"].append(f.bound_variable.name)
        info["bound"].append(f.bound_variable.name)
        return f"({c} {g_var(f.bound_variable)} {g_formula(f.inner_formula, info)})"
    raise Unsupported(type(f).__name__)


def new_info():
    return {"atoms": 0, "preds": 0, "conn": 0, "quant": 0, "numq": 0, "mexpr": 0, "strs": [], "ops": [],
            "mterms": [], "bound": [], "numq_names": []}


# ---------------------------------------------------------------- python mirrors of the K_* classes (Unparse.v)
def K_str(cps):
    bs = any(c == 92 and (i + 1 == len(cps) or cps[i + 1] == 34) for i, c in enumerate(cps))
    hi = any(128 <= c < 256 or c > 0x2FFFF for c in cps)
    return bs or hi


def classes(info):
    ks = []
    if any(K_str(s) for s in info["strs"]):
        ks.append("K_smt_string")
    if any(any(ch in t for ch in '"{}[\\') for t in info["mterms"]):
        ks.append("K_mexpr_terminal")
    if "start" in info["bound"]:
        ks.append("K_shadow_const")
    if "#bad" in info["ops"]:
        ks.append("K_smt_op")
    if "#short" in info["ops"]:
        ks.append("K_loop_arity")
    if len(set(info["numq_names"])) < len(info["numq_names"]):
        ks.append("K_numq_dup")
    return ks


# ---------------------------------------------------------------- the property on the implementation
def outcome(f, *a):
    try:
        return ("ok", f(*a))
    except BaseException as e:  # ANTLR raises ParseCancellationException (an Exception); keep everything
        if isinstance(e, (KeyboardInterrupt, SystemExit)):
            raise
        return ("raise", type(e).__name__ + ": " + str(e)[:120])


def ev(f, t, g):
    o = outcome(evaluate, f, t, g)
    return ("ok", str(o[1])) if o[0] == "ok" else ("raise", o[1].split(":")[0])


def roundtrip(f, gname):
    """None if the property holds at f, else a short description of what fails"""
    g = GRAMMARS[gname]
    ou = outcome(unparse_isla, f)
    if ou[0] == "raise":
        return f"unparse_isla raises {ou[1]}"
    u = ou[1]
    o = outcome(parse_isla, u, g, SP, SE)
    if o[0] == "raise":
        return f"re-parse raises {o[1]}"
    f2 = o[1]
    if f2 != f:
        return "re-parsed constraint differs"
    ou2 = outcome(unparse_isla, f2)
    if ou2[0] == "raise":
        return f"unparse_isla of the re-parsed constraint raises {ou2[1]}"
    if ou2[1] != u:
        return "text is not a fixpoint"
    for t in trees(gname)[:NTREES[0]]:
        if ev(f, t, g) != ev(f2, t, g):
            return f"evaluate differs on {str(t)!r}"
    return None


# ---------------------------------------------------------------- generator: concrete syntax
STR_POOL = ['a', '', 'b c', 'x\\"y', '\\u{5c}', 'a\\u{5c}', '\\u{5c}\\"', '\\u{e9}', 'é', '\\u{0}', '\\u{0}z',
            '\\u{1f600}', 'a\\\\b', 'a\\b', '\n', '\\n', '\\u{5c}u{41}', '\\u{41}', '\\u0041', ' ', '1', '-0', '007',
            '\\u{2ffff}', '\\u{30000}', '\\u{}', '(', ';', '<var>', '\t', '\\\\u{41}', '\u4e2d', '~', '\\u{7f}', '\\u{80}']


BOUNDS = [0, 1, -1, 2, 5, 0, 1]
LOOP_BOUNDS = [(lo, hi) for lo in range(4) for hi in range(4)]


def boundary_sources():
    """deterministic block run on every tier: every (lo, hi) in {0..3}^2 of (_ re.loop lo hi) (hi = 0, lo = hi,
    lo > hi included), (_ re.^ n) for n in 0..3, index arguments of str.at / str.substr / str.indexof and
    integer literals at 0, 1, -1 and beyond, each inside a quantified constraint over the assignment grammar"""
    out = []
    for lo, hi in LOOP_BOUNDS:
        out.append(f'forall <var> v: (str.in_re v ((_ re.loop {lo} {hi}) (str.to_re "a")))')
    out.append('forall <var> v: str.in_re(v, re.++(((_ re.loop 2 0) (re.range "a" "c")), ((_ re.loop 0 0) re.allchar)))')
    for n in range(4):
        out.append(f'forall <var> v: (str.in_re v ((_ re.^ {n}) (re.range "a" "c")))')
    for i in (0, 1, -1, 2, 5):
        out.append(f'forall <var> v: (str.at v {i}) = "a"')
        out.append(f'forall <var> v: (str.indexof v "a" {i}) >= {i}')
        for j in (0, 1, -1, 3):
            out.append(f'forall <var> v: str.substr(v, {i}, {j}) = "a"')
    for lit in ("0", "1", "-1", "-0", "007", "00", "123456789012345678901", "-123456789012345678901"):
        out.append(f"forall <var> v: str.len(v) > {lit}")
        out.append(f"forall <digit> d: str.to.int(d) = {lit}")
    out += ['forall <digit> d: str.to.int(d) = (- 1)', 'forall <digit> d: str.to.int(d) = (- 0 1)', 'forall <digit> d: (* 2 -1) <= str.to.int(d)',
            'forall <var> v: (str.from_code 0) = v', 'forall <var> v: (str.in_re v (re.range "b" "a"))',
            'forall <var> v: (str.in_re v (re.range "a" "a"))', 'exists int n: (forall <var> v: nth(0, v, start) and count(start, "<var>", n))',
            'forall <var> v: nth(1, v, start)', 'forall <var> v: nth(-1, v, start)', 'forall <var> v: count(v, "<var>", 0)']
    # fewer than two parameters: accepted by parse_isla, class K_loop_arity
    out += ['forall <var> v: (str.in_re v ((_ re.loop 1) (str.to_re "a")))', 'forall <var> v: (str.in_re v ((_ re.loop 0) (str.to_re "a")))',
            'forall <var> v: (str.in_re v (re.loop (str.to_re "a") 1 2))', 'forall <var> v: str.in_re(v, re.loop(str.to_re("a"), 0, 0))']
    return out


class SrcGen:
    def __init__(self, rng, gname):
        self.rng, self.gname, self.g = rng, gname, GRAMMARS[gname]
        self.nts = [k for k in self.g if k != "<start>"]
        self.cnt = 0

    def lit(self):
        return '"' + self.rng.choice(STR_POOL) + '"'

    def strterm(self, scope, d=0):
        r = self.rng.random()
        if r < 0.35 and scope:
            return self.rng.choice(scope)
        if r < 0.6:
            return self.rng.choice(self.nts + (["<start>"] if self.rng.random() < 0.15 else []))
        if r < 0.75:
            return self.xpath(scope)
        if r < 0.85 and d < 2:
            i, j = self.rng.choice(BOUNDS), self.rng.choice(BOUNDS)
            return self.rng.choice(['(str.++ {} {})', 'str.replace({}, {}, "z")', '(str.at {} %s)' % i, 'str.substr({}, %s, %s)' % (i, j),
                                    '(str.from_int (str.len {}))', '{} str.++ {}', '(str.substr {} %s %s)' % (j, i)]).format(
                self.strterm(scope, d + 1), self.strterm(scope, d + 1))
        return self.lit()

    def xpath(self, scope):
        g = self.g
        heads = [k for k in self.nts if any(re.findall(r"<[^<> ]*>", a) for a in g[k])]
        if not heads:
            return self.rng.choice(self.nts)
        h = self.rng.choice(heads)
        kids = [x for a in g[h] for x in re.findall(r"<[^<> ]*>", a)]
        k = self.rng.choice(kids)
        first = h if not scope or self.rng.random() < 0.7 else h
        r = self.rng.random()
        if r < 0.5:
            return f"{first}.{k}"
        if r < 0.7:
            return f"{first}.{k}[1]"
        if r < 0.85:
            return f"{first}..{k}"
        kk = [x for a in g.get(k, []) for x in re.findall(r"<[^<> ]*>", a)]
        return f"{first}.{k}.{self.rng.choice(kk)}" if kk else f"{first}.{k}"

    def intterm(self, scope, d=0):
        r = self.rng.random()
        if r < 0.3:
            return str(self.rng.choice([0, 1, 2, 17, -3, -1, "-0", "007", 0, 1, 123456789012345678901]))
        if r < 0.55:
            return f"str.len({self.strterm(scope)})"
        if r < 0.7:
            return f"str.to.int({self.strterm(scope)})"
        if r < 0.8:
            return f"(str.indexof {self.strterm(scope)} {self.lit()} {self.rng.choice(BOUNDS)})"
        if r < 0.85:
            return f"(str.to_code {self.strterm(scope)})"
        if d < 2:
            op = self.rng.choice(["+", "-", "*", "div", "mod"])
            a, b = self.intterm(scope, d + 1), self.intterm(scope, d + 1)
            return f"({op} {a} {b})" if self.rng.random() < 0.5 else f"({a} {op} {b})" if False else f"{a} {op} {b}"
        return "abs(1)" if self.rng.random() < 0.3 else "3"

    def regex(self, d=0):
        r = self.rng.random()
        if r < 0.3 or d > 2:
            return f"str.to_re({self.lit()})"
        if r < 0.4:
            return 're.range("a", "z")'
        if r < 0.48:
            return self.rng.choice(["re.allchar", "re.all", "re.none"])
        if r < 0.6:
            return self.rng.choice(["re.+({})", "re.*({})", "re.opt({})", "re.comp({})", "(re.* {})"]).format(self.regex(d + 1))
        if r < 0.75:
            return self.rng.choice(["re.++({}, {})", "re.union({}, {})", "(re.inter {} {})", "(re.diff {} {})",
                                    "{} re.++ {}", "(re.++ {} {} (re.+ (re.range \"0\" \"9\")))"]).format(
                self.regex(d + 1), self.regex(d + 1))
        if r < 0.86:
            # boundary values on purpose: 0, 1, lo = hi, lo > hi, upper bound 0
            lo, hi = self.rng.choice(LOOP_BOUNDS)
            return f"((_ re.loop {lo} {hi}) {self.regex(d + 1)})"
        if r < 0.89:
            # forms with fewer than two parameters (class K_loop_arity)
            return self.rng.choice(["((_ re.loop {n}) {r})", "(re.loop {r} {n} {m})", "re.loop({r}, {n}, {m})"]).format(
                n=self.rng.choice([0, 1, 2]), m=self.rng.choice([0, 1, 2]), r=self.regex(d + 1))
        return f"((_ re.^ {self.rng.choice([0, 1, 1, 2, 3])}) {self.regex(d + 1)})"

    def smt(self, scope, ints):
        r = self.rng.random()
        if r < 0.3:
            return f"{self.strterm(scope)} = {self.strterm(scope)}"
        if r < 0.4:
            return f"(= {self.strterm(scope)} {self.lit()})"
        if r < 0.55:
            op = self.rng.choice(["=", ">=", "<=", ">", "<"])
            a = self.intterm(scope)
            b = f"str.to.int({self.rng.choice(ints)})" if ints and self.rng.random() < 0.5 else self.intterm(scope)
            return f"{a} {op} {b}"
        if r < 0.7:
            return self.rng.choice(["str.in_re({}, {})", "(str.in_re {} {})"]).format(self.strterm(scope), self.regex())
        if r < 0.82:
            return self.rng.choice(["(str.contains {} {})", "str.prefixof({}, {})", "(str.suffixof {} {})",
                                    "(str.<= {} {})", "(str.< {} {})", "{} str.<= {}"]).format(
                self.strterm(scope), self.strterm(scope))
        if r < 0.88:
            return f"(str.is_digit {self.strterm(scope)})"
        if r < 0.94:
            return self.rng.choice(["(not {})", "(and {} {})", "(or {} {})", "(=> {} {})", "(xor {} {})",
                                    "(ite {} {} true)"]).format(*[f"(= {self.strterm(scope)} {self.lit()})" for _ in range(2)])
        return self.rng.choice(["true", "false"])

    def pred(self, scope, ints):
        def ref():
            r = self.rng.random()
            if scope and r < 0.5:
                return self.rng.choice(scope)
            if r < 0.6:
                return "start"
            if r < 0.68:
                return "<start>"
            if r < 0.8:
                return self.xpath(scope)
            return self.rng.choice(self.nts)
        r = self.rng.random()
        if r < 0.45:
            return f"{self.rng.choice(['before', 'after', 'inside', 'same_position', 'different_position', 'direct_child', 'consecutive'])}({ref()}, {ref()})"
        if r < 0.6:
            n = self.rng.choice(['"1"', '"2"', "1", "0"])
            return f"nth({n}, {ref()}, {ref()})"
        if r < 0.75:
            return f'level("{self.rng.choice(["GE", "EQ", "LT"])}", "{self.rng.choice(self.nts)}", {ref()}, {ref()})'
        n = self.rng.choice(ints) if ints and self.rng.random() < 0.6 else self.rng.choice(['"2"', '"0"', "3"])
        return f'count({ref()}, "{self.rng.choice(self.nts)}", {n})'

    def mexpr(self, nt):
        """cut a match expression out of a real expansion"""
        alt = self.rng.choice(self.g[nt])
        parts = [p for p in re.split(r"(<[^<> ]*>)", alt) if p]
        out, bound = [], []
        for p in parts:
            if L.is_nonterminal(p) and self.rng.random() < 0.7:
                self.cnt += 1
                v = f"m{self.cnt}"
                out.append("{" + p + " " + v + "}")
                bound.append(v)
            elif L.is_nonterminal(p):
                out.append(p)
            else:
                t = p.replace("\\", "\\\\").replace('"', '\\"').replace("{", "{{").replace("}", "}}")
                if self.rng.random() < 0.15 and "[" not in t and "]" not in t:
                    t = "[" + t + "]"
                out.append(t)
        return "".join(out), bound

    def formula(self, scope, ints, d):
        r = self.rng.random()
        if d <= 0 or r < 0.25:
            return self.smt(scope, ints) if self.rng.random() < 0.65 else self.pred(scope, ints)
        if r < 0.5:
            q = self.rng.choice(["forall", "exists"])
            nt = self.rng.choice(self.nts + (["<start>"] if self.rng.random() < 0.1 else []))
            named = self.rng.random() < 0.7
            name = ""
            sc = list(scope)
            if named:
                self.cnt += 1
                name = self.rng.choice([f"v{self.cnt}", f"{nt[1:-1]}", f"{nt[1:-1]}_0", "start_0", "x"]) if self.rng.random() < 0.5 else f"v{self.cnt}"
                if name in sc:
                    name = f"v{self.cnt}"
                sc.append(name)
            me = ""
            if self.rng.random() < 0.35 and nt != "<start>":
                m, bound = self.mexpr(nt)
                me = f'="{m}"'
                sc += bound
            inn = ""
            if self.rng.random() < 0.5:
                inn = " in " + (self.rng.choice(scope) if scope and self.rng.random() < 0.5 else
                                self.rng.choice(["start", "<start>"] + self.nts))
            return f"{q} {nt}{' ' + name if named else ''}{me}{inn}: ({self.formula(sc, ints, d - 1)})"
        if r < 0.58:
            self.cnt += 1
            n = f"n{self.cnt}"
            return f"{self.rng.choice(['forall', 'exists'])} int {n}: ({self.formula(scope, ints + [n], d - 1)})"
        if r < 0.66:
            return f"not ({self.formula(scope, ints, d - 1)})"
        op = self.rng.choice(["and", "and", "or", "or", "implies", "iff", "xor"])
        n = 3 if op in ("and", "or") and self.rng.random() < 0.3 else 2
        return "(" + f" {op} ".join(self.formula(scope, ints, d - 1) for _ in range(n)) + ")"


# ---------------------------------------------------------------- generator: AST first
def ast_formula(rng, d, scope, cnt):
    """Formula objects built through the constructors (shapes the parser never produces:
    un-flattened connectives, negated quantifiers, a constant that is not `start`)"""
    const = scope[0]
    r = rng.random()
    if d <= 0 or r < 0.3:
        v = rng.choice(scope)
        k = rng.random()
        if k < 0.5:
            s = rng.choice(['a', 'a"b', 'a\\', '\\"', 'é', '\x00', '\x00\x00', 'a\\u', '\\u{41}', '\U0001f600', '\n', 'x y',
                            '\\\\', '"', '\x7f', '\x80', 'ÿ', 'Ā'])
            return SMTFormula(z3_eq(v.to_smt(), z3.StringVal(s)), v)
        if k < 0.58:
            lo, hi = rng.choice(LOOP_BOUNDS)      # z3py: hi = 0 builds the one-parameter loop (K_loop_arity)
            r = z3.Loop(z3.Re(rng.choice(["a", "ab"])), lo, hi)
            if rng.random() < 0.4:
                r = z3.Concat(r, z3.Loop(z3.Range("a", "c"), hi, lo))
            return SMTFormula(z3.InRe(v.to_smt(), r), v)
        if k < 0.7:
            w = rng.choice(scope)
            e = z3.And(z3.Length(v.to_smt()) > z3.IntVal(rng.randint(-2, 3)), z3.PrefixOf(w.to_smt(), v.to_smt()))
            return SMTFormula(e, *([v] if v == w else [v, w]))
        if k < 0.85:
            w = rng.choice(scope)
            return StructuralPredicateFormula(SPM[rng.choice(["before", "inside", "same_position"])], v, w)
        return SemanticPredicateFormula(SEM["count"], v, rng.choice(["<var>", "<a>"]), rng.choice(["2", 3, -1]))
    if r < 0.55:
        cnt[0] += 1
        v = BoundVariable(f"w{cnt[0]}", rng.choice(["<var>", "<assgn>", "<a>"]))
        me = None
        if rng.random() < 0.3:
            cnt[0] += 1
            u = BoundVariable(f"w{cnt[0]}", "<rhs>")
            me = BindExpression(rng.choice(["<var>", "a"]), " := ", u) if rng.random() < 0.6 else BindExpression(u, [" ; ", "<stmt>"])
            inner = ast_formula(rng, d - 1, scope + [v, u], cnt)
        else:
            inner = ast_formula(rng, d - 1, scope + [v], cnt)
        q = ForallFormula if rng.random() < 0.5 else ExistsFormula
        return q(v, rng.choice(scope), inner, me)
    if r < 0.62:
        cnt[0] += 1
        n = BoundVariable(f"n{cnt[0]}", Variable.NUMERIC_NTYPE)
        q = ForallIntFormula if rng.random() < 0.5 else ExistsIntFormula
        return q(n, ast_formula(rng, d - 1, scope, cnt))
    if r < 0.72:
        return NegatedFormula(ast_formula(rng, d - 1, scope, cnt))
    c = ConjunctiveFormula if rng.random() < 0.5 else DisjunctiveFormula
    return c(*[ast_formula(rng, d - 1, scope, cnt) for _ in range(rng.choice([2, 2, 3, 4]))])



# ---------------------------------------------------------------- core fragment: parse_core <-> parse_isla
def atom_words(text):
    """mirror of ParseCore.atom_words: maximal runs of non-delimiter characters outside string literals"""
    words, acc, sm = [], "", "N"
    for ch in text:
        if sm == "S":
            sm = "N" if ch == '"' else "B" if ch == "\\" else "S"
        elif sm == "B":
            sm = "S"
        elif ch == '"':
            if acc:
                words.append(acc)
            acc, sm = "", "S"
        elif ch in ' \n\t\r(),:;':
            if acc:
                words.append(acc)
            acc = ""
        else:
            acc += ch
    if acc:
        words.append(acc)
    return words


def g_core(f, info, full=False):
    """Gallina literal of f with every SMT atom kept as text: (SVar text, vars) — with full=True the atom is the
    s-expression itself (sx) —; vars = the atom's free variables
    ordered by the first occurrence of their names as words of the text (SMTFormula.free_variables_ is built from
    a Python set: its order carries no information; SMTFormula.__eq__ ignores it)"""
    if isinstance(f, SMTFormula):
        if f.substitutions or f.instantiated_variables:
            raise Unsupported("instantiated SMT formula")
        text = smt_expr_to_str(f.formula)
        fv = list(f.free_variables_)
        order = []
        for w in atom_words(text):
            for v in fv:
                if v.name == w and v not in order:
                    order.append(v)
        order += [v for v in fv if v not in order]
        info["atoms"] += 1
        if full:
            return f"(FSmt ({sx(f.formula, info['strs'], info['ops'])}, {g_list([g_var(v) for v in order])}))"
        return f"(FSmt (SVar {g_str(text)}, {g_list([g_var(v) for v in order])}))"
    if isinstance(f, (StructuralPredicateFormula, SemanticPredicateFormula)):
        c = "FSPred" if isinstance(f, StructuralPredicateFormula) else "FSemPred"
        info["preds"] += 1
        return f"({c} {g_str(f.predicate.name)} {g_list([g_parg(a) for a in f.args])})"
    if isinstance(f, NegatedFormula):
        info["neg"] = info.get("neg", 0) + 1
        return f"(FNot {g_core(f.args[0], info, full)})"
    if isinstance(f, (ConjunctiveFormula, DisjunctiveFormula)):
        c = "FAnd" if isinstance(f, ConjunctiveFormula) else "FOr"
        info["conn"] += 1
        return f"({c} {g_list([g_core(a, info, full) for a in f.args])})"
    if isinstance(f, (ForallFormula, ExistsFormula)):
        c = "FForall" if isinstance(f, ForallFormula) else "FExists"
        info["quant"] += 1
        if isinstance(f.in_variable, DerivationTree):
            raise Unsupported("tree in-variable")
        return (f"({c} {g_var(f.bound_variable)} (InVar {g_var(f.in_variable)}) "
                f"{g_mexpr(f.bind_expression, info)} {g_core(f.inner_formula, info, full)})")
    if isinstance(f, (ForallIntFormula, ExistsIntFormula)):
        c = "FForallInt" if isinstance(f, ForallIntFormula) else "FExistsInt"
        info["numq"] += 1
        return f"({c} {g_var(f.bound_variable)} {g_core(f.inner_formula, info, full)})"
    raise Unsupported(type(f).__name__)


def core_formula(rng, d, scope, ints, cnt):
    """constraints of the fragment wf_core built through the constructors: opaque s-expression atoms, standard
    predicates (variable / int / string arguments), negated predicates, BINARY and/or in every nesting position
    (first child parenthesised, first child a quantifier), forall/exists with name and `in`, numeric quantifiers"""
    r = rng.random()
    if d <= 0 or r < 0.25:
        v = rng.choice(scope)
        k = rng.random()
        if k < 0.3:
            s = rng.choice(['a', 'b c', '(', ')', 'x(y', 'a"b', ';', ':', ',', 'forall', '', ' and ', 'a\nb'])
            return SMTFormula(z3_eq(v.to_smt(), z3.StringVal(s)), v)
        if k < 0.45 and len(scope) > 1:
            w = rng.choice([x for x in scope if x != v])
            return SMTFormula(z3.PrefixOf(v.to_smt(), w.to_smt()), v, w)
        if k < 0.55:
            return SMTFormula(z3.InRe(v.to_smt(), z3.Concat(z3.Re("a"), z3.Star(z3.Range("a", "c")))), v)
        if k < 0.62 and ints:
            n = rng.choice(ints)
            return SMTFormula(z3.StrToInt(n.to_smt()) > z3.Length(v.to_smt()) + z3.IntVal(rng.choice([0, 1, -2])), n, v)
        if k < 0.8:
            w = rng.choice(scope)
            p = StructuralPredicateFormula(SPM[rng.choice(["before", "after", "inside", "same_position", "consecutive"])], v, w)
            return NegatedFormula(p) if rng.random() < 0.4 else p
        if k < 0.88:
            return StructuralPredicateFormula(SPM["nth"], rng.choice([0, 1, 2, -1, "1", 12]), v, rng.choice(scope))
        if k < 0.93:
            return StructuralPredicateFormula(SPM["level"], rng.choice(["GE", "EQ"]), rng.choice(["<stmt>", "<assgn>"]), v, rng.choice(scope))
        n = rng.choice(ints) if ints and rng.random() < 0.6 else rng.choice(["2", 3, 0, -1])
        p = SemanticPredicateFormula(SEM["count"], v, rng.choice(["<var>", "<assgn>"]), n)
        return NegatedFormula(p) if rng.random() < 0.2 else p
    if r < 0.5:
        cnt[0] += 1
        v = BoundVariable(rng.choice([f"w{cnt[0]}", f"var_{cnt[0]}", f"x-{cnt[0]}.y", f"V{cnt[0]}^"]), rng.choice(["<var>", "<assgn>", "<rhs>", "<stmt>"]))
        q = ForallFormula if rng.random() < 0.5 else ExistsFormula
        return q(v, rng.choice(scope), core_formula(rng, d - 1, scope + [v], ints, cnt))
    if r < 0.6:
        cnt[0] += 1
        n = BoundVariable(f"n{cnt[0]}", Variable.NUMERIC_NTYPE)
        q = ForallIntFormula if rng.random() < 0.5 else ExistsIntFormula
        return q(n, core_formula(rng, d - 1, scope, ints + [n], cnt))
    c = ConjunctiveFormula if rng.random() < 0.5 else DisjunctiveFormula
    k = 2 if rng.random() < 0.6 else rng.choice([3, 3, 4])    # n-ary chains: fragment wf_coreN (ParseCoreNary.v)
    for _ in range(20):
        xs = [core_formula(rng, d - 1, scope, ints, cnt) for _ in range(k)]
        # Formula.__and__/__or__ collapse A op A and A op not A (not part of the fragment)
        if all(a != b and a != -b and b != -a for i, a in enumerate(xs) for b in xs[i + 1:]):
            return c(*xs)
    return xs[0]


def subformulas(f):
    yield f
    for a in getattr(f, "args", ()) if isinstance(f, (ConjunctiveFormula, DisjunctiveFormula, NegatedFormula)) else ():
        yield from subformulas(a)
    if hasattr(f, "inner_formula"):
        yield from subformulas(f.inner_formula)


def smt_atoms(f):
    for x in subformulas(f):
        if isinstance(x, SMTFormula) and not x.substitutions and not x.instantiated_variables:
            yield x


def atom_wrapper(a):
    """a constraint that declares the free variables of the atom a and has a as its body"""
    pre = ""
    for v in sorted(a.free_variables(), key=lambda v: v.name):
        if isinstance(v, Constant):
            if v.name != "start":
                raise Unsupported("constant")
        elif v.n_type == Variable.NUMERIC_NTYPE:
            pre += f"exists int {v.name}: "
        else:
            pre += f"forall {v.n_type} {v.name} in start: "
    return pre + smt_expr_to_str(a.formula)


def innermost(f):
    while hasattr(f, "inner_formula"):
        f = f.inner_formula
    return f


IMPORTS_FULL = "Outcome Unparse ParseCore ParseCoreFacts ParseCoreMore ParseCoreNary SmtRead SmtReadFacts"


def full_and_atom_cases(run, full_cases, full_meta, srcs, h, known):
    """stream `full`: on fragment members whose atoms are in wf_smt (decided in Coq: atoms_wfb), parse_full of the
    printed text = AST of parse_isla of that text WITH the atoms as s-expressions = binl f (theorem C07_print_parse_full).
    stream `atoms`: every distinct atom of the accepted sources / generated constraints: inside wf_smt (wf_smtb) the
    model text is the implementation's text and read_sexpr of it = the Z3 expression parse_isla builds from it
    (read inside a constraint that declares the atom's variables) = the atom (theorem C07_smt_print_read)"""
    out = []
    try:
        members, dt1 = lib.coq_mismatches("c07f", IMPORTS_FULL, "fun c : cformula * str * option cformula => negb (atoms_wfb (fst (fst c)))",
                                          full_cases, shard=60)
        ok_def = ("fun c : cformula * str * option cformula => let '(f, t, g) := c in negb (atoms_wfb f) || "
                  "match parse_full t, g with Some a, Some b => feqb a b && feqb b (binl f) | _, _ => false end")
        bad, dt2 = lib.coq_mismatches("c07g", IMPORTS_FULL, ok_def, full_cases, shard=60)
        h["full_stream"] = {"cases": len(full_cases), "atoms_in_wf_smt": len(members)}
        for i in members:
            run.count(("full", full_meta[i]["constraint_text"]), True)
        out += [dict(full_meta[i], obligation="parse_full (SmtRead.v) <-> parse_isla on the core fragment, atoms read") for i in bad]
    except RuntimeError as e:
        run.violation({"kind": "correspondence-not-evaluable", "obligation": "SmtRead.v parse_full cases", "error": str(e)[-2000:]},
                      found_input=False)
        dt1 = dt2 = 0
    # ---- atoms ----
    seen, acases, ameta = set(), [], []
    ah = {"distinct_atoms": 0, "recorded_class": 0, "wrapper_unsupported": 0}
    for f, gname in srcs:
        for a in smt_atoms(f):
            try:
                text = smt_expr_to_str(a.formula)
            except Exception:
                continue
            if (text, gname) in seen:
                continue
            seen.add((text, gname))
            inf = new_info()
            try:
                e = sx(a.formula, inf["strs"], inf["ops"])
                w = atom_wrapper(a)
            except Unsupported:
                ah["wrapper_unsupported"] += 1
                continue
            ah["distinct_atoms"] += 1
            if [k for k in classes(inf) if k in known]:
                ah["recorded_class"] += 1
                continue
            o = outcome(parse_isla, w, GRAMMARS[gname], SP, SE)
            back, why = "None", None
            if o[0] == "ok":
                b = innermost(o[1])
                try:
                    back = f"(Some {sx(b.formula, [], [])})" if isinstance(b, SMTFormula) else "None"
                except Unsupported:
                    back = "None"
                if not isinstance(b, SMTFormula) or not b.formula.eq(a.formula):
                    why = "re-read atom differs"
            else:
                why = f"reading raises {o[1]}"
            acases.append(f"({e}, {g_str(text)}, {back})")
            ameta.append({"atom_text": text, "wrapper": w, "impl_reread": why or "equal", "grammar": gname})
    try:
        amembers, dt3 = lib.coq_mismatches("c07h", IMPORTS_FULL, "fun c : sx * str * option sx => negb (wf_smtb (fst (fst c)))", acases, shard=150)
        ok_def = ("fun c : sx * str * option sx => let '(e, t, g) := c in negb (wf_smtb e) || "
                  "(str_eqb (smt_str e) t && match read_sexpr t, g with Some a, Some b => sx_eqb a b && sx_eqb b e | _, _ => false end)")
        abad, dt4 = lib.coq_mismatches("c07i", IMPORTS_FULL, ok_def, acases, shard=150)
        ah["evaluated"] = len(acases)
        ah["in_wf_smt"] = len(amembers)
        ah["outside_wf_smt_not_recorded"] = len(acases) - len(amembers)
        ah["outside_examples"] = [ameta[i]["atom_text"] for i in range(len(acases)) if i not in set(amembers)][:6]
        h["atom_stream"] = ah
        for i in amembers:
            run.count(("atom", ameta[i]["atom_text"]), "(" in ameta[i]["atom_text"][1:])
            if ameta[i]["impl_reread"] != "equal":
                run.violation({"kind": "an atom of the proved class wf_smt is not read back by the implementation",
                               "witness": ameta[i]})
        out += [dict(ameta[i], obligation="read_sexpr (SmtRead.v) <-> ISLa sexpr grammar + z3.parse_smt2_string on printed atoms") for i in abad]
        run.cov["coq_seconds_full_atoms"] = round(dt1 + dt2 + dt3 + dt4, 1)
    except RuntimeError as e:
        run.violation({"kind": "correspondence-not-evaluable", "obligation": "SmtRead.v read_sexpr cases", "error": str(e)[-2000:]},
                      found_input=False)
    return out


def core_cases(run, rng, n_gen, pool, hist, known):
    """stream `core`: for constraints of the fragment (decided in Coq: wf_coreb), parse_core of the printed text
    = canonical AST of parse_isla of that text = the constraint itself; the printed text = model text"""
    cands = []           # (formula, origin, grammar)
    for i in range(n_gen):
        cands.append((core_formula(rng, rng.randint(0, 4), [Constant("start", "<start>")], [], [0]), "core-gen", "assgn"))
    cands += [(f, "pool", gname) for f, gname in pool]
    lits, keep, skipped_const = [], [], 0
    for f, origin, gname in cands:
        try:
            lit = g_core(f, new_info())
            text = unparse_isla(f)
        except Exception:
            continue
        if text.startswith("const "):
            skipped_const += 1      # parse_isla cannot read a const header (AttributeError in exitConstDecl, design note defect 6)
            continue
        lits.append(lit)
        keep.append((f, origin, lit, text, gname))
    h = {"candidates": len(keep), "const_header_skipped": skipped_const, "in_fragment": 0, "in_fragment_generated": 0, "in_fragment_from_parsed_sources": 0,
         "multi_line": 0, "connective_first_child_parenthesised": 0, "connective_first_child_quantifier": 0}
    hist["core_fragment"] = h
    try:
        infrag, dt1 = lib.coq_mismatches("c07d", "Outcome Unparse ParseCore ParseCoreFacts ParseCoreMore ParseCoreNary",
                                         "fun f : cformula => negb (wf_coreNb f)", lits, shard=100)
    except RuntimeError as e:
        run.violation({"kind": "correspondence-not-evaluable", "obligation": "ParseCore.v wf_coreb cases", "error": str(e)[-2000:]},
                      found_input=False)
        return []
    cases, meta, full_cases, full_meta = [], [], [], []
    for i in infrag:
        f, origin, lit, text, gname = keep[i]
        # atoms are opaque for wf_core: a constraint whose ATOMS fall into a recorded class (string literal codec,
        # operators the lexer grammar cannot read, re.loop arity) is outside what the fragment theorem is about
        inf = new_info()
        try:
            g_formula(f, inf)
        except Unsupported:
            continue
        ks = [k for k in classes(inf) if k in known]
        if ks:
            h["in_fragment_but_recorded_class"] = h.get("in_fragment_but_recorded_class", 0) + 1
            continue
        if any(v.n_type not in GRAMMARS[gname] and v.n_type != Variable.NUMERIC_NTYPE for v in L.VariablesCollector.collect(f)):
            # AST-first constraints may quantify over a nonterminal the grammar does not have: no input of parse_isla
            h["type_not_in_grammar"] = h.get("type_not_in_grammar", 0) + 1
            continue
        o = outcome(parse_isla, text, GRAMMARS[gname], SP, SE)
        back, why = "None", None
        if o[0] == "ok":
            try:
                back = f"(Some {g_core(o[1], new_info())})"
            except Unsupported:
                back = "None"
            if o[1] != f:
                why = "re-parsed constraint differs"
        else:
            why = f"re-parse raises {o[1]}"
        cases.append(f"({lit}, {g_str(text)}, {back})")
        meta.append({"constraint_text": text, "origin": origin, "impl_reparse": why or "equal", "grammar": gname})
        try:    # stream `full`: the same case with the atoms as s-expressions (SmtRead.v: parse_full)
            back_full = f"(Some {g_core(o[1], new_info(), True)})" if o[0] == "ok" else "None"
            full_cases.append(f"({g_core(f, new_info(), True)}, {g_str(text)}, {back_full})")
            full_meta.append(meta[-1])
        except Unsupported:
            pass
        h["in_fragment"] += 1
        h["in_fragment_generated" if origin == "core-gen" else "in_fragment_from_parsed_sources"] += 1
        h["nary_connective"] = h.get("nary_connective", 0) + any(
            isinstance(x, (ConjunctiveFormula, DisjunctiveFormula)) and len(x.args) > 2 for x in subformulas(f))
        h["multi_line"] += "\n" in text
        h["connective_first_child_parenthesised"] += "((" in text
        h["connective_first_child_quantifier"] += "(forall" in text or "(exists" in text
        run.count(("core", text), "\n" in text and ("(forall" in text or "(exists" in text or "((" in text))
        if why is not None:
            run.violation({"kind": "unparse/parse round trip fails on the implementation inside the proved fragment wf_core",
                           "witness": {"constraint": text, "grammar": gname, "fails": why}})
    try:
        # n-ary fragment: the model text is the implementation's text, parse_core of it is the canonical AST of
        # parse_isla of it, and that AST is binl f — the LEFT-NESTED BINARY tree (theorem C07_print_parse_nary);
        # on binary constraints binl f = f (C07_binl_binary), i.e. the old predicate core_case_ok
        ok_def = ("fun c : cformula * str * option cformula => let '(f, t, g) := c in negb (wf_coreNb f) || "
                  "(str_eqb (unparse f) t && match parse_core t, g with Some a, Some b => ceqb a b && ceqb b (binl f) "
                  "| _, _ => false end)")
        bad, dt2 = lib.coq_mismatches("c07e", "Outcome Unparse ParseCore ParseCoreFacts ParseCoreMore ParseCoreNary",
                                      ok_def, cases, shard=60)
        run.cov["coq_seconds_core"] = round(dt1 + dt2, 1)
        out = [dict(meta[i], obligation="parse_core (ParseCore.v) <-> parse_isla on the core fragment") for i in bad]
        out += full_and_atom_cases(run, full_cases, full_meta, [(k[0], k[4]) for k in keep], h, known)
        return out
    except RuntimeError as e:
        run.violation({"kind": "correspondence-not-evaluable", "obligation": "ParseCore.v parse_core cases", "error": str(e)[-2000:]},
                      found_input=False)
        return []


# ---------------------------------------------------------------- known findings
def findings():
    """harness/meta/C07.findings.json is the source from which known_findings.json is generated; read it
    directly so that a stale generated file cannot hide or invent an entry"""
    import os
    p = os.path.join(lib.VERIF, "harness", "meta", "C07.findings.json")
    return json.load(open(p)) if os.path.exists(p) else lib.known_findings("C07")


def replay_known(run):
    """each open entry's witness is replayed on the implementation (line printed only if still present)"""
    for e in findings():
        if e.get("status") != "open":
            continue
        w = e["witness"]
        o = outcome(parse_isla, w["constraint"], GRAMMARS[w["grammar"]], SP, SE)
        if o[0] == "ok" and roundtrip(o[1], w["grammar"]) is not None:
            run.known(e["what"])


def run(run):
    rng = random.Random(run.seed)
    thorough = run.tier == "thorough"
    run.cov["rule"] = ("constraints: random ISLa concrete syntax (free nonterminals incl. <start>, XPath, match expressions "
                       "cut from grammar expansions incl. terminals needing escapes and optionals, numeric quantifiers, "
                       "predicates with string/int arguments, SMT prefix/infix/s-expression forms over the operators of the "
                       "lexer grammar, nasty string-literal pool) over 3 grammars, kept when parse_isla accepts; plus "
                       "formulas built AST-first. non-trivial = at least one quantifier and one string literal. "
                       "stream core: constraints of the proved fragment (generated through the constructors + the accepted sources "
                       "that the Coq checker wf_coreb admits): parse_core(text) = AST of parse_isla(text) = the constraint; "
                       "non-trivial = multi-line text whose connective has a parenthesised or quantified first child")
    NTREES[0] = 4 if thorough else 2
    proof_ok = run.proof_stage()
    replay_known(run)
    known = {e["class"]: e for e in findings() if e.get("status") == "open"}

    n_src = 4500 if thorough else 260
    n_ast = 900 if thorough else 100
    cases, meta = [], []
    hist = {"parsed": 0, "rejected": 0, "ast_first": 0, "unsupported": 0, "prop_fail_known": 0, "ops": {}, "classes": {}, "boundaries": {}}
    failures = []      # genuine, not known
    seen = set()
    t0 = time.time()
    budget = 1400 if thorough else 70

    def consider(f, gname, origin, src):
        info = new_info()
        try:
            lit_f = g_formula(f, info)
        except Unsupported:
            hist["unsupported"] += 1
            return
        try:
            text = unparse_isla(f)
            res_lit = f"(Ok {g_str(text)})"
        except Exception as e:
            text = "<raises " + type(e).__name__ + "> " + (src or lit_f[:200])
            res_lit = f"(Raise {lib.exn_name(e)})"
        key = (gname, text)
        if key in seen:
            return
        seen.add(key)
        cases.append(f"({lit_f}, {res_lit})")
        meta.append((gname, origin, src, text, f))
        nontriv = info["quant"] >= 1 and len(info["strs"]) >= 1
        run.count(key, nontriv)
        for o in set(info["ops"]) - {'#bad'}:
            h = hist["boundaries"] if o.startswith("#") else hist["ops"]
            h[o] = h.get(o, 0) + 1
        if origin == "src":
            why = roundtrip(f, gname)
            if why is not None:
                ks = [k for k in classes(info) if k in known]
                if ks:
                    hist["prop_fail_known"] += 1
                    for k in ks:
                        hist["classes"][k] = hist["classes"].get(k, 0) + 1
                    run.known(known[ks[0]]["what"])
                else:
                    failures.append({"constraint": src, "grammar": gname, "unparsed": text, "fails": why})
        if len(run.cov["samples"]) < 4 and nontriv:
            run.sample({"source": src, "grammar": gname, "unparsed": text})

    bsrc = boundary_sources()
    hist["boundary_block"] = {"sources": len(bsrc), "accepted": 0}
    for src in bsrc:
        o = outcome(parse_isla, src, GRAMMARS["assgn"], SP, SE)
        if o[0] == "ok":
            hist["boundary_block"]["accepted"] += 1
            consider(o[1], "assgn", "src", src)
        else:
            hist["rejected"] += 1
    for i in range(n_src):
        if time.time() - t0 > budget:
            break
        gname = rng.choice(["assgn", "assgn", "assgn", "nasty", "names"])
        gen = SrcGen(rng, gname)
        src = gen.formula([], [], rng.randint(0, 3))
        o = outcome(parse_isla, src, GRAMMARS[gname], SP, SE)
        if o[0] == "raise":
            hist["rejected"] += 1
            continue
        hist["parsed"] += 1
        consider(o[1], gname, "src", src)
    for i in range(n_ast):
        c = Constant("start", "<start>") if rng.random() < 0.6 else Constant(rng.choice(["c", "var"]), rng.choice(["<start>", "<stmt>"]))
        f = ast_formula(rng, rng.randint(0, 3), [c], [0])
        hist["ast_first"] += 1
        consider(f, "assgn", "ast", None)
    run.cov["generation_seconds"] = round(time.time() - t0, 1)

    disagreements = []
    ok_def = "fun c : cformula * res str => res_eqb str_eqb (unparse_res (fst c)) (snd c)"
    try:
        bad, dt = lib.coq_mismatches("c07a", "Outcome Unparse", ok_def, cases, shard=32 if not thorough else 150)
        run.cov["coq_seconds_unparse"] = round(dt, 1)
        for i in bad:
            gname, origin, src, text, f = meta[i]
            why = roundtrip(f, gname) if origin == "src" else None
            if why is not None:
                inf = new_info()
                g_formula(f, inf)
                if [k for k in classes(inf) if k in known]:
                    why = None      # the failure at this input belongs to a recorded class, not to the divergence
            disagreements.append({"constraint": src, "origin": origin, "grammar": gname, "impl_unparse": text,
                                  "model_case": cases[i][:1500], "property_at_input": why or "holds"})
    except RuntimeError as e:
        run.violation({"kind": "correspondence-not-evaluable", "obligation": "Unparse.v unparse cases", "error": str(e)[-2000:]},
                      found_input=False)

    # ---- string literal codec and fresh names ----
    codec_bad = codec_cases(run, rng, 500 if thorough else 160, hist)
    fresh_bad = fresh_cases(run, rng, 400 if thorough else 120)
    core_bad = core_cases(run, rng, 1500 if thorough else 100, [(m[4], m[0]) for m in meta][: (3000 if thorough else 140)], hist, known)

    hist["ops"] = dict(sorted(hist["ops"].items(), key=lambda kv: -kv[1]))
    run.cov["histogram"] = hist
    run.cov["formulas_tied"] = len(cases)
    run.cov["disagreements_checked"] = len(disagreements) + len(codec_bad) + len(fresh_bad) + len(core_bad)

    if failures:
        failures.sort(key=lambda d: len(d["constraint"]))
        import os
        if os.environ.get("C07_DUMP"):
            json.dump(failures, open(os.environ["C07_DUMP"], "w"), indent=1)
        run.violation({"kind": "unparse/parse round trip fails on the implementation", "witness": failures[0],
                       "all_failing": len(failures), "more": failures[1:4],
                       "how_to_replay": "./check C07 --replay <this file>"})
    bad_with_input = [d for d in disagreements if d["property_at_input"] != "holds"]
    if bad_with_input and not failures:
        run.violation({"kind": "printer differs from model and the round trip fails", "witness": bad_with_input[0]})
    elif disagreements or codec_bad or fresh_bad or core_bad:
        first = (disagreements or codec_bad or fresh_bad or core_bad)[0]
        run.violation({"kind": ("correspondence broken; failing inputs are reported by the other VIOLATION of this run" if failures else
                                "correspondence broken, round trip holds on the searched inputs"), "first": first,
                       "count": len(disagreements) + len(codec_bad) + len(fresh_bad) + len(core_bad),
                       "obligation": (first.get("obligation") if isinstance(first, dict) and first.get("obligation") and not disagreements else
                                      "correspondence Unparse.v <-> isla.language.ISLaUnparser / z3_helpers.smt_expr_to_str / fresh_variable")},
                      found_input=False)
    if not proof_ok:
        run.violation({"kind": "proof obligation failed", "problems": run.proof_problems,
                       "obligation": "Props/C07.v"}, found_input=False)
    run.cov["trusted_base"] = lib.TRUSTED_BASE_COMMON + [
        "the ANTLR parser / ISLaEmitter are modelled only for the core fragment (ParseCore.v: parse_core, tied by the stream `core` to parse_isla on constraints that the Coq checker wf_coreb accepts); outside it re-parsing is observed on the implementation (part ii), not proved",
        "core stream: atoms compared as printed text; their free-variable lists are ordered by first occurrence in the text on both sides (SMTFormula.free_variables_ comes from a Python set); constraints with a const header are skipped (parse_isla cannot read any const declaration)",
        "streams `full` / `atoms`: read_sexpr (SmtRead.v) is an untyped reference reader of printed atoms (operator table, no sort check); it is tied to ISLa's sexpr grammar + z3.parse_smt2_string only on texts that smt_expr_to_str printed; an atom alone is re-read on the implementation inside a wrapper constraint `forall <T> v in start: ... ATOM` that declares its variables",
        "Z3 4.11.2 string codec (Z3_get_lstring, smt2 scanner, zstring escapes incl. sign extension of bytes >= 0x80) and the "
        "ANTLR STRING token are modelled in Unparse.v and tied by the literal cases of this run",
        "harness conversion of z3 expressions to the `sx` AST (same case order as smt_expr_to_str) and decode of as_string()",
        "match-expression optionals are flattened to dummy elements '[' ... ']' by the harness"]


def codec_cases(run, rng, n, hist):
    """str_lit s = smt_expr_to_str(StringVal s);  read_lit(text) = what parse_isla makes of the literal"""
    alphabet = [34, 92, 117, 123, 125, 48, 52, 49, 97, 102, 0, 10, 32, 127, 128, 233, 255, 256, 0x4e2d, 0x1f600, 0x2ffff, 110, 40, 41]
    g = GRAMMARS["assgn"]
    cases, meta = [], []
    strs = [[], [92], [92, 34], [34], [0], [0, 0], [92, 117], [92, 117, 123, 125], [92, 117, 123, 52, 49, 125], [233], [92, 92],
            # sub-classes of theorem C07_escape_roundtrip (guard K_str s = false): NUL, chars >= 256, harmless backslashes
            [97, 0, 98], [256], [0x4e2d, 97], [0x1f600], [0x2ffff], [92, 110], [92, 97], [92, 92, 97], [92, 256], [92, 0],
            [97, 92, 98, 34], [92, 98, 34], [0, 92, 110, 92, 117, 123, 125, 34, 256, 92, 0, 0x2ffff, 92, 92, 97, 127, 92, 256],
            # and of the refuted complement
            [128], [92, 92, 34], [0x30000]]
    while len(strs) < n:
        strs.append([rng.choice(alphabet) for _ in range(rng.randint(1, 6))])
    for cps in strs:
        v = z3.StringVal("".join(chr(c) for c in cps))
        cps = decode_lstring(v.as_string())       # StringVal itself interprets escapes
        text = smt_expr_to_str(v)
        o = outcome(parse_isla, f"forall <var> x: (= x {text})", g, SP, SE)
        back = None
        if o[0] == "ok":
            try:
                rhs = o[1].inner_formula.formula.children()[1]
                back = decode_lstring(rhs.as_string()) if z3.is_string_value(rhs) else None
            except Exception:
                back = None
        cases.append(f"({g_cps(cps)}, {g_str(text)}, {g_option(back, g_cps)})")
        meta.append({"string": cps, "impl_text": text, "impl_readback": back})
        run.count(("lit", tuple(cps)), len(cps) >= 2)
        k = "lit_roundtrip_ok" if back == cps else "lit_roundtrip_fails"
        hist[k] = hist.get(k, 0) + 1
        if back != cps and not K_str(cps):
            run.violation({"kind": "string literal does not round-trip outside the recorded class",
                           "witness": meta[-1]})
    ok_def = ("fun c : str * str * option str => let '(s, t, b) := c in str_eqb (str_lit s) t && "
              "match read_lit (t ++ [41%N]), b with Some (v, _), Some w => str_eqb v w | None, None => true | _, _ => false end")
    try:
        bad, dt = lib.coq_mismatches("c07b", "Outcome Unparse", ok_def, cases, shard=400)
        return [dict(meta[i], obligation="str_lit/read_lit <-> smt_expr_to_str/parse_isla") for i in bad]
    except RuntimeError as e:
        run.violation({"kind": "correspondence-not-evaluable", "obligation": "Unparse.v literal cases", "error": str(e)[-2000:]},
                      found_input=False)
        return []


def fresh_cases(run, rng, n):
    cases, meta = [], []
    for i in range(n):
        base = rng.choice(["var", "a", "a_0", "start", "x_1"])
        pool = [base] + [f"{base}_{k}" for k in range(0, 13)] + ["y", "a", "a_0", "a_0_0", "<a>", "<var>"]
        used = rng.sample(pool, rng.randint(0, len(pool)))
        if rng.random() < 0.3:
            used = [base] + [f"{base}_{k}" for k in range(rng.randint(0, 12))]
        res = L.fresh_variable(set(used), base, "<t>", BoundVariable, add=False).name
        cases.append(f"(0%nat, {g_list(used, g_str)}, (@nil (str * str)), {g_str(base)}, {g_str(res)})")
        meta.append({"fn": "fresh_variable", "used": used, "base": base, "impl": res})
        run.count(("fresh", tuple(used), base), base in used)
        # register_var_for_free_nonterminal
        em = L.ISLaEmitter(GRAMMARS["names"])
        em.used_variables = FrozenOrderedSet(used)
        free = {}
        for nt in rng.sample(["<a>", "<a_0>", "<var>", "<start>"], rng.randint(0, 3)):
            free[nt] = BoundVariable(rng.choice([nt[1:-1], nt[1:-1] + "_0", "a_0"]), nt)
        em.vars_for_free_nonterminals = dict(free)
        nt = rng.choice(["<a>", "<a_0>", "<var>", "<start>"])
        res = em.register_var_for_free_nonterminal(nt).name
        fm = g_list([f"({g_str(k)}, {g_str(v.name)})" for k, v in free.items()])
        cases.append(f"(1%nat, {g_list(used, g_str)}, {fm}, {g_str(nt)}, {g_str(res)})")
        meta.append({"fn": "register_var_for_free_nonterminal", "used": used, "free": {k: v.name for k, v in free.items()},
                     "nonterminal": nt, "impl": res})
        run.count(("reg", tuple(used), tuple(free), nt), True)
    ok_def = ("fun c : nat * list str * list (str * str) * str * str => let '(k, used, free, b, r) := c in "
              "match (match k with O => fresh_name used b | _ => register_free used free b end) with "
              "Some x => str_eqb x r | None => false end")
    try:
        bad, dt = lib.coq_mismatches("c07c", "Outcome Unparse", ok_def, cases, shard=400)
        return [dict(meta[i], obligation="fresh_name/register_free <-> fresh_variable/register_var_for_free_nonterminal") for i in bad]
    except RuntimeError as e:
        run.violation({"kind": "correspondence-not-evaluable", "obligation": "Unparse.v fresh cases", "error": str(e)[-2000:]},
                      found_input=False)
        return []


def replay(path):
    d = json.load(open(path))
    w = d.get("witness")
    if not w or "constraint" not in w or not w.get("constraint"):
        print("replay file names an obligation, not a constraint:", d.get("obligation") or d.get("kind"))
        return 1
    o = outcome(parse_isla, w["constraint"], GRAMMARS[w["grammar"]], SP, SE)
    if o[0] == "raise":
        print("constraint is not accepted by parse_isla:", o[1])
        return 0
    why = roundtrip(o[1], w["grammar"])
    print("constraint:", w["constraint"])
    print("unparsed:\n" + unparse_isla(o[1]))
    print("round trip:", why or "holds")
    return 1 if why else 0
