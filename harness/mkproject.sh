#!/bin/bash
# regenerate coq/_CoqProject from the files on disk and (re)create the Makefile
cd "$(dirname "$0")/../coq" || exit 2
{
  echo "-Q Base ISLA"; 
  for d in Tree Logic Grammar Smt Codec Solver Formal Props; do echo "-Q $d ISLA"; done
  find Base Tree Logic Grammar Smt Codec Solver Formal Props -name '*.v' | sort
} > _CoqProject.new
if ! cmp -s _CoqProject.new _CoqProject 2>/dev/null || [ ! -f Makefile ]; then
  mv _CoqProject.new _CoqProject
  coq_makefile -f _CoqProject -o Makefile >/dev/null
else
  rm -f _CoqProject.new
fi
