#!/usr/bin/env python3
"""validate MANIFEST.json and evidence/*.json against the schemas (run with python3-vt: has jsonschema)"""
import json, glob, sys, jsonschema
ok = True
def chk(f, schema):
    global ok
    try:
        jsonschema.validate(json.load(open(f)), json.load(open(schema)))
        print("valid  ", f)
    except Exception as e:
        ok = False
        print("INVALID", f, str(e)[:300])
chk("/verif/MANIFEST.json", "/root/.vp/MANIFEST.schema.json")
for f in sorted(glob.glob("/verif/evidence/*.json")):
    chk(f, "/root/.vp/EVIDENCE.schema.json")
sys.exit(0 if ok else 1)
