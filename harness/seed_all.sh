#!/bin/bash
# process every ready seed (/tmp/seed-<ID>/out/<n> with patch.diff + demo.py) that has not been confirmed yet
cd /verif
for d in /tmp/seed-C*/out/*; do
  [ -f $d/patch.diff ] && [ -f $d/demo.py ] && [ -f $d/meta.json ] || continue
  id=$(echo $d | sed 's/.*seed-\(C[0-9]*\).*/\1/'); n=$(basename $d)
  name=$id-$n
  [ -f seeded/$name/confirm.txt ] && continue
  [ -d seeded/$name ] && continue
  mkdir -p seeded/$name
  echo "$id $d $name"
done > /tmp/seed_todo.txt
cat /tmp/seed_todo.txt | xargs -P ${1:-3} -L 1 bash -c 'harness/confirm_seed.sh $0 $1 $2 > /tmp/confirm-$2.log 2>&1'
