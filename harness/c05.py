"""C05 — ground SMT-LIB atoms are judged as Z3 judges them.

Three-way comparison on generated atoms (built from SMT-LIB text with z3.parse_smt2_string, as ISLa does):
  impl  : isla.z3_helpers.is_valid on the instantiated atom, and isla.evaluator.evaluate on the
          single-atom constraint `forall <a> x in start: forall <b> y in start: atom(x, y)`
  model : Smt/PyFast.v (is_valid / evaluate_atom), evaluated inside Coq
  Z3    : the real solver on the ground atom (Not(e) and e), also used to VALIDATE the spec model
          Smt/SmtSem.v (a disagreement there is a bug of the spec model and is reported as such).
A VIOLATION with witness needs impl != Z3 on an atom outside every recorded class K_* and outside
the property's exclusion (str.to.int of a non-numeral); classes are computed in Coq (Smt/SmtClasses.v)."""
import concurrent.futures as cf
import json, os, random, re, time
import z3
import lib
from lib import g_str, g_Z

from isla import language as L
from isla.evaluator import evaluate
from isla.derivation_tree import DerivationTree as DT
from isla.z3_helpers import is_valid, evaluate_z3_expression, get_symbols

CLASS_NAMES = {0: "agree", 1: "K_noimpl", 2: "K_comp", 3: "K_lit_enc", 4: "K_mod_neg", 5: "K_zero_div",
               6: "K_at_range", 7: "K_substr_neg", 8: "K_to_code_len", 9: "K_to_int_signed",
               10: "X_to_int_nonnum(excluded)", 11: "K_loop_shape", 12: "K_range_shape",
               13: "K_newline_subject", 14: "K_tore_backslash", 15: "K_illsorted"}
EXCLUDED_BY_PROPERTY = {10}

STR_POOL = ["", "a", "b", "ab", "abab", "ba", "\n", "a\n", "\"", "\\", "\\t", "a\\nb", "é", "€", "x€",
            "-0", "007", "+1", "12", "-12", "5", " 5", "1.5", "x\\u", "0", "a b", "]", "^", "-", "z", "\t", "A"]
INT_POOL = [0, 1, 2, 3, 5, 7, 10, 12, 97]

OP1 = {"ONot": "not", "OLen": "str.len", "OToInt": "str.to_int", "OToCode": "str.to_code",
       "OFromInt": "str.from_int", "OFromCode": "str.from_code", "OIsDigit": "str.is_digit", "ONeg": "-",
       "OAbs": "abs", "OToRe": "str.to_re", "OStar": "re.*", "OPlus": "re.+", "OOpt": "re.opt", "OComp": "re.comp"}
OP2 = {"OAnd": "and", "OOr": "or", "OEq": "=", "OLt": "<", "OLe": "<=", "OGt": ">", "OGe": ">=", "OAdd": "+",
       "OSub": "-", "OMul": "*", "ODiv": "div", "OMod": "mod", "OConcat": "str.++", "OAt": "str.at",
       "OPrefixOf": "str.prefixof", "OSuffixOf": "str.suffixof", "OContains": "str.contains", "OStrLt": "str.<",
       "OStrLe": "str.<=", "OInRe": "str.in_re", "ORConcat": "re.++", "ORUnion": "re.union", "ORInter": "re.inter",
       "ORDiff": "re.diff", "ORange": "re.range"}
OP3 = {"OSubstr": "str.substr", "OIndexOf": "str.indexof", "OReplace": "str.replace", "OReplaceAll": "str.replace_all"}
NARY = {"OAnd", "OOr", "OAdd", "OMul"}


# --------------------------------------------------------------------------- generator
class Gen:
    FAST = {"concat", "at", "substr", "len", "to_int", "to_code", "add", "sub", "mul", "mod", "add3", "tore", "union", "star",
            "plus", "opt", "loop", "not", "and", "or", "eqi", "eqs", "eqb", "lt", "le", "gt", "ge", "inre", "and3"}

    def __init__(self, rng, fast=False):
        self.r = rng
        self.fast = fast

    def pick(self, ks):
        if self.fast:
            ks = [k for k in ks if k in self.FAST]
        return self.r.choice(ks)

    def s_lit(self):
        return ("str", self.r.choice(STR_POOL))

    def gen(self, sort, d):
        return getattr(self, "g_" + sort)(d)

    def g_str(self, d):
        r = self.r
        if d <= 0 or r.random() < 0.35:
            k = r.random()
            return ("var", "x") if k < 0.3 else ("var", "y") if k < 0.45 else self.s_lit()
        k = self.pick(["concat", "at", "substr", "replace", "replace_all", "from_int", "from_code", "concat", "at", "substr"])
        if k == "concat": return ("e2", "OConcat", self.g_str(d - 1), self.g_str(d - 1))
        if k == "at": return ("e2", "OAt", self.g_str(d - 1), self.g_int(d - 1))
        if k == "substr": return ("e3", "OSubstr", self.g_str(d - 1), self.g_int(d - 1), self.g_int(d - 1))
        if k == "replace": return ("e3", "OReplace", self.g_str(d - 1), self.g_str(d - 1), self.g_str(d - 1))
        if k == "replace_all": return ("e3", "OReplaceAll", self.g_str(d - 1), self.g_str(d - 1), self.g_str(d - 1))
        if k == "from_int": return ("e1", "OFromInt", self.g_int(d - 1))
        return ("e1", "OFromCode", self.g_int(d - 1))

    def g_int(self, d):
        r = self.r
        if d <= 0 or r.random() < 0.3:
            n = r.choice(INT_POOL)
            k = r.random()
            if k < 0.15: return ("e2", "OSub", ("int", 0), ("int", n))      # negative value through the fast path
            if k < 0.22 and not self.fast: return ("e1", "ONeg", ("int", n))                  # SMT-LIB negative literal (- n)
            return ("int", n)
        k = self.pick(["len", "len", "to_int", "to_code", "add", "sub", "mul", "div", "mod", "mod", "abs", "neg", "indexof", "add3"])
        if k == "len": return ("e1", "OLen", self.g_str(d - 1))
        if k == "to_int": return ("e1", "OToInt", self.g_str(d - 1))
        if k == "to_code": return ("e1", "OToCode", self.g_str(d - 1))
        if k == "abs": return ("e1", "OAbs", self.g_int(d - 1))
        if k == "neg": return ("e1", "ONeg", self.g_int(d - 1))
        if k == "indexof": return ("e3", "OIndexOf", self.g_str(d - 1), self.g_str(d - 1), self.g_int(d - 1))
        if k == "add3": return ("n", r.choice(["OAdd", "OMul"]), [self.g_int(d - 1) for _ in range(3)])
        return ("e2", {"add": "OAdd", "sub": "OSub", "mul": "OMul", "div": "ODiv", "mod": "OMod"}[k],
                self.g_int(d - 1), self.g_int(d - 1))

    def g_re(self, d):
        r = self.r
        if d <= 0 or r.random() < 0.3:
            k = r.random()
            if k < 0.55: return ("e1", "OToRe", self.g_str(0))
            if k < 0.8:
                a, b = r.choice(["a", "0", "A", "b", "z", "-", "ab", ""]), r.choice(["z", "9", "b", "a", "]", "c"])
                return ("e2", "ORange", ("str", a), ("str", b))
            return ("rall",) if self.fast else r.choice([("rall",), ("rall",), ("rnone",), ("rallchar",)])
        k = self.pick(["concat", "union", "star", "plus", "opt", "loop", "loop", "comp", "inter", "diff", "pow", "tore", "concat", "union"])
        if k == "tore": return ("e1", "OToRe", self.g_str(d - 1))
        if k in ("star", "plus", "opt", "comp"):
            return ("e1", {"star": "OStar", "plus": "OPlus", "opt": "OOpt", "comp": "OComp"}[k], self.g_re(d - 1))
        if k == "loop":
            lo = r.choice([0, 1, 2])
            hi = r.choice([None, lo, lo + 1, 2, 0]) if r.random() < 0.9 else None
            return ("loop", lo, hi, self.g_re(d - 1))
        if k == "pow": return ("pow", r.choice([0, 1, 2]), self.g_re(d - 1))
        return ("e2", {"concat": "ORConcat", "union": "ORUnion", "inter": "ORInter", "diff": "ORDiff"}[k],
                self.g_re(d - 1), self.g_re(d - 1))

    def g_bool(self, d):
        r = self.r
        if d <= 0:
            return ("bool", r.random() < 0.5)
        k = self.pick(["not", "and", "or", "eqi", "eqs", "eqb", "lt", "le", "gt", "ge", "prefixof", "suffixof", "contains",
                      "strlt", "strle", "isdigit", "inre", "inre", "inre", "eqi", "eqs", "and3"])
        if k == "not": return ("e1", "ONot", self.g_bool(d - 1))
        if k in ("and", "or"): return ("e2", "OAnd" if k == "and" else "OOr", self.g_bool(d - 1), self.g_bool(d - 1))
        if k == "and3": return ("n", r.choice(["OAnd", "OOr"]), [self.g_bool(d - 1) for _ in range(3)])
        if k == "eqi": return ("e2", "OEq", self.g_int(d - 1), self.g_int(d - 1))
        if k == "eqs": return ("e2", "OEq", self.g_str(d - 1), self.g_str(d - 1))
        if k == "eqb": return ("e2", "OEq", self.g_bool(d - 1), self.g_bool(d - 1))
        if k in ("lt", "le", "gt", "ge"):
            return ("e2", {"lt": "OLt", "le": "OLe", "gt": "OGt", "ge": "OGe"}[k], self.g_int(d - 1), self.g_int(d - 1))
        if k == "isdigit": return ("e1", "OIsDigit", self.g_str(d - 1))
        if k == "inre":
            rx = self.g_re(d - 1)
            if r.random() < 0.6:     # subject assembled from the literals of the regex (incl. zero repetitions)
                lits = [x[1] for x in subterms(rx) if x[0] == "str"] or ["a"]
                subj = ("str", "".join(r.choice(lits) for _ in range(r.choice([0, 1, 1, 2, 2, 3])))[:8])
                if r.random() < 0.3:
                    subj = ("e2", "OConcat", subj, ("var", "x"))
                return ("e2", "OInRe", subj, rx)
            return ("e2", "OInRe", self.g_str(d - 1), rx)
        return ("e2", {"prefixof": "OPrefixOf", "suffixof": "OSuffixOf", "contains": "OContains", "strlt": "OStrLt",
                       "strle": "OStrLe"}[k], self.g_str(d - 1), self.g_str(d - 1))


def subterms(e):
    yield e
    k = e[0]
    kids = e[2:] if k in ("e1", "e2", "e3") else e[2] if k == "n" else [e[-1]] if k in ("loop", "pow") else []
    for a in kids:
        yield from subterms(a)



# --------------------------------------------------------------------------- long numerals (>= 2^53)
def long_numeral(rng):
    """plain decimal numeral of 16-21 digits: not representable exactly as a Python float"""
    if rng.random() < 0.3:
        base = rng.choice([2 ** 53, 2 ** 63, 2 ** 64, 10 ** 16, 10 ** 18, 10 ** 20, 2 ** 53 * 1000, 2 ** 60 + 2 ** 7])
        n = base + rng.choice([-3, -2, -1, 0, 1, 2, 3])
    else:
        n = rng.randrange(10 ** 15, 10 ** 21)
    s = str(n)
    return ("0" * rng.randint(1, 3) + s) if rng.random() < 0.12 else s


def ilit(n):
    """integer value as a fast-path term (SMT-LIB has no negative literals)"""
    return ("int", n) if n >= 0 else ("e2", "OSub", ("int", 0), ("int", -n))


def gen_numeric(rng):
    """atom over str.to_int of long numerals: comparisons / equality / mod / arithmetic, where neighbouring
    numerals (same float) must be told apart.  Returns (atom, x, y)."""
    a = long_numeral(rng)
    b = str(int(a) + rng.choice([-5, -3, -1, 1, 1, 2, 64])) if rng.random() < 0.7 else long_numeral(rng)
    ia, ib = int(a), int(b)
    lit_side = rng.random() < 0.25          # numeral as literal of the atom (eager evaluation) instead of variable
    TX = ("e1", "OToInt", ("str", a) if lit_side else X)
    TY = ("e1", "OToInt", Y)
    k = rng.randrange(9)
    d = rng.choice([0, 0, 1, -1, 2])
    if k == 0: e = ("e2", rng.choice(["OEq", "OLt", "OLe", "OGt", "OGe"]), TX, TY)
    elif k == 1: e = ("e2", rng.choice(["OEq", "OLe", "OGe", "OLt"]), TX, ("int", ia + d))
    elif k == 2:
        m = rng.choice([2, 3, 7, 10, 97, 1000, 2 ** 32 + 1])
        e = ("e2", "OEq", ("e2", "OMod", TX, ("int", m)), ("int", (ia % m + d) % m if d else ia % m))
    elif k == 3: e = ("e2", "OEq", ("e2", "OSub", TX, TY), ilit(ia - ib + d))
    elif k == 4: e = ("e2", rng.choice(["OEq", "OLe"]), ("e2", "OAdd", TX, ilit(ib - ia + d)), TY)
    elif k == 5: e = ("e2", rng.choice(["OLt", "OEq", "OGe"]), ("e2", "OMul", TX, ("int", 2)), ("e2", "OAdd", TY, TY))
    elif k == 6: e = ("e1", "ONot", ("e2", "OEq", TX, TY))
    elif k == 7: e = ("e2", "OAnd", ("e2", "OLe", TX, TY), ("e2", "OLe", TY, TX))
    else: e = ("e2", "OEq", ("e2", "OMod", ("e2", "OAdd", TX, TY), ("int", 10)), ("int", ((ia + ib) % 10 + d) % 10))
    return e, a, b


# --------------------------------------------------------------------------- stateful stream: deeply nested families
def nest(op, items, leaf):
    acc = leaf
    for it in reversed(items):
        acc = ("e2", op, it, acc)
    return acc


def gen_deep_family(rng):
    """A family of ground atoms nested deeper than z3's printer shows (> 22 levels) that differ only deep inside
    and have different truth values.  Returns list of (atom, x, y) in the order in which they are to be judged
    (members recur, so a verdict remembered from an earlier, look-alike atom would be noticed)."""
    depth = rng.randint(23, 33)
    kind = rng.choice(["concat-len", "concat-eq", "concat-inre", "add", "re-concat", "and", "or"])
    members = []
    if kind.startswith("concat"):
        items = [("str", rng.choice(["a", "b", "ab", "", "é", "x y", "0", "ba"])) for _ in range(depth)]
        base = "".join(i[1] for i in items)
        leaves = rng.sample(["", "a", "bb", "abc", "zzzz", "7"], 3)
        use_var = rng.random() < 0.5
        for lf in leaves:
            t = nest("OConcat", items, X if use_var else ("str", lf))
            if kind == "concat-len":
                e = ("e2", rng.choice(["OEq", "OLe"]), ("e1", "OLen", t), ("int", len(base) + len(leaves[0])))
            elif kind == "concat-eq":
                e = ("e2", "OEq", t, ("str", base + leaves[0]))
            else:
                e = ("e2", "OInRe", t, ("e1", "OStar", ("e2", "ORUnion", ("e2", "ORange", ("str", "a"), ("str", "c")),
                                                      ("e1", "OToRe", ("str", rng.choice(["é", " ", "x", "y", "0"]))))))
            members.append((e, lf if use_var else "q", ""))
    elif kind == "add":
        items = [("int", rng.choice([0, 1, 2, 3, 5])) for _ in range(depth)]
        tot = sum(i[1] for i in items)
        leaves = rng.sample([0, 1, 2, 7, 12], 3)
        use_var = rng.random() < 0.5
        op = rng.choice(["OEq", "OLe", "OLt", "OGe"])
        for lf in leaves:
            leaf = ("e1", "OLen", X) if use_var else ("int", lf)
            members.append((("e2", op, nest("OAdd", items, leaf), ("int", tot + leaves[0])), "x" * lf if use_var else "q", ""))
    elif kind == "re-concat":
        items = [rng.choice(["a", "b", "ab", "c"]) for _ in range(depth)]
        leaves = rng.sample(["a", "bb", "c", "", "ab"], 3)
        subj = "".join(items) + leaves[0]
        for lf in leaves:
            rx = nest("ORConcat", [("e1", "OToRe", ("str", i)) for i in items], ("e1", "OToRe", ("str", lf)))
            members.append((("e2", "OInRe", X, rx), subj, ""))
    else:
        op = "OAnd" if kind == "and" else "OOr"
        neutral = [("e2", "OLe", ("int", 1), ("int", 2)), ("bool", True), ("e2", "OEq", ("str", "a"), ("str", "a"))] if kind == "and" \
            else [("e2", "OLt", ("int", 2), ("int", 1)), ("bool", False), ("e2", "OEq", ("str", "a"), ("str", "b"))]
        items = [rng.choice(neutral) for _ in range(depth)]
        use_var = rng.random() < 0.5
        for lf in rng.sample(["a", "b", "", "ab"], 3):
            leaf = ("e2", "OEq", X, ("str", "a")) if use_var else ("e2", "OEq", ("str", lf), ("str", "a"))
            members.append((("e1", "ONot", nest(op, items, leaf)) if rng.random() < 0.3 else nest(op, items, leaf),
                            lf if use_var else "q", ""))
    order = [0, 1, 2, 0, 1] if rng.random() < 0.5 else [1, 0, 2, 1, 0]
    return kind, [members[i] for i in order]


# --------------------------------------------------------------------------- re-instantiation stream
def str_val(e, env):
    k = e[0]
    if k == "str": return e[1]
    if k == "var": return env[e[1]]
    if k == "e2" and e[1] == "OConcat": return str_val(e[2], env) + str_val(e[3], env)
    raise ValueError(e)


def gen_re_var(rng, d):
    """regex whose operands mention the variable x (str.to_re x, str.to_re (str.++ x k), ranges, re.++ / union / * / + / opt)"""
    if d <= 0 or rng.random() < 0.3:
        k = rng.random()
        lit = ("str", rng.choice(["a", "b", "01", "=", "ab", "é", "."]))
        if k < 0.45: return ("e1", "OToRe", X)
        if k < 0.6: return ("e1", "OToRe", ("e2", "OConcat", X, lit) if rng.random() < 0.5 else ("e2", "OConcat", lit, X))
        if k < 0.85: return ("e1", "OToRe", lit)
        return ("e2", "ORange", ("str", rng.choice(["a", "0", "A"])), ("str", rng.choice(["c", "z", "9"])))
    k = rng.choice(["cat", "cat", "cat", "union", "star", "plus", "opt"])
    if k == "cat": return ("e2", "ORConcat", gen_re_var(rng, d - 1), gen_re_var(rng, d - 1))
    if k == "union": return ("e2", "ORUnion", gen_re_var(rng, d - 1), gen_re_var(rng, d - 1))
    return ("e1", {"star": "OStar", "plus": "OPlus", "opt": "OOpt"}[k], gen_re_var(rng, d - 1))


def sample_match(rx, env, rng):
    """some string of the regex's language under the instantiation env (SMT-LIB reading)"""
    k = rx[1]
    if k == "OToRe": return str_val(rx[2], env)
    if k == "ORange":
        a, b = rx[2][1], rx[3][1]
        return chr(rng.randint(ord(a), ord(b))) if ord(a) <= ord(b) else ""
    if k == "ORConcat": return sample_match(rx[2], env, rng) + sample_match(rx[3], env, rng)
    if k == "ORUnion": return sample_match(rng.choice([rx[2], rx[3]]), env, rng)
    n = {"OStar": rng.choice([0, 1, 2]), "OPlus": rng.choice([1, 2]), "OOpt": rng.choice([0, 1])}[k]
    return "".join(sample_match(rx[2], env, rng) for _ in range(n))


def gen_reinst_family(rng):
    """ONE atom whose regex operand mentions x, judged 5 times in a row with different instantiations
    (the matching subject of one instantiation is offered again under the next one)"""
    while True:
        rx = gen_re_var(rng, rng.choice([1, 2, 2, 3]))
        if "var" in ops_of(rx, []):
            break
    subj = Y if rng.random() < 0.75 else ("e2", "OConcat", Y, ("str", rng.choice(["", "a", "01"])))
    e = ("e2", "OInRe", subj, rx)
    if rng.random() < 0.25:
        e = ("e1", "ONot", e) if rng.random() < 0.5 else ("e2", "OAnd", e, ("e2", "OGe", ("e1", "OLen", Y), ("int", 0)))
    xs = rng.sample(["a", "b", "ab", "0", "a1", "é", "", "ba", "c"], 3)
    ys = [sample_match(rx, {"x": x}, rng)[:12] for x in xs]
    seq = [(xs[0], ys[0]), (xs[1], ys[0]), (xs[1], ys[1]), (xs[2], ys[1]), (xs[0], ys[2])]
    return [(e, x, y) for x, y in seq]

# --------------------------------------------------------------------------- printers
def smt_str(s):
    out = []
    for ch in s:
        o = ord(ch)
        if ch == '"':
            out.append('""')
        elif 32 <= o <= 126 and ch != "\\":
            out.append(ch)
        else:
            out.append("\\u{%x}" % o)
    return '"' + "".join(out) + '"'


def to_smt(e):
    k = e[0]
    if k == "str": return smt_str(e[1])
    if k == "var": return e[1]
    if k == "int": return str(e[1])
    if k == "bool": return "true" if e[1] else "false"
    if k == "rall": return "re.all"
    if k == "rnone": return "re.none"
    if k == "rallchar": return "re.allchar"
    if k == "e1": return f"({OP1[e[1]]} {to_smt(e[2])})"
    if k == "e2": return f"({OP2[e[1]]} {to_smt(e[2])} {to_smt(e[3])})"
    if k == "e3": return f"({OP3[e[1]]} {to_smt(e[2])} {to_smt(e[3])} {to_smt(e[4])})"
    if k == "n": return f"({OP2[e[1]]} " + " ".join(to_smt(a) for a in e[2]) + ")"
    if k == "loop":
        idx = f"(_ re.loop {e[1]} {e[2]})" if e[2] is not None else f"(_ re.loop {e[1]})"
        return f"({idx} {to_smt(e[3])})"
    if k == "pow": return f"((_ re.^ {e[1]}) {to_smt(e[2])})"
    raise ValueError(e)


def to_coq(e, env):
    """Gallina `expr` with EVar leaves carrying the instantiation"""
    k = e[0]
    if k == "str": return f"(EStr {g_str(e[1])})"
    if k == "var": return f"(EVar {g_str(env[e[1]])})"
    if k == "int": return f"(EInt {g_Z(e[1])})"
    if k == "bool": return f"(EBool {'true' if e[1] else 'false'})"
    if k == "rall": return "ERAll"
    if k == "rnone": return "ERNone"
    if k == "rallchar": return "ERAllChar"
    if k == "e1": return f"(E1 {e[1]} {to_coq(e[2], env)})"
    if k == "e2": return f"(E2 {e[1]} {to_coq(e[2], env)} {to_coq(e[3], env)})"
    if k == "e3": return f"(E3 {e[1]} {to_coq(e[2], env)} {to_coq(e[3], env)} {to_coq(e[4], env)})"
    if k == "n":
        acc = to_coq(e[2][0], env)
        for a in e[2][1:]:
            acc = f"(E2 {e[1]} {acc} {to_coq(a, env)})"
        return acc
    if k == "loop":
        hi = "None" if e[2] is None else f"(Some {e[2]}%nat)"
        return f"(ELoop {e[1]}%nat {hi} {to_coq(e[3], env)})"
    if k == "pow": return f"(EPow {e[1]}%nat {to_coq(e[2], env)})"
    raise ValueError(e)


def ops_of(e, acc):
    k = e[0]
    if k in ("e1", "e2", "e3"):
        acc.append(e[1])
        for a in e[2:]: ops_of(a, acc)
    elif k == "n":
        acc.append(e[1])
        for a in e[2]: ops_of(a, acc)
    elif k in ("loop", "pow"):
        acc.append(k); ops_of(e[-1], acc)
    else:
        acc.append(k)
    return acc


def depth(e):
    k = e[0]
    if k in ("e1", "e2", "e3"): return 1 + max(depth(a) for a in e[2:])
    if k == "n": return 1 + max(depth(a) for a in e[2])
    if k in ("loop", "pow"): return 1 + depth(e[-1])
    return 0


def has_var(e):
    return "var" in ops_of(e, [])


# --------------------------------------------------------------------------- implementation side
GRAMMAR = {"<start>": ["<a><b>"], "<a>": ["x"], "<b>": ["y"]}
VX, VY = L.BoundVariable("x", "<a>"), L.BoundVariable("y", "<b>")
START = L.Constant("start", "<start>")
ZX, ZY = VX.to_smt(), VY.to_smt()


def parse_atom(e):
    txt = f"(declare-const x String)(declare-const y String)(assert {to_smt(e)})"
    return z3.parse_smt2_string(txt)[0]


def tvname(t):
    return "TT" if t.is_true() else "FF" if t.is_false() else "UU"


def outcome(f):
    try:
        return ("ok", tvname(f()))
    except Exception as ex:  # the outcome is the observable
        return ("raise", lib.exn_name(ex))


def g_outcome(o):
    return f"(Ok {o[1]})" if o[0] == "ok" else f"(Raise {o[1]})"


def impl_ground(ze, sx, sy):
    g = z3.substitute(ze, (ZX, z3.StringVal(sx)), (ZY, z3.StringVal(sy)))
    return g, outcome(lambda: is_valid(g))


def impl_evaluate(ze, sx, sy):
    vs = [v for v in (VX, VY) if v.to_smt() in get_symbols(ze)]
    f = L.ForallFormula(VX, START, L.ForallFormula(VY, START, L.SMTFormula(ze, *vs)))
    t = DT("<start>", (DT("<a>", (DT(sx, ()),)), DT("<b>", (DT(sy, ()),))))
    return outcome(lambda: evaluate(f, t, GRAMMAR))


def z3_code(g):
    """1: valid, 2: unsatisfiable, 3: both polarities satisfiable (value not fixed), 0: unknown"""
    def chk(f):
        s = z3.Solver(); s.set("timeout", 4000); s.add(f)
        return s.check()
    a, b = chk(z3.Not(g)), chk(g)
    if a == z3.unsat and b == z3.sat: return 1
    if b == z3.unsat and a == z3.sat: return 2
    if a == z3.sat and b == z3.sat: return 3
    return 0


def probe_fx():
    """is the proposed fix C05-noimpl applied? (not_implemented_failure accepts its two arguments)"""
    try:
        is_valid(z3.PrefixOf(z3.StringVal("a"), z3.StringVal("ab")))
        return True
    except TypeError:
        return False


# --------------------------------------------------------------------------- Coq side
def coq_codes(tag, fx, cases, shard=400):
    """case_code of every case (list of ints); raises RuntimeError when Coq fails"""
    os.makedirs(lib.BUILD, exist_ok=True)
    files = []
    for k in range(0, len(cases), shard):
        name = os.path.join(lib.BUILD, f"cases_{tag}_{k // shard}.v")
        with open(name, "w") as f:
            f.write("From ISLA Require Import Str Outcome Regex SmtAst SmtSem PyRe PyFast SmtClasses.\n")
            f.write("From Coq Require Import List NArith ZArith. Import ListNotations.\n")
            f.write("Definition cs : list (expr * res tv * option (res tv) * N) := [\n" + ";\n".join(cases[k:k + shard]) + "\n].\n")
            f.write(f"Eval vm_compute in (map (case_code {'true' if fx else 'false'}) cs).\n")
        files.append(name)
    res, err = {}, None
    with cf.ThreadPoolExecutor(max_workers=min(lib.NPROC, 8)) as ex:
        for path, rc, out in ex.map(lib._run_coqc, files):
            vals = lib.parse_N_list(out) if rc == 0 else None
            if vals is None:
                err = f"coqc failed on {path}:\n{out[-3000:]}"
            else:
                res[path] = vals
                lib._cleanup(path)
    if err:
        raise RuntimeError(err)
    out = []
    for name in files:
        out += res[name]
    if len(out) != len(cases):
        raise RuntimeError(f"expected {len(cases)} codes, got {len(out)}")
    return out


# --------------------------------------------------------------------------- fixed corpus (witnesses of the classes)
def S(s): return ("str", s)
def I(n): return ("int", n)
X, Y = ("var", "x"), ("var", "y")
CORPUS = [
    # (key, atom, x, y)
    ("noimpl-prefixof", ("e2", "OPrefixOf", S("a"), X), "ab", ""),
    ("noimpl-neg-literal", ("e2", "OGt", ("e1", "OLen", X), ("e1", "ONeg", I(1))), "ab", ""),
    ("comp-range", ("e2", "OInRe", X, ("e1", "OComp", ("e2", "ORange", S("a"), S("z")))), "A", ""),
    ("lit-wide-char", ("e2", "OEq", ("e1", "OLen", ("e2", "OConcat", S("€"), X)), I(1)), "", ""),
    ("mod-neg-divisor", ("e2", "OEq", ("e2", "OMod", ("e1", "OLen", X), ("e2", "OSub", I(0), I(2))), I(1)), "abcdefg", ""),
    ("mod-zero", ("e2", "OEq", ("e2", "OMod", ("e1", "OLen", X), I(0)), I(1)), "ab", ""),
    ("at-out-of-range", ("e2", "OEq", ("e2", "OAt", X, I(5)), S("")), "abc", ""),
    ("at-negative", ("e2", "OEq", ("e2", "OAt", X, ("e2", "OSub", I(0), I(1))), S("")), "abc", ""),
    ("substr-negative", ("e2", "OEq", ("e3", "OSubstr", X, ("e2", "OSub", I(0), I(2)), I(1)), S("")), "abc", ""),
    ("to-code-len", ("e2", "OEq", ("e1", "OToCode", X), ("e2", "OSub", I(0), I(1))), "ab", ""),
    ("to-int-signed", ("e2", "OEq", ("e1", "OToInt", X), ("e2", "OSub", I(0), I(1))), "-12", ""),
    ("loop-multichar", ("e2", "OInRe", X, ("loop", 2, 2, ("e1", "OToRe", S("ab")))), "abab", ""),
    ("loop-one-bound", ("e2", "OInRe", X, ("loop", 1, None, ("e2", "ORange", S("a"), S("b")))), "a", ""),
    ("range-reversed", ("e2", "OInRe", X, ("e2", "ORange", S("z"), S("a"))), "b", ""),
    ("anchor-newline", ("e2", "OInRe", X, ("e1", "OToRe", S("a"))), "a\n", ""),
    ("all-newline", ("e2", "OInRe", X, ("rall",)), "a\nb", ""),
    ("tore-backslash", ("e2", "OInRe", X, ("e1", "OToRe", S("\\t"))), "\\t", ""),
    # agreeing samples
    ("ok-len", ("e2", "OGt", ("e2", "OAdd", ("e1", "OLen", X), ("e1", "OLen", Y)), I(2)), "ab", "é\n"),
    ("ok-inre", ("e2", "OInRe", X, ("e1", "OStar", ("e2", "ORUnion", ("e1", "OToRe", S("ab")), ("e2", "ORange", S("0"), S("9"))))), "ab7ab", ""),
    ("ok-toint", ("e2", "OEq", ("e1", "OToInt", X), I(7)), "007", ""),
    ("ok-substr", ("e2", "OEq", ("e3", "OSubstr", X, I(1), I(5)), S("bc")), "abc", ""),
]
AB = ("e1", "OToRe", S("ab"))
RNG = ("e2", "ORange", S("a"), S("c"))
def inre(x, r): return ("e2", "OInRe", X, r), x, ""
# boundary cases of every fast-path operator (agreeing class): pin the exact semantics
BOUNDARY = [inre("", ("e1", "OPlus", AB)), inre("abab", ("e1", "OPlus", AB)), inre("", ("e1", "OStar", AB)),
            inre("aba", ("e1", "OStar", AB)), inre("", ("e1", "OOpt", AB)), inre("abab", ("e1", "OOpt", AB)),
            inre("ab", ("e1", "OOpt", AB)), inre("c", ("e2", "ORUnion", AB, RNG)), inre("ab", ("e2", "ORUnion", AB, RNG)),
            inre("abc", ("e2", "ORUnion", AB, RNG)), inre("abc", ("e2", "ORConcat", AB, RNG)), inre("cab", ("e2", "ORConcat", AB, RNG)),
            inre("a", RNG), inre("c", RNG), inre("d", RNG), inre("`", RNG), inre("", RNG),
            inre("", ("loop", 1, 2, RNG)), inre("a", ("loop", 1, 2, RNG)), inre("bc", ("loop", 1, 2, RNG)),
            inre("abc", ("loop", 1, 2, RNG)), inre("", ("loop", 0, 0, RNG)), inre("a", ("loop", 0, 0, RNG)),
            inre("xyz", ("rall",)), inre("", ("rall",)), inre("ab", ("e2", "ORConcat", ("rall",), ("e1", "OToRe", S("b")))),
            inre("a.b", ("e1", "OToRe", S("a.b"))), inre("axb", ("e1", "OToRe", S("a.b"))), inre("a", ("e1", "OToRe", S(""))),
            inre("(a)*", ("e1", "OToRe", X)), inre("", ("e1", "OToRe", S("")))]
for op in ("OLt", "OLe", "OGt", "OGe", "OEq"):
    for (l, rr) in ((2, 3), (3, 3), (3, 2)):
        BOUNDARY.append((("e2", op, ("e1", "OLen", X), I(l)), "x" * rr, ""))
for (i, n) in ((0, 3), (1, 2), (1, 1), (2, 1), (2, 5), (3, 1), (0, 0), (4, 2)):
    BOUNDARY.append((("e2", "OEq", ("e3", "OSubstr", X, I(i), I(n)), Y), "abc", "abc"[i:i + n]))
for i in (0, 1, 2):
    BOUNDARY.append((("e2", "OEq", ("e2", "OAt", X, I(i)), Y), "abc", "abc"[i]))
for (a, b, m) in ((7, 3, 1), (6, 3, 0), (0, 5, 0), (2, 5, 2)):
    BOUNDARY.append((("e2", "OEq", ("e2", "OMod", ("e2", "OAdd", ("e1", "OLen", X), I(a)), I(b)), I(m)), "", ""))
    BOUNDARY.append((("e2", "OEq", ("e2", "OMod", ("e2", "OSub", ("e1", "OLen", X), I(a)), I(b)), I(m)), "", ""))
BOUNDARY += [(("e2", "OEq", ("e2", "OMul", ("e1", "OToInt", X), ("e2", "OSub", I(0), I(3))), ("e2", "OSub", I(0), I(36))), "012", ""),
             (("e2", "OEq", ("e1", "OToCode", X), I(233)), "é", ""), (("e2", "OEq", ("e1", "OToCode", X), I(10)), "\n", ""),
             (("e2", "OEq", ("e2", "OConcat", X, Y), S("a\"b")), "a", "\"b"),
             (("e1", "ONot", ("e2", "OOr", ("e2", "OEq", X, Y), ("bool", False))), "a", "b"),
             (("n", "OAnd", [("e2", "OEq", X, X), ("bool", True), ("e2", "OEq", X, Y)]), "a", "a"),
             (("e2", "OEq", ("n", "OAdd", [("e1", "OLen", X), I(2), ("e1", "OLen", Y)]), I(5)), "ab", "c"),
             (("e2", "OEq", ("n", "OMul", [("e1", "OLen", X), I(2), ("e1", "OLen", Y)]), I(4)), "ab", "c")]
CORPUS += [("boundary-%d" % i, e, x, y) for i, (e, x, y) in enumerate(BOUNDARY)]


def run_case(e, sx, sy, with_eval=True):
    ze = parse_atom(e)
    g, og = impl_ground(ze, sx, sy)
    ol = impl_evaluate(ze, sx, sy) if with_eval and has_var(e) else None
    z = z3_code(g)
    lit = (f"({to_coq(e, {'x': sx, 'y': sy})}, {g_outcome(og)}, "
           f"{'None' if ol is None else '(Some ' + g_outcome(ol) + ')'}, {z}%N)")
    return {"atom": to_smt(e), "x": sx, "y": sy, "ground": g.sexpr(), "is_valid": og, "evaluate": ol, "z3": z, "lit": lit,
            "ast": e}


def parse_ground(e, sx, sy):
    return z3.substitute(parse_atom(e), (ZX, z3.StringVal(sx)), (ZY, z3.StringVal(sy)))


def decode(code):
    return {"model_G_bad": bool(code & 1), "model_L_bad": bool(code & 2), "spec_bad": bool(code & 4),
            "G_ne_z3": bool(code & 8), "L_ne_z3": bool(code & 16), "unmod_G": bool(code & 32),
            "unmod_L": bool(code & 64), "spec_none": bool(code & 128), "clsG": (code >> 8) & 255, "clsL": (code >> 16) & 255,
            "z3path_G": bool(code & (1 << 24)), "z3path_L": bool(code & (1 << 25))}


def run(run):
    rng = random.Random(run.seed)
    thorough = run.tier == "thorough"
    n_atoms = 8000 if thorough else 1100
    run.cov["rule"] = ("atoms generated type-directed (Bool/Int/String/RegLan) from SMT-LIB text over every operator of "
                       "SmtAst.v, depth <= 4, literals and variable instantiations from a nasty pool (empty, newline, quote, "
                       "backslash, non-ASCII, > U+00FF, signed/padded numerals, class metacharacters), negative values via (- 0 n) and "
                       "(- n), zero divisors; plus a long-numeral profile (str.to_int of 16-21 digit numerals >= 2^53 under comparison, "
                       "equality, mod, arithmetic, neighbouring numerals as x / y) and a stateful stream (families of atoms "
                       "nested 23-33 levels that differ only at the deepest leaf and have different verdicts, judged "
                       "consecutively and repeatedly in one process) and a re-instantiation stream (one atom whose regex operand mentions a "
                       "variable - and general atoms with variables - judged 3-5 times in a row under different instantiations); each atom judged by is_valid (instantiated) and by evaluate() "
                       "(forall-bound variables), by the Coq model and by Z3. non-trivial = the atom contains an "
                       "operator application of depth >= 2")
    proof_ok = run.proof_stage()
    fx = probe_fx()
    run.cov["fix_noimpl_applied"] = fx
    t_impl = time.time()

    records = []
    for key, e, sx, sy in CORPUS:
        r = run_case(e, sx, sy); r["key"] = key; records.append(r)
    gen, gen_fast = Gen(rng), Gen(rng, fast=True)
    seen = set()
    while len(records) < n_atoms + len(CORPUS):
        d = rng.choice([1, 2, 2, 3, 3, 4])
        e = (gen_fast if rng.random() < 0.6 else gen).g_bool(d)
        sx, sy = rng.choice(STR_POOL), rng.choice(STR_POOL)
        k = (to_smt(e), sx, sy)
        if k in seen or len(k[0]) > 400:
            continue
        seen.add(k)
        r = run_case(e, sx, sy, with_eval=(rng.random() < 0.7))
        records.append(r)
    # long numerals: str.to_int beyond 2^53 with comparisons / equality / mod / arithmetic
    n_num = 800 if thorough else 170
    for i in range(n_num):
        e, sx, sy = gen_numeric(rng)
        r = run_case(e, sx, sy); r["stream"] = "numeric"; records.append(r)
    # stateful stream: look-alike deep atoms with different verdicts judged one after the other in THIS process
    n_fam = 120 if thorough else 26
    collisions, kinds = 0, {}
    for f in range(n_fam):
        kind, seq = gen_deep_family(rng)
        kinds[kind] = kinds.get(kind, 0) + 1
        fam = []
        for e, sx, sy in seq:
            r = run_case(e, sx, sy); r["stream"] = f"deep-{f}"; r["printed"] = str(parse_ground(e, sx, sy)); fam.append(r)
            records.append(r)
        collisions += sum(1 for i in range(len(fam)) for j in range(i) if fam[i]["printed"] == fam[j]["printed"]
                          and fam[i]["ground"] != fam[j]["ground"] and fam[i]["z3"] != fam[j]["z3"])
    run.cov["stateful_stream"] = {"families": n_fam, "judgements": sum(1 for r in records if str(r.get("stream", "")).startswith("deep")),
                                  "nesting_levels": "23-33 (+2..4 for the comparison around it)", "family_kinds": kinds,
                                  "pairs_same_printed_text_different_verdict": collisions,
                                  "note": "z3's printer abbreviates below ~20 levels: these pairs share str(formula)"}
    # re-instantiation stream: the SAME atom (translated closure cached per atom) under different instantiations
    n_re, n_gr = (150, 150) if thorough else (22, 14)
    verdict_changes = 0
    for f in range(n_re + n_gr):
        if f < n_re:
            seq = gen_reinst_family(rng)
        else:
            while True:
                e = gen_fast.g_bool(rng.choice([2, 3]))
                if has_var(e) and len(to_smt(e)) <= 400:
                    break
            seq = [(e, rng.choice(STR_POOL), rng.choice(STR_POOL)) for _ in range(3)]
        fam = []
        for e, sx, sy in seq:
            r = run_case(e, sx, sy); r["stream"] = f"reinst-{f}"; fam.append(r); records.append(r)
        verdict_changes += sum(1 for a, b in zip(fam, fam[1:]) if a["z3"] != b["z3"])
    run.cov["reinstantiation_stream"] = {"regex_operand_families": n_re, "general_families": n_gr,
                                         "judgements": 5 * n_re + 3 * n_gr,
                                         "consecutive_judgements_with_different_z3_verdict": verdict_changes,
                                         "note": "one atom, evaluate()/closure path and is_valid, 3-5 instantiations in a row in one process"}
    run.cov["long_numeral_atoms"] = n_num
    run.cov["impl_seconds"] = round(time.time() - t_impl, 1)

    op_hist, out_hist = {}, {}
    for r in records:
        for o in set(ops_of(r["ast"], [])):
            op_hist[o] = op_hist.get(o, 0) + 1
        ok = r["is_valid"][1] if r["is_valid"][0] == "ok" else "raise " + r["is_valid"][1]
        out_hist[ok] = out_hist.get(ok, 0) + 1
        run.count((r["atom"], r["x"], r["y"]), depth(r["ast"]) >= 2)
    run.cov["operator_histogram"] = dict(sorted(op_hist.items()))
    run.cov["is_valid_outcome_histogram"] = out_hist
    run.cov["z3_histogram"] = {n: sum(1 for r in records if r["z3"] == c)
                               for c, n in ((1, "valid"), (2, "unsat"), (3, "not fixed (both sat)"), (0, "unknown"))}
    run.cov["evaluate_calls"] = sum(1 for r in records if r["evaluate"] is not None)
    for r in records[:3] + records[len(CORPUS):len(CORPUS) + 3]:
        run.sample({k: r[k] for k in ("atom", "x", "y", "is_valid", "evaluate", "z3")})

    try:
        t0 = time.time()
        codes = coq_codes("c05", fx, [r["lit"] for r in records])
        run.cov["coq_seconds"] = round(time.time() - t0, 1)
    except RuntimeError as ex:
        run.violation({"kind": "correspondence-not-evaluable", "obligation": "Smt/PyFast.v cases", "error": str(ex)[-2500:]},
                      found_input=False)
        codes = None

    if codes is not None:
        cls_hist, viol, corr, spec_bad, unm = {}, [], [], [], 0
        z3_unknown_fallback = 0
        known_seen = {}
        for r, c in zip(records, codes):
            d = decode(c); r["code"] = d
            cls_hist[CLASS_NAMES[d["clsG"]]] = cls_hist.get(CLASS_NAMES[d["clsG"]], 0) + 1
            unm += d["unmod_G"]
            pub = {k: r[k] for k in ("atom", "x", "y", "ground", "is_valid", "evaluate", "z3")}
            pub["classes"] = [CLASS_NAMES[d["clsG"]], CLASS_NAMES[d["clsL"]]]
            if d["spec_bad"]:
                spec_bad.append(pub)
            # ISLa's own Z3 call (500 ms budget, fall-back of the fast path) answered `unknown`: that IS Z3's verdict
            # for this call; tolerated only where the model says the verdict comes from that fall-back
            tol_G = d["z3path_G"] and r["is_valid"] == ("ok", "UU")
            tol_L = d["z3path_L"] and r["evaluate"] == ("ok", "UU")
            z3_unknown_fallback += int(tol_G) + int(tol_L)
            if (d["model_G_bad"] and not tol_G) or (d["model_L_bad"] and not tol_L):
                corr.append(dict(pub, which=("is_valid" if d["model_G_bad"] and not tol_G else "evaluate")))
            for ne, cls, entry, tol in ((d["G_ne_z3"], d["clsG"], "is_valid", tol_G), (d["L_ne_z3"], d["clsL"], "evaluate", tol_L)):
                if not ne or r["z3"] == 0 or tol:
                    continue
                r.setdefault("diverges", []).append(entry)
                if cls == 0:
                    viol.append(dict(pub, entry=entry))
                elif cls not in EXCLUDED_BY_PROPERTY:
                    known_seen[CLASS_NAMES[cls]] = known_seen.get(CLASS_NAMES[cls], 0) + 1
        run.cov["class_histogram"] = cls_hist
        run.cov["unmodelled_cases"] = unm
        run.cov["z3_fallback_answered_unknown"] = z3_unknown_fallback
        run.cov["divergences_in_known_classes"] = known_seen
        run.cov["disagreements_checked"] = len(corr) + len(viol) + len(spec_bad)
        run.cov["agreeing_class_cases"] = cls_hist.get("agree", 0)

        # known findings: replay each open entry's witness; print only if still present
        by_key = {r.get("key"): r for r in records if r.get("key")}
        for ent in lib.known_findings("C05"):
            if ent.get("status") != "open":
                continue
            r = by_key.get(ent["key"])
            if r is None:
                continue
            d = r["code"]
            if (d["G_ne_z3"] or d["L_ne_z3"]) and CLASS_NAMES[d["clsG"]] == ent["class"]:
                run.known(ent["what"])
        recorded = {ent["class"] for ent in lib.known_findings("C05") if ent.get("status") == "open"}
        unrecorded = sorted(k for k in known_seen if k not in recorded)
        if unrecorded:
            w = next(r for r in records if r.get("diverges") and
                     (CLASS_NAMES[r["code"]["clsG"]] in unrecorded or CLASS_NAMES[r["code"]["clsL"]] in unrecorded))
            run.violation({"kind": "divergence in a class that has no open known-findings entry", "classes": unrecorded,
                           "witness": {k: w[k] for k in ("atom", "x", "y", "ground", "is_valid", "evaluate", "z3", "diverges")}})
        if spec_bad:
            spec_bad.sort(key=lambda p: len(p["atom"]))
            run.violation({"kind": "SPEC MODEL BUG: Smt/SmtSem.v disagrees with the real Z3 (not a defect of ISLa)",
                           "first": spec_bad[0], "count": len(spec_bad),
                           "obligation": "validation SmtSem.smt_denote <-> Z3"}, found_input=False)
        if viol:
            viol.sort(key=lambda p: len(p["atom"]))
            run.violation({"kind": "ISLa judges a ground atom differently from Z3 (outside all recorded classes)",
                           "witness": viol[0], "all_failing": len(viol),
                           "how_to_replay": "./check C05 --replay <this file>",
                           "theorem": "Props/C05.v C05_fast_agrees + correspondence"})
        elif corr:
            corr.sort(key=lambda p: len(p["atom"]))
            run.violation({"kind": "correspondence broken; property holds (or is a recorded class) on the cases searched",
                           "first": corr[0], "count": len(corr),
                           "obligation": "correspondence Smt/PyFast.v <-> isla.z3_helpers.is_valid / evaluator.evaluate"},
                          found_input=False)
    if not proof_ok:
        run.violation({"kind": "proof obligation failed", "problems": run.proof_problems,
                       "obligation": "Props/C05.v"}, found_input=False)
    run.cov["trusted_base"] = lib.TRUSTED_BASE_COMMON + [
        "the real Z3 (z3-solver 4.11.2 python API) as oracle for ground atoms: check(Not e), check(e), 4 s timeout",
        "Smt/SmtSem.v (SMT-LIB semantics) is validated against that oracle on every generated atom of this run",
        "Python `re` reads the generated pattern text as Smt/PyRe.v says (atom sequence, quantifier binds last atom, $ before a "
        "final newline, . excludes newline) - tied by the correspondence, not proved",
        "atoms are built with z3.parse_smt2_string (as ISLa's parser does); n-ary and/or/+/* are modelled left-nested",
    ]


def replay(path):
    d = json.load(open(path))
    w = d.get("witness")
    if not w:
        print("replay file names an obligation, not an input:", d.get("obligation")); return 1
    txt = f"(declare-const x String)(declare-const y String)(assert {w['atom']})"
    ze = z3.parse_smt2_string(txt)[0]
    g, og = impl_ground(ze, w["x"], w["y"])
    ol = impl_evaluate(ze, w["x"], w["y"]) if w.get("evaluate") is not None else None
    z = z3_code(g)
    want = "TT" if z == 1 else "FF"
    print("atom:", w["atom"], "x =", repr(w["x"]), "y =", repr(w["y"]))
    print("is_valid:", og, "evaluate:", ol, "z3 code:", z, "expected verdict:", want)
    bad = og != ("ok", want) or (ol is not None and ol != ("ok", want))
    return 1 if bad else 0
