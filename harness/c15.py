"""C15 — integer intervals inferred from a regex / compressed concatenations.

Correspondence of Smt/Intervals.v (model) and Smt/IvRe.v (regex semantics) with
  isla.z3_helpers.numeric_intervals_from_regex, compress_concatenation_elements,
  isla.helpers.merge_intervals and Z3's own InRe,
plus a search for inputs violating the property itself (interval union = integer values of
the matched strings; compression preserves the language), using Python's `re` and a
reference `intval` as independent oracles."""
import concurrent.futures as cf
import itertools, json, random, re as pyre, sys, time
import lib
from lib import g_str, g_Z, g_list

import z3
import isla.language  # noqa: installs the structural z3.ExprRef.__eq__ that z3_helpers relies on
from isla.z3_helpers import numeric_intervals_from_regex, compress_concatenation_elements
from isla.helpers import merge_intervals
from returns.maybe import Some, Nothing

M = sys.maxsize
Q_QUIRK = False   # the `value_or(lambda: False)` quirk was repaired in /repo (8295ba7): the model is run with q = false,
                  # and section 0b demands Nothing on the former witnesses — a regression is a VIOLATION
IMPORTS = "Str Outcome IvRe Intervals IvShape"

# --------------------------------------------------------------------------
# regex terms:  ("str", w) ("range", a, b) ("star", r) ("plus", r) ("opt", r) ("union", a, b)
#               ("concat", a, b) ("inter", a, b) ("comp", r) ("allchar",) ("empty",)
# --------------------------------------------------------------------------
RESORT = z3.ReSort(z3.StringSort())


def nest(tag, xs):
    """z3.Union(*xs) / z3.Concat(*xs) build left-nested binary applications"""
    acc = xs[0]
    for x in xs[1:]:
        acc = (tag, acc, x)
    return acc


def to_z3(t):
    k = t[0]
    if k == "str": return z3.Re(t[1])
    if k == "range": return z3.Range(t[1], t[2])
    if k == "star": return z3.Star(to_z3(t[1]))
    if k == "plus": return z3.Plus(to_z3(t[1]))
    if k == "opt": return z3.Option(to_z3(t[1]))
    if k == "union": return z3.Union(to_z3(t[1]), to_z3(t[2]))
    if k == "concat": return z3.Concat(to_z3(t[1]), to_z3(t[2]))
    if k == "inter": return z3.Intersect(to_z3(t[1]), to_z3(t[2]))
    if k == "comp": return z3.Complement(to_z3(t[1]))
    if k == "allchar": return z3.AllChar(RESORT)
    if k == "empty": return z3.Empty(RESORT)
    raise ValueError(k)


KIND = {z3.Z3_OP_RE_STAR: "star", z3.Z3_OP_RE_PLUS: "plus", z3.Z3_OP_RE_OPTION: "opt",
        z3.Z3_OP_RE_COMPLEMENT: "comp"}
KIND2 = {z3.Z3_OP_RE_UNION: "union", z3.Z3_OP_RE_CONCAT: "concat", z3.Z3_OP_RE_INTERSECT: "inter"}


def from_z3(e):
    """term of the REAL z3 object (so that the literal shown to Coq is what isla saw)"""
    k = e.decl().kind()
    ch = e.children()
    if k == z3.Z3_OP_SEQ_TO_RE:
        return ("str", ch[0].as_string())
    if k == z3.Z3_OP_RE_RANGE:
        return ("range", ch[0].as_string(), ch[1].as_string())
    if k in KIND:
        return (KIND[k], from_z3(ch[0]))
    if k in KIND2:
        return nest(KIND2[k], [from_z3(c) for c in ch])
    if k == z3.Z3_OP_RE_EMPTY_SET:
        return ("empty",)
    if str(e) == "re.allchar":
        return ("allchar",)
    raise ValueError(f"unsupported z3 regex {e}")


def g_re(t):
    k = t[0]
    if k == "str": return f"(RStr {g_str(t[1])})"
    if k == "range": return f"(RRange {g_str(t[1])} {g_str(t[2])})"
    if k in ("star", "plus", "opt", "comp"):
        return f"({ {'star': 'RStar', 'plus': 'RPlus', 'opt': 'ROpt', 'comp': 'RComp'}[k]} {g_re(t[1])})"
    if k in ("union", "concat", "inter"):
        return f"({ {'union': 'RUnion', 'concat': 'RConcat', 'inter': 'RInter'}[k]} {g_re(t[1])} {g_re(t[2])})"
    return "RAllChar" if k == "allchar" else "REmpty"


def to_pyre(t):
    """python `re` pattern of a term; None when the term uses intersection/complement"""
    k = t[0]
    if k == "str": return "(?:" + pyre.escape(t[1]) + ")"
    if k == "range":
        if len(t[1]) == 1 and len(t[2]) == 1 and t[1] <= t[2]:
            return "[" + pyre.escape(t[1]) + "-" + pyre.escape(t[2]) + "]"
        return "(?!)"          # empty language (SMT-LIB: bounds are not single characters / unordered)
    if k in ("star", "plus", "opt"):
        p = to_pyre(t[1])
        return None if p is None else "(?:" + p + ")" + {"star": "*", "plus": "+", "opt": "?"}[k]
    if k in ("union", "concat"):
        a, b = to_pyre(t[1]), to_pyre(t[2])
        if a is None or b is None: return None
        return "(?:" + a + ("|" if k == "union" else "") + b + ")"
    if k == "allchar": return "(?s:.)"
    if k == "empty": return "(?!)"
    return None


def size(t):
    return 1 + sum(size(x) for x in t[1:] if isinstance(x, tuple))


def has_node(t, kinds):
    return t[0] in kinds or any(has_node(x, kinds) for x in t[1:] if isinstance(x, tuple))


# --------------------------------------------------------------------------
# generator: the docstring grammar of numeric_intervals_from_regex, and one-step deviations
# --------------------------------------------------------------------------
R09, R19 = ("range", "0", "9"), ("range", "1", "9")
ZERO = ("str", "0")


def g_zeroes(rng): return (rng.choice(["star", "plus"]), ZERO)
def g_full(rng): return (rng.choice(["star", "plus"]), R09)
def g_pm(rng): return ("str", rng.choice("+-"))


def g_opt_pm(rng):
    c = rng.randrange(3)
    return [] if c == 0 else [g_pm(rng)] if c == 1 else [("opt", g_pm(rng))]


def g_seq_zeroes(rng):
    return [g_zeroes(rng) if rng.random() < 0.5 else ZERO for _ in range(rng.choice([1, 1, 2, 3]))]


def g_first_union(rng):
    def el():
        c = rng.randrange(3)
        return g_pm(rng) if c == 0 else g_zeroes(rng) if c == 1 else ZERO
    return nest("union", [el() for _ in range(rng.choice([2, 2, 3]))])


def g_sequence(rng, d):
    alt = rng.randrange(4)
    one = rng.choice([R09, R19])
    if alt == 0:
        els = g_opt_pm(rng) + (g_seq_zeroes(rng) if rng.random() < 0.5 else []) + [one, g_full(rng)]
    elif alt == 1:
        els = g_opt_pm(rng) + g_seq_zeroes(rng) + [g_regex(rng, d - 1)]
    elif alt == 2:
        els = [g_first_union(rng), one, g_full(rng)]
    else:
        els = [g_first_union(rng), g_regex(rng, d - 1)]
    return nest("concat", els)


def g_regex(rng, d):
    kinds = ["single", "range", "zeroes", "full"] + (["union", "sequence", "sequence"] if d > 0 else [])
    k = rng.choice(kinds)
    if k == "single": return ("str", rng.choice("0123456789"))
    if k == "range":
        a, b = sorted([rng.choice("0123456789"), rng.choice("0123456789")])
        return ("range", a, b)
    if k == "zeroes": return g_zeroes(rng)
    if k == "full": return g_full(rng)
    if k == "union": return nest("union", [g_regex(rng, d - 1) for _ in range(rng.choice([2, 2, 3]))])
    return g_sequence(rng, d)


ODD = ["a", "", "12", " 5", "1_0", "+7", "-3", "+", "-", "0", "00", "9", "_", "5 "]


def subterms(t, path=()):
    yield path, t
    for i, x in enumerate(t[1:], 1):
        if isinstance(x, tuple):
            yield from subterms(x, path + (i,))


def put(t, path, new):
    if not path: return new
    l = list(t); l[path[0]] = put(t[path[0]], path[1:], new)
    return tuple(l)


def deviate(rng, t):
    """one edit at a random position"""
    path, s = rng.choice(list(subterms(t)))
    c = rng.randrange(12)
    if c == 0: new = ("str", rng.choice(ODD))
    elif c == 1: new = ("range", rng.choice(ODD + list("0159")), rng.choice(ODD + list("0159")))
    elif c == 2: new = ("star", s)
    elif c == 3: new = ("plus", s)
    elif c == 4: new = ("opt", s)
    elif c == 5: new = ("comp", s)
    elif c == 6: new = ("inter", s, rng.choice([R09, ("allchar",), s]))
    elif c == 7: new = rng.choice([("allchar",), ("empty",), ("range", "0", "0"), ("range", "5", "5")])
    elif c == 8: new = ("union", s, rng.choice([("str", "+"), ("str", "-"), ("str", "a"), ZERO, R19]))
    elif c == 9: new = ("concat", rng.choice([("str", "+"), ("str", "-"), ("opt", ("str", "-")), ("opt", ("str", "+")), ZERO,
                                              ("str", "a"), s, ("star", s)]), s)
    elif c == 10: new = ("concat", s, rng.choice([s, ("star", s), ("plus", s), ("star", R09), ("plus", R09), R09]))
    else:
        if s[0] in ("star", "plus"): new = ({"star": "plus", "plus": "star"}[s[0]], s[1])
        elif s[0] in ("union", "concat"): new = (s[0], s[2], s[1])
        elif s[0] == "range": new = ("range", s[2], s[1])
        else: new = ("opt", s)
    return put(t, path, new)



# --------------------------------------------------------------------------
# deep regexes (nesting > 22 through Concat/Union of many elements): z3's printer abbreviates such terms with
# `...`, so str(regex) of two members of one family is IDENTICAL although the regexes differ in their innermost
# (= first) element.  Used by the stateful streams: every call's result must not depend on earlier calls.
# --------------------------------------------------------------------------
CONCAT_FIRSTS = [("str", "-"), ("str", "+"), ("opt", ("str", "-")), ("opt", ("str", "+")), ZERO, ("plus", ZERO),
                 ("union", ("str", "+"), ("str", "-")), ("union", ("str", "-"), ZERO)]
# (no member may be unrecognised: on Nothing the implementation formats the deep term for its debug log at every level — seconds per call)
UNION_FIRSTS = [("str", d) for d in "0123456789"] + [("range", "1", "3"), ("range", "6", "8"), ("star", ZERO)]


def deep_family(rng):
    """list of >= 3 terms of nesting depth > 22 that differ only in the innermost element"""
    n = rng.randint(23, 31)
    if rng.random() < 0.6:
        mid = [ZERO] * n if rng.random() < 0.6 else [rng.choice([ZERO, ZERO, ("star", ZERO)]) for _ in range(n)]
        tail = rng.choice([[("range", "1", "9")], [("range", rng.choice("123"), rng.choice("789"))], [("str", rng.choice("123456789"))],
                           [R19, ("star", R09)], [R19, ("plus", R09)]])
        firsts = rng.sample(CONCAT_FIRSTS, rng.choice([3, 4]))
        return [nest("concat", [f] + mid + tail) for f in firsts]
    rest = [("str", rng.choice("0123456789")) for _ in range(rng.choice([1, 2]))]
    rest = [rest[i % len(rest)] for i in range(n)]
    firsts = rng.sample(UNION_FIRSTS, rng.choice([3, 4]))
    return [nest("union", [f] + rest) for f in firsts]


def depth(t):
    return 1 + max([depth(x) for x in t[1:] if isinstance(x, tuple)] or [0])

# --------------------------------------------------------------------------
# implementation outcomes and their Gallina renderings
# --------------------------------------------------------------------------
def impl_nifr(t):
    try:
        r = numeric_intervals_from_regex(to_z3(t))
    except Exception as e:   # noqa: the outcome is the observable
        return ("raise", lib.exn_name(e))
    if r == Nothing:
        return ("none",)
    return ("some", [tuple(i) for i in r.unwrap()])


def g_ivs(l):
    return g_list(l, lambda i: f"({g_Z(i[0])}, {g_Z(i[1])})") if l else "(@nil (Z*Z))"


def g_out(o):
    if o[0] == "raise": return f"(Exn {o[1]})"
    if o[0] == "none": return "(Val None)"
    return f"(Val (Some {g_ivs(o[1])}))"


# --------------------------------------------------------------------------
# spec-side reference (independent of the model): integer value, interval membership
# --------------------------------------------------------------------------
INT_RE = pyre.compile(r"[+-]?[0-9]+")


def intval(s):
    """optional sign, optional zero padding, decimal digits"""
    return int(s) if INT_RE.fullmatch(s) else None


def in_ivs(n, ivs):
    return any((lo == -M or lo <= n) and (hi == M or n <= hi) for lo, hi in ivs)


WINDOW = list(range(-25, 26)) + [s * v for s in (1, -1) for v in (99, 100, 101, 12345, M - 1, M, M + 1, 10 ** 19 + 7)]


def numerals(n, maxpad=8):
    signs = ["", "+", "-"] if n == 0 else ["", "+"] if n > 0 else ["-"]
    for sg in signs:
        for pad in range(maxpad + 1):
            yield sg + "0" * pad + str(abs(n))


NUMERALS = [(n, list(numerals(n))) for n in WINDOW]


def property_at(t, ivs):
    """returns (over_witness, exact_witness): a matched integer string whose value is outside the intervals /
    a value inside the intervals that no matched string (of the searched numerals) has; None when none found"""
    pat = to_pyre(t)
    if pat is None:
        return "n/a", "n/a"
    rx = pyre.compile(pat)
    over = exact = None
    for n, cands in NUMERALS:
        inside = in_ivs(n, ivs)
        matched = next((s for s in cands if rx.fullmatch(s)), None)
        if matched is not None and not inside and over is None:
            over = {"string": matched, "value": n}
        if inside and matched is None and exact is None:
            exact = {"value": n}
    return over, exact


# classes of the open findings, python mirror of the Coq predicates (IntervalsFacts.v);
# the Coq value is what classifies (evaluated below), this mirror is only used by replay()
def coq_flags(tag, terms, pred):
    """indices of `terms` on which the Coq boolean `pred : re -> bool` is TRUE"""
    if not terms:
        return set()
    bad, _ = lib.coq_mismatches(tag, IMPORTS, f"fun r : re => negb ({pred} r)", [g_re(t) for t in terms], shard=400)
    return set(bad)


def run(run):
    rng = random.Random(run.seed)
    thorough = run.tier == "thorough"
    run.cov["rule"] = (
        "regexes generated from the docstring grammar of numeric_intervals_from_regex (depth<=4, ordered ranges) plus "
        "one-step deviations (odd literals, swapped bounds, star/plus/option/complement/intersection wrappers, extra signs, "
        "reordered/duplicated concatenation elements), built with the z3 API; functional equality impl vs Gallina model "
        "(nifr, compress, merge); matcher model vs Z3 InRe on strings over {0,1,5,9,+,-,a} of length<=4; property searched on "
        "every regex the implementation gives intervals for, over all numerals (sign, <=8 zeros padding) of the values "
        "-25..25, +-99..101, +-12345, +-(maxsize-1..maxsize+1), +-(10^19+7). STATEFUL streams in one process: families of deep regexes "
        "(nesting 24..33 via Concat/Union of many elements) whose members differ only in the innermost element and have IDENTICAL str() "
        "(z3 abbreviates deep terms), every member queried in order plus repeats and each answer compared with the model; the same for "
        "compress on lists of such deep elements; 300 earlier regexes re-queried at the end. non-trivial = regex has a concatenation or union node")
    proof_ok = run.proof_stage()
    known = {e["key"]: e for e in lib.known_findings("C15") if e.get("status") == "open"}
    # Coq evaluations are submitted as soon as their cases exist and run concurrently with the remaining
    # implementation-side work; they are collected (in a fixed order) in section 6
    pool_ex = cf.ThreadPoolExecutor(max_workers=8)
    t_start = time.time()

    def submit(tag, ok_def, cases, shard):
        return pool_ex.submit(lib.coq_mismatches, tag, IMPORTS, ok_def, cases, shard)

    def collect(fut, obligation):
        try:
            return fut.result()[0]
        except RuntimeError as e:
            run.violation({"kind": "correspondence-not-evaluable", "obligation": obligation, "error": str(e)[-2000:]}, found_input=False)
            return None

    # ---------------- 0. replay witnesses of open findings ----------------
    for key, e in known.items():
        w = e.get("witness", {})
        if "regex" in w:
            t = json.loads(w["regex"], object_hook=None)
            t = tup(t)
            o = impl_nifr(t)
            if o[0] == "some":
                ov, ex = property_at(t, o[1])
                if (w.get("kind") == "exact" and ex not in (None, "n/a")) or (w.get("kind") == "over" and ov not in (None, "n/a")):
                    run.known(e["what"])

    # ---------------- 0b. repaired defects stay repaired (finding valueor-lambda, fixed in 8295ba7) ----------------
    for t in (("star", ("opt", ("str", "5"))), ("star", ("str", "a")), nest("concat", [("str", "a"), ("plus", R09)]),
              nest("concat", [("str", "a"), ("star", R09)]), nest("concat", [("range", "5", "3"), ("plus", R09)])):
        o = impl_nifr(t)
        run.count(("fixed-valueor", t), True)
        if o[0] != "none":
            ov, ex = property_at(t, o[1]) if o[0] == "some" else (None, None)
            run.violation({"kind": "regression of a repaired defect: intervals invented for an unrecognised expression (value_or(lambda: False))",
                           "witness": {"regex": str(to_z3(t)), "term": t, "impl": o, "expected": "Nothing", "property_over": ov},
                           "theorem": "Props/C15.v C15_outside_shape_unsound_refuted (model with q = false gives Nothing)"})

    # ---------------- 1. numeric_intervals_from_regex ----------------
    n_shape = 4000 if thorough else 1000
    n_dev = 3000 if thorough else 600
    terms, in_shape, seen = [], [], set()
    fixed = [("star", R09), ("plus", R09), nest("concat", [("plus", ZERO), ZERO, ("star", ("range", "0", "0"))]),
             nest("concat", [nest("concat", [R19, ("star", R09)]), R09]), nest("concat", [R09, ("star", R09)]),
             nest("concat", [ZERO, nest("concat", [("str", "-"), R19])]), ("star", ("str", "a")),
             nest("concat", [("str", "a"), ("plus", R09)]), ("star", ("opt", ("str", "5"))), ("range", "1", "35"),
             nest("concat", [("opt", ("str", "-")), ("str", "-"), R19]), ("str", "1_0"), ("str", " 5"),
             nest("concat", [("str", "-"), ("star", R09)]), nest("concat", [nest("union", [("str", "+"), ("str", "-")]), ("range", "2", "9")])]
    for t in fixed:
        terms.append(t); in_shape.append(False); seen.add(t)
    tries = 0
    while sum(in_shape) < n_shape and tries < 20 * n_shape:
        tries += 1
        t = g_regex(rng, rng.choice([1, 2, 2, 3, 3, 4]))
        if t in seen or size(t) > 60: continue
        seen.add(t); terms.append(t); in_shape.append(True)
    shape_terms = [t for t, s in zip(terms, in_shape) if s]
    tries = 0
    while len(terms) - len(fixed) - len(shape_terms) < n_dev and tries < 20 * n_dev:
        tries += 1
        t = deviate(rng, rng.choice(shape_terms))
        if rng.random() < 0.25: t = deviate(rng, t)
        if t in seen or size(t) > 70: continue
        seen.add(t); terms.append(t); in_shape.append(False)

    hist = {"some": 0, "none": 0, "raise": 0}
    outs, cases = [], []
    for t, sh in zip(terms, in_shape):
        z = to_z3(t)
        t2 = from_z3(z)
        assert t2 == t, (t, t2)   # the z3 object has the structure we think it has
        o = impl_nifr(t)
        outs.append(o); hist[o[0]] += 1
        cases.append(f"({g_re(t)}, {g_out(o)})")
        run.count(("nifr", t), has_node(t, ("concat", "union")))
    run.cov["nifr_outcomes"] = hist
    run.cov["nifr_in_shape"] = sum(in_shape)
    run.cov["nifr_deviations"] = len(terms) - sum(in_shape)
    run.cov["shape_histogram"] = {k: sum(1 for t in shape_terms if t[0] == k) for k in ("str", "range", "star", "plus", "union", "concat")}
    for i in (0, 3, 5, 7):
        run.sample({"regex": str(to_z3(terms[i])), "impl": outs[i]})
    disagreements = []
    qlit = "true" if Q_QUIRK else "false"
    fut_nifr = submit("c15a", f"fun c : re * out => out_eqb (nifr_top {qlit} (fst c)) (snd c)", cases, 160)

    run.cov.setdefault('phase_seconds', {})['1_nifr_impl'] = round(time.time() - t_start, 1)
    # ---------------- 2. property search on the implementation's own outputs ----------------
    over_fail, exact_fail = [], []
    searched = 0
    for i, (t, o) in enumerate(zip(terms, outs)):
        if o[0] != "some": continue
        ov, ex = property_at(t, o[1])
        if ov == "n/a": continue
        searched += 1
        if ov: over_fail.append((i, ov))
        if ex: exact_fail.append((i, ex))
    run.cov["property_searched_regexes"] = searched
    run.cov["property_over_failures"] = len(over_fail)
    run.cov["property_exact_failures"] = len(exact_fail)
    KNAMES = ("K_valueor_lambda", "K_full_sign", "K_inner_sign", "K_signed_zero", "documented_shapeb")
    fail_terms = sorted({i for i, _ in over_fail} | {i for i, _ in exact_fail})
    kcases = [f"({k}%nat, {g_re(terms[i])})" for k in range(len(KNAMES)) for i in fail_terms]
    fut_flags = submit("c15k", "fun c : nat * re => negb (match fst c with 0%nat => K_valueor_lambda | 1%nat => K_full_sign | 2%nat => K_inner_sign | 3%nat => K_signed_zero "
                               "| _ => documented_shapeb end (snd c))", kcases, 300) if kcases else None

    def classify_property(bad_idx):
        """every failure of the property on the implementation's own output must belong to an OPEN finding class"""
        cls = None
        if fut_flags is None:
            cls = {n: set() for n in KNAMES}
        else:
            hits = collect(fut_flags, "IvShape.v class predicates")
            if hits is not None:
                cls = {n: set() for n in KNAMES}
                for h in hits:
                    cls[KNAMES[h // len(fail_terms)]].add(fail_terms[h % len(fail_terms)])
        unexplained = []
        if cls is not None:
            khist = {"K_valueor_lambda": 0, "K_full_sign": 0, "K_inner_sign": 0, "K_signed_zero": 0}
            for kind, fails in (("over", over_fail), ("exact", exact_fail)):
                for i, w in fails:
                    rec = {"kind": kind, "regex": str(to_z3(terms[i])), "term": terms[i], "impl": outs[i], "witness": w,
                           "in_documented_shape": i in cls["documented_shapeb"]}
                    if i in bad_idx:
                        unexplained.append(rec); continue          # model disagrees: reported anyway
                    if i in cls["K_valueor_lambda"] and "valueor-lambda" in known:
                        khist["K_valueor_lambda"] += 1; run.known(known["valueor-lambda"]["what"]); continue
                    if kind == "exact" and i in cls["K_full_sign"] and "full-sign" in known:
                        khist["K_full_sign"] += 1; run.known(known["full-sign"]["what"]); continue
                    if kind == "exact" and i in cls["K_inner_sign"] and "inner-sign" in known:
                        khist["K_inner_sign"] += 1; run.known(known["inner-sign"]["what"]); continue
                    # over-approximation failure with a sign behind a concatenation (guard of C15_intervals_overapprox_concat_partial)
                    if kind == "over" and i in cls["K_inner_sign"] and "inner-sign-zero" in known:
                        khist["K_inner_sign_over"] = khist.get("K_inner_sign_over", 0) + 1; run.known(known["inner-sign-zero"]["what"]); continue
                    if i in cls["K_signed_zero"] and i not in cls["documented_shapeb"] and "signed-zero" in known:
                        khist["K_signed_zero"] += 1; run.known(known["signed-zero"]["what"]); continue
                    if i not in cls["documented_shapeb"] and kind == "exact":
                        continue      # outside the quantifier of the property and not an unsound (over) failure: ignored
                    unexplained.append(rec)
            run.cov["known_class_histogram"] = khist
        if unexplained:
            unexplained.sort(key=lambda r: len(json.dumps(r)))
            run.violation({"kind": "intervals differ from the integer values of the matched strings", "witness": unexplained[0],
                           "all_failing": len(unexplained), "how_to_replay": "./check C15 --replay <this file>",
                           "theorem": "Props/C15.v C15_intervals_overapprox / C15_intervals_exact_partial + correspondence"})
        return unexplained

    run.cov['phase_seconds']['2_property_search'] = round(time.time() - t_start, 1)
    # ---------------- 2b. stateful streams: a call's result must not depend on earlier calls ----------------
    # (i) families of deep regexes with identical str(); members queried in one process, in order, with repeats
    # (ii) compress on element lists built from such deep regexes (equal str, different elements must NOT be grouped)
    # (iii) a sample of the regexes of section 1 queried a second time after everything else
    n_fam = 150 if thorough else 30
    stream, smeta, scases = [], [], []
    fams = [[nest("concat", [("str", sg)] + [ZERO] * 30 + [R19]) for sg in "-+"]]            # the seeded witness, first
    fams += [deep_family(rng) for _ in range(n_fam)]
    for fi, fam in enumerate(fams):
        order = list(range(len(fam))) + [rng.randrange(len(fam)) for _ in range(2 if thorough or not fi else 1)]   # every member, then repeats
        if fi: rng.shuffle(order)
        for j in order:
            t = fam[j]
            z = to_z3(t)
            assert from_z3(z) == t and depth(t) > 22
            o = impl_nifr(t)
            stream.append((fi, t)); smeta.append(o)
            scases.append(f"({g_re(t)}, {g_out(o)})")
            run.count(("stream", fi, len(stream)), True)
    same_str = sum(1 for fam in fams if len({str(to_z3(t)) for t in fam}) == 1)
    run.cov["stream_families"] = len(fams)
    run.cov["stream_families_with_identical_str"] = same_str
    run.cov["stream_queries"] = len(stream)
    run.sample({"stream": [str(to_z3(t))[:60] + " ..." for t in fams[0]], "impl": smeta[:2]})
    fut_stream = submit("c15s", f"fun c : re * out => out_eqb (nifr_top {qlit} (fst c)) (snd c)", scases, 30)

    def finish_streams():
        stream_bad = collect(fut_stream, "Intervals.v stream cases") or []
        # repeat-consistency of section 1 (history = everything this process has asked so far)
        again = rng.sample(range(len(terms)), min(len(terms), 300))
        repeat_bad = [i for i in again if impl_nifr(terms[i]) != outs[i]]
        for i in again: run.count(("repeat", terms[i]), has_node(terms[i], ("concat", "union")))
        run.cov["repeat_queries"] = len(again)
        if stream_bad or repeat_bad:
            if stream_bad:
                k = stream_bad[0]
                fi, t = stream[k]
                o = smeta[k]
                hist_terms = [x for (f, x) in stream[:k + 1] if f == fi]
            else:
                t, o = terms[repeat_bad[0]], impl_nifr(terms[repeat_bad[0]])
                hist_terms = [t]
            ov, ex = property_at(t, o[1]) if o[0] == "some" else (None, None)
            wit = {"function": "numeric_intervals_from_regex (sequence of calls in one process)", "regex": str(to_z3(t))[:400], "term": t,
                   "history": hist_terms, "impl_after_history": o, "model": lib.coq_eval("c15sm", IMPORTS, f"nifr_top {qlit} {g_re(t)}")[-300:],
                   "first_answer_in_this_run": None if stream_bad else outs[repeat_bad[0]], "property_over": ov, "property_exact": ex}
            found = ov not in (None, "n/a") or ex not in (None, "n/a") or o[0] == "raise"
            run.violation({"kind": "result of a call depends on earlier calls (history dependence)" if found else
                                   "correspondence broken in the stateful stream, property holds at the differing call",
                           "witness": wit, "all_failing": len(stream_bad) + len(repeat_bad), "how_to_replay": "./check C15 --replay <this file>",
                           "obligation": "correspondence Intervals.v nifr <-> numeric_intervals_from_regex, per call",
                           "theorem": "Props/C15.v (the model is a function of the regex alone)"}, found_input=found)
        run.cov["stream_disagreements"] = len(stream_bad) + len(repeat_bad)

    run.cov['phase_seconds']['2b_streams'] = round(time.time() - t_start, 1)
    # ---------------- 3. compress_concatenation_elements ----------------
    bases = [("str", "a"), ("str", "b"), ZERO, R09, ("star", ("str", "a")), ("plus", ("str", "a")), ("union", ("str", "a"), ("str", "b")),
             ("allchar",), ("opt", ("str", "a")), ("concat", ("str", "a"), ("str", "b"))]
    lists = [[("star", ("str", "a")), ("str", "a"), ("star", ("str", "a"))]]
    small = [("str", "a"), ("star", ("str", "a")), ("plus", ("str", "a")), ("str", "b"), ("star", ("str", "b"))]
    for n in (1, 2, 3, 4):
        lists += [list(p) for p in itertools.product(small, repeat=n)]       # exhaustive over {a,a*,a+,b,b*}^<=4
    for _ in range(3000 if thorough else 500):
        k = rng.randint(1, 7)
        bs = rng.sample(bases, rng.choice([1, 1, 2, 3]))
        lists.append([rng.choice([lambda b: b, lambda b: ("star", b), lambda b: ("plus", b)])(rng.choice(bs)) for _ in range(k)])
    # stateful part: deep elements with identical str() — equal-looking but different elements must not be grouped,
    # and a later call must not see an earlier call's result
    for _ in range(60 if thorough else 10):
        fam = [nest("union", [f] + [("str", "5")] * rng.randint(23, 28)) for f in rng.sample(UNION_FIRSTS[:10], 3)]
        a, b, c = fam
        for l in ([a, ("star", a)], [b, ("star", b)], [a, ("star", b)], [("star", c), c, ("plus", c)], [("plus", a), ("plus", b)],
                  [b, ("star", b)], [("star", a), ("star", b), ("star", a)]):
            lists.append(list(l))
    ccases, cmeta = [], []
    lang_fail = []
    strs3 = ["".join(p) for n in range(0, 6) for p in itertools.product("ab", repeat=n)] + \
            ["".join(p) for n in range(1, 4) for p in itertools.product("0123456789", repeat=n) if n < 3 or p[0] in "15"]
    for l in lists:
        zs = [to_z3(t) for t in l]
        try:
            r = compress_concatenation_elements(zs)
            o = ("ok", [from_z3(x) for x in r])
            g = "(Ok " + g_list(o[1], g_re) + ")"
            # property: same language (python re as oracle, strings over {a,b} of length<=5 when bases are over a,b)
            pa, pb = to_pyre(nest("concat", l)) if len(l) > 1 else to_pyre(l[0]), None
            pb = (to_pyre(nest("concat", o[1])) if len(o[1]) > 1 else to_pyre(o[1][0])) if o[1] else "(?!)"
            if pa is not None and pb is not None:
                ra, rb = pyre.compile(pa), pyre.compile(pb)
                for s in strs3:
                    if bool(ra.fullmatch(s)) != bool(rb.fullmatch(s)):
                        lang_fail.append({"elements": [str(z) for z in zs], "compressed": [str(x) for x in r], "string": s}); break
        except Exception as e:  # noqa
            o = ("raise", lib.exn_name(e)); g = f"(Raise {o[1]})"
            lang_fail.append({"elements": [str(z) for z in zs], "raised": type(e).__name__})
        ccases.append(f"({g_list(l, g_re)}, {g})"); cmeta.append((l, o))
        run.count(("compress", tuple(l)), len(l) >= 2)
    run.cov["compress_cases"] = len(ccases)
    run.cov["compress_changed"] = sum(1 for l, o in cmeta if o[0] == "ok" and o[1] != l)
    run.sample({"compress": [str(to_z3(t)) for t in lists[0]], "impl": [str(to_z3(t)) for t in cmeta[0][1][1]]})
    fut_compress = submit("c15b", "fun c : list re * res (list re) => res_eqb re_list_eqb (compress (fst c)) (snd c)", ccases, 250)
    if lang_fail:
        run.violation({"kind": "compressed concatenation changes the language or raises", "witness": lang_fail[0], "all_failing": len(lang_fail),
                       "theorem": "Props/C15.v C15_compress_lang / C15_compress_no_assert"})

    run.cov['phase_seconds']['3_compress'] = round(time.time() - t_start, 1)
    # ---------------- 4. merge_intervals ----------------
    mcases, mmeta = [], []
    for _ in range(2000 if thorough else 400):
        ls = []
        for _ in range(rng.randint(1, 4)):
            if rng.random() < 0.08: ls.append(None); continue
            l = []
            for _ in range(rng.randint(0, 4)):
                lo = rng.choice([rng.randint(-12, 12), -M, rng.randint(-3, 3), M - 1])
                hi = rng.choice([lo, lo + rng.randint(0, 6), M, lo + 1, rng.randint(-12, 12)])
                l.append((lo, hi))
            ls.append(l)
        try:
            r = merge_intervals(*[Nothing if l is None else Some(list(l)) for l in ls])
            o = ("none",) if r == Nothing else ("some", [tuple(i) for i in r.unwrap()])
        except Exception as e:  # noqa
            o = ("raise", lib.exn_name(e))
        if o[0] == "raise":
            mmeta.append((ls, o)); mcases.append(None); continue
        g_in = g_list(ls, lambda l: "None" if l is None else f"(Some {g_ivs(l)})")
        mcases.append(f"({g_in}, {'None' if o[0] == 'none' else '(Some ' + g_ivs(o[1]) + ')'})"); mmeta.append((ls, o))
        run.count(("merge", repr(ls)), sum(len(l) for l in ls if l) >= 2)
    raised = [m for m, c in zip(mmeta, mcases) if c is None]
    if raised:
        run.violation({"kind": "merge_intervals raised", "witness": {"input": raised[0][0], "impl": raised[0][1]}})
    mc = [c for c in mcases if c is not None]
    fut_merge = submit("c15c", "fun c : list (option (list iv)) * option (list iv) => match merge_maybe (fst c), snd c with "
                               "Some a, Some b => ivs_eqb a b | None, None => true | _, _ => false end", mc, 400)

    run.cov['phase_seconds']['4_merge'] = round(time.time() - t_start, 1)
    # ---------------- 5. regex semantics: matchb (Coq) vs Z3 InRe (and python re) ----------------
    alpha = "0159+-a"
    pool = [t for t in terms if size(t) <= 14]
    rng.shuffle(pool)
    pool = pool[: (400 if thorough else 90)]
    zcases, zmeta = [], []
    for t in pool:
        z = to_z3(t)
        pat = to_pyre(t)
        rx = pyre.compile(pat) if pat is not None else None
        for _ in range(10):
            s = "".join(rng.choice(alpha) for _ in range(rng.choice([0, 1, 1, 2, 2, 3, 4])))
            v = z3.simplify(z3.InRe(z3.StringVal(s), z))
            if z3.is_true(v): b = True
            elif z3.is_false(v): b = False
            else:
                sol = z3.Solver(); sol.set("timeout", 20000); sol.add(v)
                c = sol.check()
                if c == z3.unknown: continue
                b = c == z3.sat
            if rx is not None and bool(rx.fullmatch(s)) != b:
                run.violation({"kind": "harness oracle (python re translation) disagrees with Z3", "regex": str(z), "string": s, "z3": b,
                               "obligation": "harness/c15.py to_pyre"}, found_input=False)
            zcases.append(f"({g_re(t)}, {g_str(s)}, {lib.g_bool(b)})"); zmeta.append((t, s, b))
            run.count(("inre", t, s), has_node(t, ("concat", "union")) and len(s) >= 1)
    run.cov["inre_cases"] = len(zcases)
    run.cov["inre_true"] = sum(1 for m in zmeta if m[2])
    fut_inre = submit("c15d", "fun c : re * str * bool => Bool.eqb (matchb (fst (fst c)) (snd (fst c))) (snd c)", zcases, 300)

    # ---------------- 6. collect the Coq evaluations; classify model/implementation disagreements ----------------
    run.cov["python_side_seconds"] = round(time.time() - t_start, 1)
    for i in collect(fut_nifr, "Intervals.v nifr cases") or []: disagreements.append(("nifr", i))
    unexplained = classify_property({i for k, i in disagreements if k == "nifr"})
    finish_streams()
    for i in collect(fut_compress, "Intervals.v compress cases") or []: disagreements.append(("compress", i))
    for i in collect(fut_merge, "Intervals.v merge cases") or []: disagreements.append(("merge", i))
    for i in collect(fut_inre, "IvRe.v matchb cases") or []: disagreements.append(("inre", i))
    pool_ex.shutdown()
    run.cov["correspondence_seconds"] = round(time.time() - t_start, 1)
    run.cov["disagreements_checked"] = len(disagreements)
    if disagreements:
        k, i = disagreements[0]
        if k == "nifr":
            t, o = terms[i], outs[i]
            ov, ex = property_at(t, o[1]) if o[0] == "some" else (None, None)
            first = {"function": "numeric_intervals_from_regex", "regex": str(to_z3(t)), "term": t, "impl": o,
                     "model": lib.coq_eval("c15m", IMPORTS, f"nifr_top {qlit} {g_re(t)}")[-300:], "property_over": ov, "property_exact": ex}
            failing = ov not in (None, "n/a") or (ex not in (None, "n/a") and in_shape[i]) or o[0] == "raise"
        elif k == "compress":
            l, o = cmeta[i]
            first = {"function": "compress_concatenation_elements", "elements": [str(to_z3(t)) for t in l], "impl": str(o)}
            failing = o[0] == "raise"
        elif k == "merge":
            ls, o = [m for m, c in zip(mmeta, mcases) if c is not None][i]
            first = {"function": "merge_intervals", "input": ls, "impl": o}
            pts = {x for l in ls if l for iv in l for x in (iv[0] - 1, iv[0], iv[1], iv[1] + 1)}
            allin = [iv for l in ls if l for iv in l]
            failing = o[0] == "some" and any(any(a <= n <= b for a, b in allin) != any(a <= n <= b for a, b in o[1]) for n in pts)
        else:
            t, s, b = zmeta[i]
            first = {"function": "regex semantics model (matchb) vs Z3 InRe", "regex": str(to_z3(t)), "string": s, "z3": b}
            failing = False
        if failing and not unexplained:
            run.violation({"kind": "implementation departs from the property", "witness": first, "all_disagreements": len(disagreements),
                           "theorem": "Props/C15.v + correspondence"})
        elif not failing:
            run.violation({"kind": "correspondence broken, no property-violating input among the disagreements", "first": first,
                           "all_disagreements": len(disagreements),
                           "obligation": "correspondence Intervals.v/IvRe.v <-> z3_helpers.py, helpers.merge_intervals"}, found_input=False)
    if not proof_ok:
        run.violation({"kind": "proof obligation failed", "problems": run.proof_problems, "obligation": "Props/C15.v"}, found_input=False)
    run.cov["trusted_base"] = lib.TRUSTED_BASE_COMMON + [
        "Z3 (InRe) as the oracle for the regex semantics `matches`/`matchb`; python `re` + a reference intval as oracle of the property search",
        "strings restricted to ASCII: seqref_to_int is Python int(), modelled for ASCII (whitespace, sign, digits, single underscores); non-ASCII digits and the 4300-digit limit are not modelled",
        "z3.Union/z3.Concat build left-nested binary applications (asserted on every generated regex by re-reading the z3 object)",
        "merge_two_intervals' assert (sortedness) and compress' IndexError corner cases are unreachable and not modelled as outcomes"]


def tup(x):
    return tuple(tup(y) for y in x) if isinstance(x, list) else x


def replay(path):
    d = json.load(open(path))
    w = d.get("witness")
    if not w or "term" not in w:
        print("replay file names an obligation, not an input:", d.get("obligation") or d.get("kind")); return 1
    t = tup(w["term"])
    if "history" in w:
        # stateful witness: the answer after the recorded earlier calls must equal the answer of a fresh process
        import subprocess
        code = ("import sys, json; sys.setrecursionlimit(20000); import c15; "
                "print('FRESH', json.dumps(c15.impl_nifr(c15.tup(json.loads(sys.argv[1])))))")
        pr = subprocess.run([sys.executable, "-W", "ignore", "-c", code, json.dumps(w["term"])], capture_output=True, text=True, timeout=None)
        fresh = [l for l in pr.stdout.splitlines() if l.startswith("FRESH ")]
        fresh = tup(json.loads(fresh[0][6:])) if fresh else None
        for h in w["history"][:-1]:
            print("earlier call:", str(to_z3(tup(h)))[:70].replace("\n", " "), "... ->", impl_nifr(tup(h)))
        o = impl_nifr(t)
        o_cmp = tup(json.loads(json.dumps(o)))
        print("this call, after the earlier calls:", o); print("this call, in a fresh process:   ", fresh)
        if fresh is None:
            print("fresh-process comparison inconclusive (subprocess failed or produced no answer):", pr.stderr[-300:]); return 0
        return 0 if o_cmp == fresh else 1
    o = impl_nifr(t)
    print("regex:", str(to_z3(t))[:400]); print("impl:", o)
    if "expected" in w and w["expected"] == "Nothing":
        return 0 if o[0] == "none" else 1
    if o[0] != "some":
        return 0 if o[0] == "none" else 1
    ov, ex = property_at(t, o[1])
    print("matched integer string outside the intervals:", ov); print("value inside the intervals that no matched string has:", ex)
    return 1 if (ov not in (None, "n/a") or ex not in (None, "n/a")) else 0
