"""C19 — the isla command line: correspondence of Solver/Cli.v with isla/cli.py.

Every case is one invocation of the REAL command line (in-process `isla.cli.main(*argv,
stdout=, stderr=)` with SystemExit / exception capture; a subset again as `python -m isla`
subprocess).  The model `run O fx args` (Solver/Cli.v) is evaluated inside Coq on the
abstract form of the same invocation; its oracles (BNF parser, ISLa parser, JSON tree
decoding, Earley parse, evaluator) are finite tables filled by calling the public library
API directly; for the randomised solver entry points (solve / repair / mutate) the table
holds what the ISLaSolver object answered during that very run (recorded at the API
boundary by a subclass installed as `cli.ISLaSolver`).  Compared: exit code or escaping
exception class, the complete stdout text, the kind of stderr message, and — when an
exception escapes — the class of the recorded finding it belongs to.

Independently of the model, the property clauses are evaluated on the implementation with
a spec-side reference (own recogniser for the generated grammars, own evaluation of the
generated constraints): expected exit code of check/parse, every `solve` output accepted by
`check`, every `parse` JSON accepted by `check`, no traceback."""
import io, itertools, json, os, random, re, shutil, subprocess, sys, tempfile, time
import lib
from lib import g_str, g_bool, g_list, g_nat, g_Z

from isla import cli
from isla.language import parse_bnf, parse_isla
from isla.isla_predicates import STANDARD_STRUCTURAL_PREDICATES, STANDARD_SEMANTIC_PREDICATES
from isla.isla_shortcuts import true as isla_true
from isla.solver import ISLaSolver, SemanticError, UnknownResultError
from isla.derivation_tree import DerivationTree
from isla.helpers import eassert
from grammar_graph import gg
from returns.pipeline import is_successful

MSG_SAT = "input satisfies the ISLa constraint"
MSG_NOTSAT = "input does not satisfy the ISLa constraint"
MSG_NOPARSE = "input could not be parsed"
CMDS = ["solve", "check", "parse", "repair", "mutate"]
KNAMES = {1: "K_undecodable", 2: "K_pyext_raises", 3: "K_empty_input", 4: "K_json_nontree",
          5: "K_check_raises", 6: "K_api_raises", 7: "K_solver_init", 8: "K_outfile"}


# ----------------------------------------------------------------------------
# spec-side reference: grammars as dicts, own recogniser, constraints as python predicates
# ----------------------------------------------------------------------------
GRAMMARS = {   # name -> dict nonterminal -> list of alternatives (list of symbols)
    "ab": {"<start>": [["<a>"]], "<a>": [["a"], ["b", "<a>"]]},
    "int": {"<start>": [["<int>"]], "<int>": [["<d>"], ["<d>", "<int>"]], "<d>": [["0"], ["1"], ["2"]]},
    "eps": {"<start>": [["<a>"]], "<a>": [[""], ["a", "<a>"]]},
    "over": {"<a>": [["c"]]},               # only useful merged after "ab": overrides <a>
    "nostart": {"<a>": [["a"]]},
}


def bnf_text(g):
    def sym(s):
        return s if s.startswith("<") else '"' + s + '"'
    return "".join(f"{k} ::= " + " | ".join(" ".join(sym(s) for s in alt) for alt in alts) + "\n"
                   for k, alts in g.items())


def py_text(g):
    return "grammar = " + repr({k: ["".join(alt) for alt in alts] for k, alts in g.items()}) + "\n"


def derives(g, syms, s, memo):
    key = (syms, s)
    if key in memo:
        return memo[key]
    memo[key] = False
    if not syms:
        r = s == ""
    else:
        first, rest = syms[0], syms[1:]
        if first not in g:
            r = s.startswith(first) and derives(g, rest, s[len(first):], memo)
        else:
            r = any(derives(g, tuple(alt), s[:k], memo) and derives(g, rest, s[k:], memo)
                    for k in range(len(s) + 1) for alt in g[first])
    memo[key] = r
    return r


def in_language(g, s):
    return "<start>" in g and derives(g, ("<start>",), s, {})


CONSTRAINTS = {   # name -> (text, python predicate on the whole input string | None = malformed)
    "true": ("true", lambda s: True),
    "len2": ("str.len(<start>) >= 2", lambda s: len(s) >= 2),
    "le3": ("str.len(<start>) <= 3", lambda s: len(s) <= 3),
    "bad": ("forall <a> x: (", None),
    "empty": ("", None),
    "unk": ('<zz> = "a"', None),
}


# ----------------------------------------------------------------------------
# recording subclass (API boundary of the randomised entry points)
# ----------------------------------------------------------------------------
class Rec(ISLaSolver):
    log = []

    def solve(self):
        try:
            t = super().solve()
        except StopIteration:
            Rec.log.append(("solve", "stop")); raise
        except TimeoutError:
            Rec.log.append(("solve", "timeout")); raise
        except Exception as e:
            Rec.log.append(("solve", "exn", e)); raise
        Rec.log.append(("solve", "tree", t))
        return t

    def repair(self, inp, *a, **kw):
        depth = Rec.depth = getattr(Rec, "depth", 0) + 1
        try:
            r = super().repair(inp, *a, **kw)
        except Exception as e:
            Rec.depth -= 1
            if depth == 1:
                Rec.log.append(("repair", "exn", e))
            raise
        Rec.depth -= 1
        if depth == 1:
            Rec.log.append(("repair", "ok", r.unwrap()) if is_successful(r) else ("repair", "fail"))
        return r

    def mutate(self, inp, *a, **kw):
        Rec.depth = getattr(Rec, "depth", 0) + 1     # repair() calls inside mutate are not CLI-level
        try:
            r = super().mutate(inp, *a, **kw)
        except Exception as e:
            Rec.depth -= 1
            Rec.log.append(("mutate", "exn", e)); raise
        Rec.depth -= 1
        Rec.log.append(("mutate", "ok", r))
        return r


class Budget(BaseException):
    """raised by the interval timer: the invocation exceeded its wall budget (result: inconclusive)"""


BUDGET_S = float(os.environ.get("VERIF_C19_BUDGET", "25"))      # every CLI invocation / library question
BUDGET_SLOW_S = float(os.environ.get("VERIF_C19_BUDGET_SLOW", "12"))   # mutate / repair (their own -t is 2 s)
INCONCLUSIVE = []          # argv keys cut by the budget in this run


def _on_alarm(signum, frame):
    raise Budget()


def budgeted(seconds, fn, *a):
    """run fn(*a) under a wall-clock budget (ITIMER_REAL; the harness drives the CLI from the main thread).
    Returns (True, value) or (False, None) when the budget fired."""
    import signal
    old = signal.signal(signal.SIGALRM, _on_alarm)
    try:
        try:
            signal.setitimer(signal.ITIMER_REAL, seconds)
            v = fn(*a)
            signal.setitimer(signal.ITIMER_REAL, 0)
            return True, v
        except Budget:
            return False, None
        finally:
            signal.setitimer(signal.ITIMER_REAL, 0)
    except Budget:                      # fired between the two cancellations
        return False, None
    finally:
        signal.signal(signal.SIGALRM, old)


def _run_cli(argv):
    so, se = io.StringIO(), io.StringIO()
    Rec.log, Rec.depth = [], 0
    old = cli.ISLaSolver
    cli.ISLaSolver = Rec
    try:
        try:
            cli.main(*argv, stdout=so, stderr=se)
            ex = ("exit", 0)
        except SystemExit as e:
            ex = ("exit", 0 if e.code is None else e.code)
        except Budget:
            raise
        except BaseException as e:       # noqa: the escaping exception IS the observable
            ex = ("tb", e)
    finally:
        cli.ISLaSolver = old
    return ex, so.getvalue(), se.getvalue(), list(Rec.log)


def run_cli(argv):
    """one in-process invocation under the budget; ("budget", None) = inconclusive: never compared, never a violation"""
    slow = argv and argv[0] in ("mutate", "repair")
    ok, v = budgeted(BUDGET_SLOW_S if slow else BUDGET_S, _run_cli, argv)
    if not ok:
        cli.ISLaSolver = ISLaSolver
        INCONCLUSIVE.append([os.path.basename(x) if os.sep in str(x) else x for x in argv])
        return ("budget", None), "", "", []
    return v


def stderr_kind(se):
    if "occurred during constraint solving" in se:
        return "SeSolveExn"
    if ("occurred while processing a provided file" in se or "occurred while parsing the constraint" in se
            or "weight vector" in se or "must be of type" in se or "does not return an iterable" in se):
        return "SeFormat"
    if ("usage:" in se or "you must specify exactly" in se or "does not exist or is no directory" in se
            or "Could not find any grammar definition" in se):
        return "SeUsage"
    if "sorry, I could not repair" in se:
        return "SeNoRepair"
    if MSG_NOPARSE in se:
        return "SeNoParse"
    if re.search(r"^UNSAT$", se, re.M):
        return "SeUnsat"
    return "SeNone"


# ----------------------------------------------------------------------------
# one invocation: abstract description -> argv, oracle tables, observation, Coq module
# ----------------------------------------------------------------------------
class Files:
    """the file universe of a run, written once into a temp dir"""

    def __init__(self, root):
        self.root = root
        self.kind = {}      # path -> ("text", content) | ("bin",) | ("missing",) | ("dir",)
        for n, g in GRAMMARS.items():
            self.text(f"g_{n}.bnf", bnf_text(g))
        self.text("g_ab.py", py_text(GRAMMARS["ab"]))
        self.text("g_nog.py", "x = 1\n")
        self.text("g_raise.py", "this is not python\n")
        self.text("g_type.py", "grammar = 5\n")
        self.text("g_bad.bnf", "<start> ::= <a\n")
        self.text("g_empty.bnf", "")
        for n, (txt, _) in CONSTRAINTS.items():
            self.text(f"c_{n}.isla", txt)
        for n, (txt, _) in CONNECTIVE.items():
            self.text(f"c_k{n}.isla", txt)
        self.text("c_zfollow.isla", FOLLOW[0])
        self.text("in_bba.txt", "bba\n")
        self.text("in_ok2.txt", "ba\n")
        self.text("in_ok1.txt", "a\n")
        self.text("in_syn.txt", "c\n")
        self.text("in_empty.txt", "")
        self.text("in_nl.txt", "\n")
        self.text("in_nonl.txt", "bba")
        self.text("in_2nl.txt", "ba\n\n")
        self.text("in_num.txt", "12\n")
        self.text("in_jstr.txt", '"a"\n')
        self.text("in_jnull.txt", "null\n")
        t = ["<start>", [["<a>", [["b", []], ["<a>", [["a", []]]]]]]]
        self.text("in_tree.json", json.dumps(t))
        self.text("in_badtree.json", json.dumps(["<start>", [["<a>", [["c", []]]]]]))
        self.text("in_opentree.json", json.dumps(["<start>", [["<a>", None]]]))
        p = os.path.join(root, "in_bin.txt")
        open(p, "wb").write(b"\xff\xfe\x00a")
        self.kind[p] = ("bin",)
        self.kind[os.path.join(root, "nonexistent.txt")] = ("missing",)
        d = os.path.join(root, "adir")
        os.makedirs(d, exist_ok=True)
        self.kind[d] = ("dir",)
        os.makedirs(os.path.join(root, "outdir"), exist_ok=True)

    def text(self, name, content):
        p = os.path.join(self.root, name)
        with open(p, "w", encoding="utf-8") as f:
            f.write(content)
        self.kind[p] = ("text", content)
        return p

    def p(self, name):
        return os.path.join(self.root, name)


class Case:
    """abstract invocation (mirrors the Coq record `args`)"""

    def __init__(self, cmd, files=(), g=None, cs=(), i=None, n=1, tree=False, pretty=None, wv=None,
                 outdir=None, outfile=None, timeout="2", tag="", extra=()):
        self.cmd, self.files, self.g, self.cs, self.i = cmd, list(files), g, list(cs), i
        self.n, self.tree, self.pretty, self.wv = n, tree, pretty, wv
        self.outdir, self.outfile, self.timeout, self.tag, self.extra = outdir, outfile, timeout, tag, list(extra)

    def argv(self):
        a = [self.cmd]
        if self.g is not None:
            a += ["-g", self.g]
        for c in self.cs:
            a += ["-c", c]
        if self.i is not None:
            a += ["-i", self.i]
        if self.cmd == "solve":
            a += ["-n", str(self.n), "-t", self.timeout]
            if self.tree:
                a += ["-T"]
            if self.wv is not None:
                a += ["-w", self.wv]
            if self.outdir is not None:
                a += ["-d", self.outdir]
        if self.cmd in ("repair", "mutate"):
            a += ["-t", self.timeout]
        if self.cmd in ("solve", "parse") and self.pretty is not None:
            a += ["-p" if self.pretty else "--no-pretty-print"]
        if self.cmd in ("parse", "repair", "mutate") and self.outfile is not None:
            a += ["-o", self.outfile]
        return a + self.extra + self.files     # FILES last (argparse: one contiguous block)

    def key(self):
        return tuple(os.path.basename(x) if isinstance(x, str) and os.sep in x else x for x in self.argv())


def pretty_default(cmd):
    return bool(cli.get_default(io.StringIO(), cmd, "--pretty-print").unwrap())


class Tables:
    """oracle tables of one case, filled by direct library calls"""

    def __init__(self):
        self.bnf, self.py, self.isla, self.json, self.parse, self.check = {}, {}, {}, {}, {}, {}
        self.trees = []            # index = tree id; (str, json, pretty json)
        self.gparts = []           # index = grammar part id -> python grammar dict
        self.forms = []            # index = formula id
        self.gexp, self.fexp = [], []
        self.init = None
        self.solve, self.repair, self.mutate = [], None, None

    def tree_id(self, t):
        s = (str(t), cli.derivation_tree_to_json(t, False), cli.derivation_tree_to_json(t, True))
        if s not in self.trees:
            self.trees.append(s)
        return self.trees.index(s)


def api_bnf(tb, content):
    if content in tb.bnf:
        return tb.bnf[content]
    try:
        g = parse_bnf(content)
        tb.gparts.append(g)
        r = len(tb.gparts) - 1
    except Exception:
        r = None
    tb.bnf[content] = r
    return r


def api_py(tb, content):
    if content in tb.py:
        return tb.py[content]
    try:
        g, _, _ = cli.process_python_extension("check", content, io.StringIO())
        gd = g.value_or(None)
        if gd:
            tb.gparts.append(gd)
            r = ("ok", len(tb.gparts) - 1)
        else:
            r = ("ok", None)
    except SystemExit:
        r = ("exit65",)
    except Exception as e:
        r = ("exn", lib.exn_name(e))
    tb.py[content] = r
    return r


def fill_tables(case, fs):
    """mirror just enough of the data flow to know WHICH library questions can be asked, and ask them"""
    tb = Tables()
    d = {}
    for p in case.files:
        k = fs.kind[p]
        if k[0] == "text" and p not in d:
            d[p] = k[1]
    for p, c in d.items():                      # every file content is registered
        if p.endswith(".bnf"):
            api_bnf(tb, c)
        if p.endswith(".py"):
            api_py(tb, c)
    if any(fs.kind[p][0] != "text" for p in case.files):
        return tb, None
    parts = []
    if case.g:
        r = api_bnf(tb, case.g)
        if r is None:
            return tb, None
        parts = [r]
    else:
        for p, c in d.items():
            if p.endswith(".bnf"):
                r = api_bnf(tb, c)
                if r is None:
                    return tb, None
                parts.append(r)
            elif p.endswith(".py"):
                r = api_py(tb, c)
                if r[0] != "ok":
                    return tb, None
                if r[1] is not None:
                    parts.append(r[1])
    if not parts:
        return tb, None
    tb.gexp = parts
    grammar = {}
    for i in parts:
        grammar |= tb.gparts[i]
    sources = list(case.cs) + [c for p, c in d.items() if p.endswith(".isla")]
    formula, ok = isla_true(), True
    for c in sources:
        if c not in tb.isla:
            try:
                f = parse_isla(c, grammar, structural_predicates=STANDARD_STRUCTURAL_PREDICATES,
                               semantic_predicates=STANDARD_SEMANTIC_PREDICATES)
                tb.forms.append(f)
                tb.isla[c] = len(tb.forms) - 1
            except Exception:
                tb.isla[c] = None
        if tb.isla[c] is None:
            ok = False
            break
        formula = formula & tb.forms[tb.isla[c]]
        tb.fexp.append(tb.isla[c])
    if not ok:
        tb.fexp = []
        return tb, None
    info = {"grammar": grammar, "formula": formula, "sources": sources}
    if case.cmd == "solve":
        try:
            gg.GrammarGraph.from_grammar(grammar)
            ISLaSolver(grammar, formula)
        except Exception as e:
            tb.init = lib.exn_name(e)
        return tb, info
    # input text
    if case.i:
        inp = case.i
    else:
        ins = [c for p, c in d.items() if not p.endswith((".bnf", ".isla", ".py"))]
        if len(ins) != 1:
            return tb, info
        inp = ins[0]
        inp = inp[:-1] if inp.endswith("\n") else inp
    info["inp"] = inp
    tree = None
    try:
        js = json.loads(inp)
        try:
            tree = DerivationTree.from_parse_tree(js)
            eassert(tree, gg.GrammarGraph.from_grammar(grammar).tree_is_valid(tree))
            tb.json[inp] = ("tree", tb.tree_id(tree))
            info["json_tree"] = True
        except Exception as e:
            tb.json[inp] = ("raise", lib.exn_name(e))
            tree = None
    except Exception:
        tb.json[inp] = ("notjson",)
    if tree is None:
        try:
            tree = ISLaSolver(grammar, formula).parse(inp, skip_check=True)
            tb.parse[inp] = tb.tree_id(tree)
        except Exception:
            tb.parse[inp] = None
    if tree is not None:
        info["tree"] = tree
        tid = tb.tree_id(tree)
        try:
            s = ISLaSolver(grammar, formula, structural_predicates=STANDARD_STRUCTURAL_PREDICATES,
                           semantic_predicates=STANDARD_SEMANTIC_PREDICATES)
            tb.check[tid] = "ChkTrue" if s.check(tree) else "ChkFalse"
        except SemanticError:
            tb.check[tid] = "ChkFalse"
        except UnknownResultError:
            tb.check[tid] = "ChkUnknown"
        except Exception as e:
            tb.check[tid] = f"(ChkRaise {lib.exn_name(e)})"
        info["tid"] = tid
        if len(sources) >= 2:
            ind = []
            for c in sources:
                try:
                    si = ISLaSolver(grammar, tb.forms[tb.isla[c]], structural_predicates=STANDARD_STRUCTURAL_PREDICATES,
                                    semantic_predicates=STANDARD_SEMANTIC_PREDICATES)
                    ind.append(bool(si.check(tree)))
                except SemanticError:
                    ind.append(False)
                except Exception:
                    ind.append(None)
            info["individual"] = ind
    return tb, info


def add_recorded(tb, case, log):
    for ev in log:
        if ev[0] == "solve" and case.cmd == "solve":
            tb.solve.append({"stop": "SolStop", "timeout": "SolTimeout"}.get(ev[1]) or
                            (f"(SolTree {tb.tree_id(ev[2])}%nat)" if ev[1] == "tree" else f"(SolExn {lib.exn_name(ev[2])})"))
        if ev[0] == "repair" and case.cmd == "repair":
            tb.repair = (f"(RepOk {tb.tree_id(ev[2])}%nat)" if ev[1] == "ok" else
                         "RepFail" if ev[1] == "fail" else f"(RepExn {lib.exn_name(ev[2])})")
        if ev[0] == "mutate" and case.cmd == "mutate":
            tb.mutate = f"(Ok {tb.tree_id(ev[2])}%nat)" if ev[1] == "ok" else f"(Raise {lib.exn_name(ev[2])})"


POOL = {}


def gs(x):
    """string literal through a per-run pool of named definitions (emitted once per shard)"""
    if len(x) <= 2:
        return g_str(x)
    if x not in POOL:
        POOL[x] = f"S{len(POOL)}"
    return POOL[x]


POOL_HEADER = ("From Coq Require String Ascii.\nImport Coq.Strings.String.StringSyntax.\n"
               "Fixpoint sos (s : String.string) : str := match s with String.EmptyString => [] "
               "| String.String a r => Ascii.N_of_ascii a :: sos r end.\n")


def pool_defs(text):
    """definitions of the pooled strings used in `text`.  ASCII strings are written as Coq string literals and converted
    by `sos` under vm_compute (parsing a list of N numerals is ~100x slower); anything else as a list of code points."""
    used = set(re.findall(r"\bS(\d+)\b", text))
    inv = {v: k for k, v in POOL.items()}
    out = [POOL_HEADER, "Open Scope string_scope."]
    rest = []
    for n in sorted(used, key=int):
        x = inv["S" + n]
        if all(0 < ord(c) < 128 for c in x):
            out.append(f'Definition S{n} : str := Eval vm_compute in sos "' + x.replace('"', '""') + '".')
        else:
            rest.append(f"Definition S{n} : str := {g_str(x)}.")
    return "\n".join(out + ["Close Scope string_scope."] + rest)


def token(r):
    """long renderings of trees are replaced (in the tables AND in the observed stdout) by an injective short token"""
    import hashlib
    return r if len(r) <= 48 else f"@T{len(r)}:{hashlib.sha1(r.encode()).hexdigest()[:10]}@"


def g_natlist(xs):
    return "(@nil nat)" if not xs else "[" + ";".join(str(x) for x in xs) + "]%nat"


def assoc(entries, fk, fv):
    return "[" + "; ".join(f"({fk(k)}, {fv(v)})" for k, v in entries) + "]"


def coq_module(name, case, fs, tb, obs, fxs, expect_k):
    """Gallina module: tables, args literal, observation, `ok`"""
    L = []
    A = L.append
    trees = [tuple(token(r) for r in t) for t in tb.trees]
    ex, so, se_kind = obs
    for r in sorted({r for t in tb.trees for r in t if token(r) != r}, key=len, reverse=True):
        so = so.replace(r, token(r))
    A(f"Module {name}.")
    A(f"Definition GEXP := {g_natlist(tb.gexp)}. Definition FEXP := {g_natlist(tb.fexp)}.")
    A("Definition bnf_t (s : str) : option nat := lookup str_eqb s " +
      assoc(tb.bnf.items(), gs, lambda v: "None" if v is None else f"Some {v}%nat") + " None.")

    def pyv(v):
        if v[0] == "exn":
            return f"PyExn {v[1]}"
        if v[0] == "exit65":
            return "PyExit65"
        return "PyOk None" if v[1] is None else f"PyOk (Some {v[1]}%nat)"
    A("Definition py_t (s : str) : pyout nat := lookup str_eqb s " + assoc(tb.py.items(), gs, pyv) + " (PyExn OtherErr).")
    A("Definition isla_t (g : list nat) (s : str) : option (list nat) := if natlist_eqb g GEXP then lookup str_eqb s " +
      assoc(tb.isla.items(), gs, lambda v: "None" if v is None else f"Some [{v}%nat]") + " None else None.")

    def jv(v):
        return {"tree": lambda: f"JTree {v[1]}%nat", "raise": lambda: f"JRaise {v[1]}", "notjson": lambda: "JNotJson"}[v[0]]()
    A("Definition json_t (g : list nat) (s : str) : jout nat := if natlist_eqb g GEXP then lookup str_eqb s " +
      assoc(tb.json.items(), gs, jv) + " (JRaise OtherErr) else JRaise OtherErr.")
    A("Definition parse_t (g f : list nat) (s : str) : option nat := if natlist_eqb g GEXP && natlist_eqb f FEXP then lookup str_eqb s " +
      assoc(tb.parse.items(), gs, lambda v: "None" if v is None else f"Some {v}%nat") + " None else None.")
    A("Definition check_t (g f : list nat) (t : nat) : chk := if natlist_eqb g GEXP && natlist_eqb f FEXP then lookup Nat.eqb t " +
      assoc(tb.check.items(), g_nat, lambda v: v) + " (ChkRaise OtherErr) else ChkRaise OtherErr.")
    A(f"Definition init_t (g f : list nat) : option exn := {'None' if tb.init is None else 'Some ' + tb.init}.")
    A("Definition solve_t (g f : list nat) : list (sev nat) := if natlist_eqb g GEXP && natlist_eqb f FEXP then [" +
      "; ".join(tb.solve) + "] else [].")
    A(f"Definition repair_t (g f : list nat) (t : nat) : rep nat := {tb.repair or 'RepExn OtherErr'}.")
    A(f"Definition mutate_t (g f : list nat) (t : nat) : res nat := {tb.mutate or 'Raise OtherErr'}.")
    A("Definition str_t (t : nat) : str := lookup Nat.eqb t " +
      assoc(enumerate(trees), g_nat, lambda v: gs(v[0])) + " [].")
    A("Definition json_tt (p : bool) (t : nat) : str := lookup Nat.eqb t (if p then " +
      assoc(enumerate(trees), g_nat, lambda v: gs(v[2])) + " else " +
      assoc(enumerate(trees), g_nat, lambda v: gs(v[1])) + ") [].")
    A("Definition O := Oracles nat (list nat) nat bnf_t py_t isla_t [] (@app nat) json_t parse_t check_t init_t solve_t "
      "repair_t mutate_t str_t json_tt.")

    def gfile(p):
        k = fs.kind[p]
        st = {"text": lambda: f"(Text {gs(k[1])})", "bin": lambda: "Undecodable",
              "missing": lambda: "Unopenable", "dir": lambda: "Unopenable"}[k[0]]()
        return f"(File {gs(os.path.basename(p))} {st})"

    def gopt(s):
        return "None" if s is None else f"(Some {gs(s)})"
    wv = "WvOk"
    if case.wv is not None:
        parts = case.wv.split(",")
        wv = "WvLen" if len(parts) != 5 else ("WvOk" if all(re.fullmatch(r"-?\d+(\.\d+)?", x) for x in parts) else "WvNum")
    odir = "DirNone" if case.outdir is None else ("DirOk" if os.path.isdir(case.outdir) else "DirBad")
    ofile = "OutNone" if case.outfile is None else ("OutOk" if os.path.isdir(os.path.dirname(case.outfile)) else "OutBad")
    pretty = case.pretty if case.pretty is not None else pretty_default(case.cmd if case.cmd in ("solve", "parse") else "parse")
    A(f"Definition a := Args {case.cmd.capitalize()} {gopt(case.g)} {g_list(case.cs, gs)} {gopt(case.i)} "
      f"{g_list(case.files, gfile)} {g_Z(case.n)} {g_bool(case.tree)} {g_bool(pretty)} {wv} {odir} {ofile}.")
    A(f"Definition FX := Fixes {g_bool(fxs['empty'])} {g_bool(fxs['json'])}.")
    exl = f"Exit {g_Z(ex[1])}" if ex[0] == "exit" else f"Traceback {lib.exn_name(ex[1])}"
    A("Definition m := run O FX a.")
    A(f"Definition ok := exit_eqb (o_exit m) ({exl}) && "
      f"str_eqb (stdout_text {gs(MSG_SAT)} {gs(MSG_NOTSAT)} {gs(MSG_NOPARSE)} (o_stdout m)) {gs(so)} && "
      f"err_eqb (o_stderr m) {se_kind}"
      + (f" && Nat.eqb (kclass _ _ _ O FX a) {expect_k}%nat" if ex[0] == "tb" else "") + ".")
    A(f"End {name}.")
    return "\n".join(L)


# ----------------------------------------------------------------------------
# spec-side expectation for one case (None = the property does not fix the outcome)
# ----------------------------------------------------------------------------
def spec_expect(case, fs):
    """expected exit code of check/parse according to the property text, from the generator's ground truth"""
    if case.cmd not in ("check", "parse") or case.extra or "nospec" in case.tag:
        return None
    kinds = [fs.kind[p] for p in case.files]
    if any(k[0] in ("missing", "dir") for k in kinds):
        return 2
    if any(k[0] == "bin" for k in kinds):
        return None
    names = []
    for p in case.files:
        if p not in names:
            names.append(p)
    gfiles = [p for p in names if p.endswith((".bnf", ".py"))]
    cfiles = [p for p in names if p.endswith(".isla")]
    ifiles = [p for p in names if not p.endswith((".bnf", ".py", ".isla"))]
    if not case.g and not gfiles:
        return 2
    if not case.cs and not cfiles:
        return 2
    # grammar
    by_text = {bnf_text(g): g for g in GRAMMARS.values()}
    by_py = {py_text(g): g for g in GRAMMARS.values()}
    gram = {}
    if case.g:
        if case.g not in by_text:
            return 65
        gram = dict(by_text[case.g])
    else:
        for p in gfiles:
            c = fs.kind[p][1]
            if p.endswith(".bnf"):
                if c not in by_text:
                    return 65
                gram |= by_text[c]
            else:
                if c in by_py:
                    gram |= by_py[c]
                elif "x = 1" in c:
                    pass
                else:
                    return 65
        if not gram:
            return 2
    if "<start>" not in gram:
        return None            # BNF-valid but unusable grammar: the property text does not say
    preds = []
    for c in list(case.cs) + [fs.kind[p][1] for p in cfiles]:
        if CONSTRAINTS_BY_TEXT.get(c) is None:
            return 65
        preds.append(CONSTRAINTS_BY_TEXT[c])
    if case.i:
        inp = case.i
    else:
        if len(ifiles) != 1:
            return 2
        inp = fs.kind[ifiles[0]][1]
        inp = inp[:-1] if inp.endswith("\n") else inp
    if ifiles and not case.i and ifiles[0].endswith(".json"):
        try:
            word = str(DerivationTree.from_parse_tree(json.loads(inp)))
        except Exception:
            return None
        if "<" in word:
            return None        # open tree: not a word at all; recorded observation, see design notes
        inp = word
    return 0 if in_language(gram, inp) and all(p(inp) for p in preds) else 1


# ----------------------------------------------------------------------------
# case generation
# ----------------------------------------------------------------------------
def gen_cases(fs, rng, thorough):
    P = fs.p
    G = {"ok": [P("g_ab.bnf")], "missing": [], "malformed": [P("g_bad.bnf")], "empty": [P("g_empty.bnf")],
         "py": [P("g_ab.py")], "nostart": [P("g_nostart.bnf")]}
    C = {"ok": [P("c_len2.isla")], "missing": [], "malformed": [P("c_bad.isla")], "empty": [P("c_empty.isla")]}
    I = {"ok": [P("in_ok2.txt")], "sem": [P("in_ok1.txt")], "syn": [P("in_syn.txt")], "EMPTY": [P("in_empty.txt")],
         "none": [], "two": [P("in_ok2.txt"), P("in_ok1.txt")]}
    cases = []
    # A. factorial: present / missing / malformed / empty  x  commands
    for gk, ck in itertools.product(G, C):
        cases.append(Case("solve", G[gk] + C[ck], n=2, tag=f"A solve g={gk} c={ck}"))
    for cmd in ("check", "parse", "repair", "mutate"):
        combos = list(itertools.product(G, C, I))
        if not thorough:
            keep = [c for c in combos if c[0] == "ok" and c[1] == "ok"]       # all inputs with a good specification
            rest = [c for c in combos if c not in keep]
            combos = keep + rng.sample(rest, 66 if cmd == "check" else 14)
        for gk, ck, ik in combos:
            order = rng.randrange(3)      # file order on the command line must not matter
            fl = [G[gk] + C[ck] + I[ik], I[ik] + C[ck] + G[gk], C[ck] + I[ik] + G[gk]][order]
            cases.append(Case(cmd, fl, tag=f"A {cmd} g={gk} c={ck} i={ik}" + (" nospec" if gk == "nostart" else "")))
    # B. options and special inputs
    gab, gint, geps = P("g_ab.bnf"), P("g_int.bnf"), P("g_eps.bnf")
    ctrue, clen2, cle3 = P("c_true.isla"), P("c_len2.isla"), P("c_le3.isla")
    ab_text = bnf_text(GRAMMARS["ab"])
    for cmd in ("check", "parse", "repair", "mutate"):
        B = [
            Case(cmd, [gab, clen2], i="ba", tag="-i"),
            Case(cmd, [gab, clen2], i="", tag="-i empty string is falsy"),
            Case(cmd, [gab, clen2, P("in_ok1.txt")], i="ba", tag="-i wins over file"),
            Case(cmd, [clen2, P("in_ok2.txt")], g=ab_text, tag="-g"),
            Case(cmd, [clen2, P("in_ok2.txt")], g="", tag="-g empty is falsy"),
            Case(cmd, [clen2, P("in_ok2.txt")], g="<start> ::= <a", tag="-g malformed"),
            Case(cmd, [P("g_bad.bnf"), clen2, P("in_ok2.txt")], g=ab_text, tag="-g wins over malformed file"),
            Case(cmd, [gab, P("in_ok2.txt")], cs=["str.len(<start>) >= 2"], tag="-c"),
            Case(cmd, [gab, P("in_ok2.txt")], cs=["str.len(<start>) >= 2", "str.len(<start>) <= 3"], tag="-c -c"),
            Case(cmd, [gab, cle3, P("in_ok1.txt")], cs=["str.len(<start>) >= 2"], tag="-c false + file true"),
            Case(cmd, [gab, P("in_ok2.txt")], cs=[""], tag="-c empty string"),
            Case(cmd, [gab, P("in_ok2.txt")], cs=["forall <a> x: ("], tag="-c malformed"),
            Case(cmd, [gab, clen2, cle3, P("in_ok2.txt")], tag="two constraint files both true"),
            Case(cmd, [gab, clen2, cle3], i="bbba", tag="two constraint files second false"),
            Case(cmd, [gab, cle3, clen2], i="a", tag="two constraint files second false (order)"),
            Case(cmd, [gab, clen2, P("c_bad.isla"), P("in_ok2.txt")], tag="second constraint malformed"),
            Case(cmd, [gab, P("c_unk.isla"), P("in_ok2.txt")], tag="constraint with unknown nonterminal"),
            Case(cmd, [gab, P("g_over.bnf"), ctrue], i="c", tag="two grammar files: later overrides"),
            Case(cmd, [P("g_over.bnf"), gab, ctrue], i="c", tag="two grammar files: other order"),
            Case(cmd, [gab, P("g_bad.bnf"), ctrue], i="a", tag="second grammar malformed"),
            Case(cmd, [P("g_nog.py"), ctrue, P("in_ok1.txt")], tag="py without grammar"),
            Case(cmd, [P("g_nog.py"), gab, ctrue, P("in_ok1.txt")], tag="py without grammar + bnf"),
            Case(cmd, [P("g_raise.py"), ctrue, P("in_ok1.txt")], tag="py raising"),
            Case(cmd, [P("g_type.py"), ctrue, P("in_ok1.txt")], tag="py grammar of wrong type"),
            Case(cmd, [P("g_raise.py"), ctrue, P("in_ok1.txt")], g=ab_text, tag="-g + py raising nospec"),
            Case(cmd, [P("g_type.py"), ctrue, P("in_ok1.txt")], g=ab_text, tag="-g + py wrong type nospec"),
            Case(cmd, [gab, ctrue, P("in_ok1.txt"), P("in_ok1.txt")], tag="same input twice"),
            Case(cmd, [gab, gab, ctrue, ctrue, P("in_ok1.txt")], tag="same spec files twice"),
            Case(cmd, [gab, clen2, P("in_nl.txt")], tag="newline only"),
            Case(cmd, [geps, ctrue, P("in_nl.txt")], tag="newline only, nullable grammar"),
            Case(cmd, [geps, ctrue, P("in_empty.txt")], tag="EMPTY, nullable grammar"),
            Case(cmd, [gab, clen2, P("in_nonl.txt")], tag="no trailing newline"),
            Case(cmd, [gab, clen2, P("in_2nl.txt")], tag="two trailing newlines"),
            Case(cmd, [gint, clen2, P("in_num.txt")], tag="numeric input (valid JSON)"),
            Case(cmd, [gint, clen2], i="12", tag="numeric -i (valid JSON)"),
            Case(cmd, [gab, clen2, P("in_jstr.txt")], tag="JSON string input"),
            Case(cmd, [gab, clen2, P("in_jnull.txt")], tag="JSON null input"),
            Case(cmd, [gab, clen2, P("in_tree.json")], tag="JSON tree"),
            Case(cmd, [gab, P("c_le3.isla"), P("in_tree.json")], cs=["str.len(<start>) >= 3"], tag="JSON tree, constraint false"),
            Case(cmd, [gab, clen2, P("in_badtree.json")], tag="JSON tree invalid for grammar"),
            Case(cmd, [gab, clen2, P("in_opentree.json")], tag="JSON open tree"),
            Case(cmd, [gab, ctrue, P("in_opentree.json")], tag="JSON open tree, constraint true"),
            Case(cmd, [gab, clen2, P("in_bin.txt")], tag="binary input"),
            Case(cmd, [gab, clen2, P("nonexistent.txt")], tag="missing input path"),
            Case(cmd, [gab, clen2, P("adir")], tag="directory as input"),
            Case(cmd, [P("nonexistent.txt"), P("in_bin.txt"), clen2], tag="missing path + binary"),
            Case(cmd, [], tag="no arguments"),
        ]
        if cmd != "check":
            B += [Case(cmd, [gab, clen2, P("in_ok2.txt")], outfile=os.path.join(fs.root, "outdir", f"o_{cmd}.txt"), tag="-o ok"),
                  Case(cmd, [gab, clen2, P("in_ok2.txt")], outfile=os.path.join(fs.root, "nodir", "o.txt"), tag="-o unwritable"),
                  Case(cmd, [gab, clen2, P("in_syn.txt")], outfile=os.path.join(fs.root, "nodir", "o.txt"), tag="-o unwritable, no parse")]
        if cmd == "parse":
            B += [Case(cmd, [gab, clen2, P("in_ok2.txt")], pretty=False, tag="--no-pretty-print"),
                  Case(cmd, [gab, clen2, P("in_ok2.txt")], pretty=True, tag="-p")]
        if cmd != "check" and not thorough:
            B = [c for k, c in enumerate(B) if k % 3 == (CMDS.index(cmd) % 3) or "JSON tree" in c.tag or "EMPTY" in c.tag
                 or "-o" in c.tag or "numeric input" in c.tag or "pretty" in c.tag or c.tag == "-p"]
        cases += B
    S = [
        Case("solve", [gab, clen2], n=1, tag="n=1"),
        Case("solve", [gab, clen2, cle3], n=2, tag="two constraints, n=2"),
        Case("solve", [gab], n=2, tag="no constraint"),
        Case("solve", [gab, clen2], n=2, tree=True, tag="-T"),
        Case("solve", [gab, clen2], n=1, tree=True, pretty=True, tag="-T -p"),
        Case("solve", [gab, clen2], n=1, tree=True, pretty=False, tag="-T --no-pretty-print"),
        Case("solve", [gab, clen2, P("in_ok1.txt")], n=1, tag="extra input file is ignored"),
        Case("solve", [gab, clen2, P("in_bin.txt")], n=1, tag="binary extra file"),
        Case("solve", [gab, clen2, P("nonexistent.txt")], n=1, tag="missing extra file"),
        Case("solve", [gab, clen2], n=1, outdir=os.path.join(fs.root, "outdir"), tag="-d ok"),
        Case("solve", [gab, clen2], n=1, outdir=os.path.join(fs.root, "nodir"), tag="-d missing"),
        Case("solve", [P("g_bad.bnf"), clen2], n=1, outdir=os.path.join(fs.root, "nodir"), tag="-d missing before malformed grammar"),
        Case("solve", [gab, clen2], n=1, wv="1,2", tag="-w short"),
        Case("solve", [gab, clen2], n=1, wv="1,2,x,4,5", tag="-w non numeric"),
        Case("solve", [gab, clen2], n=1, wv="1,2,3,4,5", tag="-w ok"),
        Case("solve", [P("g_nostart.bnf"), clen2], n=1, wv="1,2", tag="-w short before invalid grammar"),
        Case("solve", [gab, P("c_bad.isla")], n=1, wv="1,2", tag="malformed constraint before -w"),
        Case("solve", [clen2], g=ab_text, n=1, tag="-g"),
        Case("solve", [gab], cs=["str.len(<start>) >= 2"], n=1, tag="-c"),
        Case("solve", [geps, ctrue], n=1, tag="nullable grammar"),
        Case("solve", [gint, clen2], n=2, tag="int grammar"),
        Case("solve", [P("g_ab.py"), clen2], n=1, tag="py grammar"),
        Case("solve", [P("g_raise.py"), clen2], g=ab_text, n=1, tag="-g + py raising"),
        Case("solve", [gab, P("g_over.bnf")], cs=["str.len(<start>) > 5"], n=1, timeout="1", tag="unsatisfiable: timeout"),
        Case("solve", [gab, P("g_over.bnf")], cs=["str.len(<start>) > 5"], n=1, timeout="2", extra=["--unsat-support"],
             tag="unsatisfiable with --unsat-support"),
        Case("solve", [gab, P("g_over.bnf"), ctrue], n=0, timeout="1", tag="n=0 on a one-word language"),
        Case("solve", [], tag="no arguments"),
    ]
    # C. several constraints, a NON-LAST one with a top-level connective (or / implies / iff / xor): the exit code must be
    #    that of the conjunction of the individually parsed constraints (a textual join "K and C" re-associates)
    K = []
    good = {"or": "bba", "implies": "bba", "iff": "bba", "xor": "bbbbba"}
    zf = P("c_zfollow.isla")
    for n, (ktxt, _) in CONNECTIVE.items():
        kf = P(f"c_k{n}.isla")
        for inp in ("a", good[n], "ba"):          # "a": K holds through one operand, the FOLLOWing constraint is violated
            tag = f"C connective {n} input={inp}"
            K += [Case("check", [gab], cs=[ktxt, FOLLOW[0]], i=inp, tag=tag + " -c -c"),
                  Case("check", [gab, zf], cs=[ktxt], i=inp, tag=tag + " -c file"),
                  Case("check", [gab, kf, zf], i=inp, tag=tag + " file file"),
                  Case("check", [zf, gab, kf] + [P("in_ok1.txt") if inp == "a" else P("in_bba.txt") if inp == "bba" else P("in_ok2.txt")],
                       tag=tag + " file file, other order, input file") if inp != "bbbbba" else
                  Case("check", [gab, cle3, zf], cs=[ktxt], i=inp, tag=tag + " -c file file"),
                  Case("check", [gab, zf], cs=["true", ktxt], i=inp, tag=tag + " -c -c file")]
        K += [Case("parse", [gab], cs=[ktxt, FOLLOW[0]], i="a", tag=f"C connective {n} parse -c -c"),
              Case("parse", [gab, kf, zf], i=good[n], tag=f"C connective {n} parse file file")]
    K += [Case("solve", [gab], cs=[CONNECTIVE["or"][0], FOLLOW[0]], n=1, tag="C connective or solve -c -c"),
          Case("solve", [gab, P("c_kimplies.isla"), zf], n=1, tag="C connective implies solve file file"),
          Case("solve", [gab, zf], cs=[CONNECTIVE["or"][0]], n=1, tag="C connective or solve -c file")]
    return cases + S + K


def expect_class(case, fs, ex, log):
    """class of an escaping exception, decided from the generator's knowledge (not from the model)"""
    e = ex[1]
    kinds = [fs.kind[p][0] for p in case.files]
    if isinstance(e, UnicodeDecodeError):
        return 1
    if case.g and any(p.endswith("g_raise.py") for p in case.files) and isinstance(e, NameError):
        return 2
    if isinstance(e, IndexError) and not case.i and any(fs.kind[p] == ("text", "") for p in case.files
                                                        if not p.endswith((".bnf", ".py", ".isla"))):
        return 3
    if any(l[0] in ("repair", "mutate") and l[1] == "exn" and l[2] is e for l in log):
        return 6
    if isinstance(e, UnknownResultError):
        return 5
    if case.cmd == "solve" and isinstance(e, AssertionError):
        return 7
    if isinstance(e, OSError) and case.outfile:
        return 8
    if "JSON" in case.tag or "numeric" in case.tag:
        return 4
    return 0


# ----------------------------------------------------------------------------
def run(run):
    rng = random.Random(run.seed)
    thorough = run.tier == "thorough"
    run.cov["rule"] = (
        "one case = one invocation of the real CLI (in-process cli.main with SystemExit/exception capture; a subset again as "
        "`python -m isla` subprocess). A: every combination of grammar {ok, missing, malformed, empty, python, no <start>} x "
        "constraint {ok, missing, malformed, empty} x input {ok, constraint-violating, not in language, EMPTY file, none, two} "
        "(quick: check 72 of the 144 combinations, parse/repair/mutate 20 each, always including every input kind with a good grammar and constraint; thorough: all 144 for each command) and grammar x constraint for "
        "solve, with shuffled file order; B: options -g/-c/-i/-o/-p/-T/-d/-w/-n, several grammar/constraint files "
        "(override order, conjunction), python extension files, JSON trees (valid, invalid, open), JSON non-tree inputs, "
        "binary/missing/directory arguments, duplicates. non-trivial = grammar, constraint and input all supplied (for solve: "
        "grammar and constraint).")
    proof_ok = run.proof_stage()
    ents = lib.known_findings("C19")
    mp = os.path.join(lib.VERIF, "harness", "meta", "C19.findings.json")
    if not ents and os.path.exists(mp):          # known_findings.json is generated from this file by the coordinator
        ents = json.load(open(mp))
    known = {e["class"]: e for e in ents if e.get("status") == "open"}
    root = tempfile.mkdtemp(prefix="c19_")
    try:
        _run(run, rng, thorough, root, known)
    finally:
        shutil.rmtree(root, ignore_errors=True)
    if not proof_ok:
        run.violation({"kind": "proof obligation failed", "problems": run.proof_problems,
                       "obligation": "Props/C19.v"}, found_input=False)
    run.cov["trusted_base"] = lib.TRUSTED_BASE_COMMON + [
        "argparse option syntax, file I/O and process exit are observed, not modelled (the model starts from the parsed option values and the state of each FILES argument)",
        "the library behind the CLI (parse_bnf, parse_isla, process_python_extension, JSON tree decoding, ISLaSolver.parse/check/solve/repair/mutate) enters the model as tables: filled by direct API calls for the deterministic entry points, recorded at the ISLaSolver API boundary of the same run for solve/repair/mutate",
        "theorem premises H_parse/H_check/H_and/H_true/H_json/H_solve (parser = language C10, evaluator = semantics C03, conjunction, JSON trees C17, solver soundness C01) are hypotheses of the composed theorems",
        "spec-side reference of this check: own recogniser for the generated grammars and python predicates for the generated constraints",
    ]


def detect_fixes(fs):
    """which of the proposed get_input_string repairs are present in the tree under test (replay of the two witnesses)"""
    ex1, _, _, _ = run_cli(Case("check", [fs.p("g_ab.bnf"), fs.p("c_true.isla"), fs.p("in_empty.txt")]).argv())
    ex2, _, _, _ = run_cli(Case("check", [fs.p("g_int.bnf"), fs.p("c_true.isla")], i="12").argv())
    return {"empty": not (ex1[0] == "tb" and isinstance(ex1[1], IndexError)),
            "json": not (ex2[0] == "tb" and isinstance(ex2[1], (TypeError, ValueError, AssertionError)))}


def _run(run, rng, thorough, root, known):
    fs = Files(root)
    # both get_input_string repairs are in /repo (0c20d1c, baa6e7c; entries marked fixed): the model is FORCED to the
    # repaired behaviour, so that a regression of either is a disagreement + an unrecorded traceback (VIOLATION)
    fxs = {"empty": True, "json": True}
    run.cov["get_input_string_repairs_present"] = detect_fixes(fs)
    run.cov["model_fixes_forced"] = fxs
    cases = gen_cases(fs, rng, thorough)
    mods, meta = [], []
    hist_cmd, hist_exit, hist_k = {}, {}, {}
    prop_fail = []          # property clauses violated on the implementation (spec-side), not explained by a known class
    t0 = time.time()
    del INCONCLUSIVE[:]
    slow = []
    for k, case in enumerate(cases):
        if k:
            slow.append((round(time.time() - tcase, 1), " ".join(map(str, cases[k - 1].key()))))
        tcase = time.time()
        okb, v = budgeted(BUDGET_S, fill_tables, case, fs)
        ex = ("budget", None)
        if okb:
            tb, info = v
            ex, so, se, log = run_cli(case.argv())
        else:
            INCONCLUSIVE.append(list(case.key()))
        if ex[0] == "budget":
            # inconclusive: counted, not compared with the model, no property clause evaluated
            mods.append(f"Module C{k}. Definition ok := true. End C{k}.")
            meta.append({"argv": list(case.key()), "tag": case.tag, "exit": "inconclusive (budget)", "stdout": "",
                         "stderr_kind": "SeNone", "stderr_tail": "", "class": 0})
            hist_exit["inconclusive (budget)"] = hist_exit.get("inconclusive (budget)", 0) + 1
            continue
        add_recorded(tb, case, log)
        sk = stderr_kind(se)
        ek = expect_class(case, fs, ex, log) if ex[0] == "tb" else 0
        mods.append(coq_module(f"C{k}", case, fs, tb, (ex, so, sk), fxs, ek))
        exs = f"exit {ex[1]}" if ex[0] == "exit" else f"traceback {type(ex[1]).__name__}"
        meta.append({"argv": list(case.key()), "tag": case.tag, "exit": exs, "stdout": so[:200], "stderr_kind": sk,
                     "stderr_tail": se[-200:], "class": ek})
        nontriv = bool(info) and (case.cmd == "solve" and bool(info["sources"]) or "inp" in (info or {}))
        run.count(case.key(), nontriv)
        hist_cmd[case.cmd] = hist_cmd.get(case.cmd, 0) + 1
        hist_exit[exs] = hist_exit.get(exs, 0) + 1
        if k in (1, 30, 200):
            run.sample(meta[-1])
        # ---- the property itself, on the implementation ----
        if ex[0] == "tb":
            hist_k[KNAMES.get(ek, "unclassified")] = hist_k.get(KNAMES.get(ek, "unclassified"), 0) + 1
            ent = known.get(KNAMES.get(ek))
            if ent:
                run.known(ent["what"])
            else:
                prop_fail.append({"clause": "no uncaught traceback", "witness": meta[-1]})
            continue
        want = spec_expect(case, fs)
        ind = (info or {}).get("individual")
        if case.cmd in ("check", "parse") and ind and None not in ind and ex[1] in (0, 1):
            run.count(("conjunction", case.key()), True)
            hist_k["several constraints"] = hist_k.get("several constraints", 0) + 1
            if (ex[1] == 0) != all(ind):
                prop_fail.append({"clause": f"{case.cmd} must exit {0 if all(ind) else 1}: several constraints are combined by conjunction "
                                            f"(evaluated one by one: {ind})", "witness": meta[-1]})
        if want is not None and ex[1] != want:
            prop_fail.append({"clause": f"{case.cmd} must exit {want}", "witness": meta[-1]})
        if want == 65 and ex[1] == 65 and not se.strip():
            prop_fail.append({"clause": "exit 65 comes with an error message", "witness": meta[-1]})
        if case.cmd == "check" and ex[1] == 0 and so.strip() != MSG_SAT or case.cmd == "check" and ex[1] == 1 and so.strip() not in (MSG_NOTSAT, MSG_NOPARSE):
            prop_fail.append({"clause": "check prints its verdict", "witness": meta[-1]})
        # solve output accepted by check (same grammar and constraints; `true` when solve had none)
        if case.cmd == "solve" and ex[1] == 0 and so and info and case.outdir is None and "grammar" in info:
            spec_files = [p for p in case.files if p.endswith((".bnf", ".py", ".isla"))]
            for j, line in enumerate(json.loads("[" + ",".join(x for x in _split_json(so)) + "]") if case.tree else so.split("\n")[:-1]):
                if case.tree:
                    inp_path = fs.text(f"sol_{k}_{j}.json", json.dumps(line))
                else:
                    inp_path = fs.text(f"sol_{k}_{j}.txt", line + "\n")
                chk = Case("check", spec_files + [inp_path], g=case.g, cs=case.cs or ([] if any(p.endswith(".isla") for p in spec_files) else ["true"]))
                ex2, so2, se2, _ = run_cli(chk.argv())
                if ex2[0] == "budget":
                    continue
                run.count(("solve->check", case.key(), j), True)
                word = line if not case.tree else str(DerivationTree.from_parse_tree(line))
                explained = (ex2[0] == "tb" and KNAMES.get(expect_class(chk, fs, ex2, [])) in known) or \
                            (ex2[0] == "tb" and not fxs["json"] and _is_json(word) and "K_json_nontree" in known) or \
                            (ex2[0] == "tb" and not fxs["empty"] and word == "" and "K_empty_input" in known)
                if ex2 != ("exit", 0):
                    if explained:
                        run.known(known["K_json_nontree" if _is_json(word) and word else "K_empty_input"]["what"])
                    else:
                        prop_fail.append({"clause": "every input printed by solve is accepted by check",
                                          "witness": {"solve": meta[-1], "line": line, "check_exit": str(ex2), "check_stdout": so2}})
                # and by the spec-side reference
                gname_ok = all(pp(word) for pp in [CONSTRAINTS_BY_TEXT.get(c, lambda s: True) for c in info["sources"]])
                if not (in_language(_spec_grammar(case, fs), word) and gname_ok):
                    prop_fail.append({"clause": "solve output is in the language and satisfies the constraints (spec-side reference)",
                                      "witness": {"solve": meta[-1], "line": line}})
        # parse JSON accepted by check
        if case.cmd == "parse" and ex[1] == 0 and so.strip() and case.outfile is None:
            spec_files = [p for p in case.files if p.endswith((".bnf", ".py", ".isla"))]
            inp_path = fs.text(f"parsed_{k}.json", so)
            chk = Case("check", spec_files + [inp_path], g=case.g, cs=case.cs)
            ex2, so2, _, _ = run_cli(chk.argv())
            if ex2[0] == "budget":
                continue
            run.count(("parse->check", case.key()), True)
            if ex2 != ("exit", 0):
                prop_fail.append({"clause": "the JSON tree emitted by parse is accepted by check",
                                  "witness": {"parse": meta[-1], "check_exit": str(ex2), "check_stdout": so2}})
    run.cov["impl_seconds"] = round(time.time() - t0, 1)
    run.cov["slowest_invocations"] = sorted(slow, reverse=True)[:8]
    run.cov["histogram_commands"] = hist_cmd
    run.cov["histogram_outcomes"] = hist_exit
    run.cov["histogram_traceback_classes"] = hist_k
    run.cov["cases"] = len(cases)

    # ---- model vs implementation, inside Coq ----
    per = max(12, -(-len(mods) // 4))      # few shards: loading Cli/ZArith costs more than the cases
    shards = []
    for s in range(0, len(mods), per):
        text = "\n".join(mods[s:s + per])
        shards.append((pool_defs(text) + "\n" + text, [f"C{j}.ok" for j in range(s, min(s + per, len(mods)))]))
    disagreements = []
    try:
        bad, dt = lib.coq_run_shards("c19", "Cli", "fun b : bool => b", shards)
        run.cov["coq_seconds"] = round(dt, 1)
        for (s, i) in bad:
            j = s * per + i
            model = lib.coq_eval(f"c19d{j}", "Cli", f"(C{j}.m, kclass _ _ _ C{j}.O C{j}.FX C{j}.a)", extra_defs=pool_defs(mods[j]) + "\n" + mods[j])
            disagreements.append(dict(meta[j], model=model[-600:]))
    except RuntimeError as e:
        run.violation({"kind": "correspondence-not-evaluable", "obligation": "Cli.v cases", "error": str(e)[-3000:]},
                      found_input=False)
    run.cov["disagreements_checked"] = len(disagreements)

    # ---- subprocess smoke subset: the process-level observables agree with the in-process ones ----
    smoke = [j for j, c in enumerate(cases) if c.tag in ("A check g=ok c=ok i=ok", "A check g=ok c=ok i=EMPTY", "A check g=malformed c=ok i=ok",
                                                       "A check g=missing c=ok i=ok", "A check g=ok c=ok i=sem", "A solve g=ok c=ok",
                                                       "A check g=ok c=malformed i=ok", "numeric -i (valid JSON)", "n=1")
             and not meta[j]["exit"].startswith("inconclusive")][:10 if not thorough else 40]
    env = dict(os.environ, PYTHONPATH=os.path.join(lib.REPO, "src"), PYTHONHASHSEED="0")
    nsmoke = 0
    with_procs = [(j, subprocess.Popen([sys.executable, "-W", "ignore", "-m", "isla"] + cases[j].argv(), env=env, cwd=root,
                                       stdout=subprocess.PIPE, stderr=subprocess.PIPE, text=True)) for j in smoke]
    deadline = time.time() + 90          # wall budget of the whole subprocess batch (they run concurrently)
    for j, pr in with_procs:
        try:
            so, se = pr.communicate(timeout=max(0.5, deadline - time.time()))
        except subprocess.TimeoutExpired:
            pr.kill(); pr.communicate()
            INCONCLUSIVE.append(["python -m isla"] + list(cases[j].key()))
            continue
        nsmoke += 1
        inproc = meta[j]["exit"]
        has_tb = "Traceback (most recent call last)" in se
        same = (inproc.startswith("traceback") and has_tb and pr.returncode == 1) or \
               (inproc == f"exit {pr.returncode}" and not has_tb)
        if cases[j].cmd not in ("solve", "mutate", "repair"):
            # solve / mutate / repair print randomly chosen inputs: only exit status and traceback are compared
            same = same and so[:200] == meta[j]["stdout"][:200]
        run.count(("subprocess", cases[j].key()), True)
        if not same:
            disagreements.append(dict(meta[j], subprocess_exit=pr.returncode, subprocess_stderr=se[-300:], model="(subprocess vs in-process)"))
    run.cov["subprocess_invocations"] = nsmoke
    run.cov["inconclusive"] = {"count": len(INCONCLUSIVE), "budget_seconds": {"default": BUDGET_S, "mutate/repair": BUDGET_SLOW_S},
                               "rule": "an invocation (in-process, library question, or subprocess) cut by its wall budget is not "
                                       "compared with the model and no property clause is evaluated on it; never a violation",
                               "argv": INCONCLUSIVE[:40]}

    # ---- verdicts ----
    if prop_fail:
        prop_fail.sort(key=lambda d: len(json.dumps(d, default=str)))
        run.violation({"kind": "the command line departs from its contract", "clause": prop_fail[0]["clause"],
                       "witness": prop_fail[0]["witness"], "all_failing": len(prop_fail),
                       "others": [p["clause"] + " :: " + " ".join(map(str, p["witness"].get("argv", []))) for p in prop_fail[1:6]],
                       "how_to_replay": "./check C19 --replay <this file>"})
    if disagreements:
        run.violation({"kind": "correspondence broken: model and implementation disagree" +
                               ("" if prop_fail else " (no property clause failed on the cases searched)"),
                       "first": disagreements[0], "count": len(disagreements),
                       "others": [" ".join(map(str, d["argv"])) + " => " + d["exit"] for d in disagreements[1:8]],
                       "obligation": "correspondence Solver/Cli.v run <-> isla.cli.main"}, found_input=False)


CONSTRAINTS_BY_TEXT = {t: f for (t, f) in CONSTRAINTS.values() if f is not None}
CONSTRAINTS_BY_TEXT["str.len(<start>) > 5"] = lambda s: len(s) > 5
CONSTRAINTS_BY_TEXT["str.len(<start>) >= 3"] = lambda s: len(s) >= 3
# constraints with a TOP-LEVEL connective (name -> text, predicate) and the constraint that follows them.
# Joining the sources textually ("K and C") instead of conjoining the parsed formulas changes the meaning,
# because `and` binds tighter than or / xor / implies / iff:  K = X op Y  becomes  X op (Y and C).
CONNECTIVE = {
    "or": ('<start> = "a" or <start> = "bba"', lambda s: s == "a" or s == "bba"),
    "implies": ('str.len(<start>) > 1 implies <start> = "bba"', lambda s: (not len(s) > 1) or s == "bba"),
    "iff": ('<start> = "ba" iff str.len(<start>) = 2', lambda s: (s == "ba") == (len(s) == 2)),
    "xor": ('<start> = "a" xor str.len(<start>) > 5', lambda s: (s == "a") != (len(s) > 5)),
}
FOLLOW = ("str.len(<start>) > 1", lambda s: len(s) > 1)
for _t, _f in list(CONNECTIVE.values()) + [FOLLOW]:
    CONSTRAINTS_BY_TEXT[_t] = _f


def _is_json(s):
    try:
        json.loads(s)
        return True
    except Exception:
        return False


def _split_json(so):
    """solve -T prints one JSON document per solution (possibly pretty-printed over several lines)"""
    dec, i, out = json.JSONDecoder(), 0, []
    while i < len(so):
        while i < len(so) and so[i].isspace():
            i += 1
        if i >= len(so):
            break
        _, j = dec.raw_decode(so, i)
        out.append(so[i:j])
        i = j
    return out


def _spec_grammar(case, fs):
    by_text = {bnf_text(g): g for g in GRAMMARS.values()}
    by_py = {py_text(g): g for g in GRAMMARS.values()}
    gram = {}
    if case.g:
        return dict(by_text.get(case.g, {}))
    seen = []
    for p in case.files:
        if p in seen:
            continue
        seen.append(p)
        c = fs.kind[p][1] if fs.kind[p][0] == "text" else None
        if p.endswith(".bnf") and c in by_text:
            gram |= by_text[c]
        if p.endswith(".py") and c in by_py:
            gram |= by_py[c]
    return gram


def replay(path):
    d = json.load(open(path))
    w = d.get("witness") or d.get("first")
    if not w or "argv" not in (w if "argv" in w else w.get("solve", w.get("parse", {}))):
        print("replay file names an obligation, not an input:", d.get("obligation")); return 1
    w = w if "argv" in w else w.get("solve", w.get("parse"))
    root = tempfile.mkdtemp(prefix="c19r_")
    try:
        fs = Files(root)
        argv = [a if not (isinstance(a, str) and os.path.exists(fs.p(a)) or a in ("nonexistent.txt", "adir")) else fs.p(a) for a in w["argv"]]
        argv = [os.path.join(root, "nodir", "o.txt") if a == "o.txt" else a for a in argv]
        ex, so, se, _ = run_cli(argv)
        if ex[0] == "budget":
            print("inconclusive: the invocation exceeded its budget"); return 0
        exs = f"exit {ex[1]}" if ex[0] == "exit" else f"traceback {type(ex[1]).__name__}"
        print("argv:", " ".join(map(str, w["argv"])))
        print("now :", exs, "| stdout:", so[:120].replace("\n", "\\n"), "| stderr:", se[-160:].replace("\n", " | "))
        print("then:", w["exit"], "| clause:", d.get("clause"))
        bad = exs.startswith("traceback") or (d.get("clause", "").startswith(w["argv"][0] + " must exit") and
                                               exs != "exit " + d["clause"].split()[-1])
        return 1 if bad else 0
    finally:
        shutil.rmtree(root, ignore_errors=True)
