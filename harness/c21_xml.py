"""C21, XML part of the correspondence: ties coq/Formal/Xml.v to isla_formalizations/xml_lang.py.

  X1 transcription diff: Xml.XML / Xml.XMLNS / Xml.wf_src / wf_qtype / wf_mexpr / wf_idtype / wf_atom
     against XML_GRAMMAR, XML_GRAMMAR_WITH_NAMESPACE_PREFIXES, xml_wellformedness_constraint and the
     parsed XML_WELLFORMEDNESS_CONSTRAINT (walked class by class), evaluated inside Coq.
  X2 per tree t (GrammarFuzzer trees of both grammars, EarleyParser trees of generated balanced and
     deliberately unbalanced texts, the ISLaSolver outputs of the XML search): inside Coq
       wf_treeb G t && root <start>, closedb t, yield t = str(t),
       xml_wf_satb t = evaluate(XML_WELLFORMEDNESS_CONSTRAINT, t, G),
       xml_balanced (str t) = py_xml_balanced(str t)  (Python reference reader),
       evaluate verdict = reader verdict (instance of C21_xml_balanced_exact), solver output -> verdict.
     The Python reference reader is cross-checked against xml.etree on every text of the grammar.
  X3 texts that are NOT in the grammar's language (random strings over < > / quote blank = a b):
     xml_balanced = py_xml_balanced (the reader itself, beyond what the theorem covers).
"""
import re
import time
import xml.etree.ElementTree as ET

import lib
from lib import g_str, g_tree, g_bool, g_grammar

from isla import language
from isla.derivation_tree import DerivationTree
from isla.evaluator import evaluate
from isla.fuzzer import GrammarFuzzer
from isla.helpers import canonical
from isla.parser import EarleyParser
import isla_formalizations.xml_lang as xmlf

OBL_XTRANS = ("transcription Formal/Xml.v (XML, XMLNS, wf_src, wf_qtype, wf_mexpr, wf_idtype, wf_atom) <-> "
              "isla_formalizations/xml_lang.py")
OBL_XEVAL = "correspondence Xml.xml_wf_satb <-> evaluator.evaluate(XML_WELLFORMEDNESS_CONSTRAINT, tree, grammar)"
OBL_XREADER = "correspondence Xml.xml_balanced <-> Python reference tag-stack reader (cross-checked with xml.etree)"
OBL_XTREE = "correspondence wf_treeb XML/XMLNS / closedb / yield <-> trees produced by fuzzer, parser, solver"
OBL_XTHM = "Props/C21.v C21_xml_balanced_exact instance (xml_balanced (yield t) = xml_wf_satb t)"
XDIAG_NAMES = ["wf_treeb G t, root <start>", "closedb t", "yield t = str(t)", "xml_wf_satb t = evaluate verdict",
               "xml_balanced = reference reader", "evaluate verdict = reader verdict", "solver output -> xml_wf_satb"]
XDIAG_OBL = [OBL_XTREE, OBL_XTREE, OBL_XTREE, OBL_XEVAL, OBL_XREADER, OBL_XTHM,
             "ISLaSolver.solve() output does not satisfy the shipped well-formedness constraint"]

WS = " \t\n\r"


def py_xml_balanced(s):
    """Reference reader: tags are <...> where a > inside a double-quoted section does not end the tag;
    </name> must close the innermost open element, <name .../> opens nothing, <name ...> opens name;
    a < inside a tag, an empty tag <>, an unterminated tag and unclosed elements are errors."""
    stack, i, n = [], 0, len(s)
    while True:
        i = s.find("<", i)
        if i < 0:
            return not stack
        j, quoted = i + 1, False
        while j < n and (quoted or s[j] != ">"):
            if s[j] == "<":
                return False
            if s[j] == '"':
                quoted = not quoted
            j += 1
        if j >= n:
            return False
        body, i = s[i + 1:j], j + 1
        if not body:
            return False
        if body[0] == "/":
            name = re.split("[ \t\n\r]", body[1:], 1)[0]
            if not stack or stack.pop() != name:
                return False
        elif body[-1] != "/":
            stack.append(re.split("[ \t\n\r]", body, 1)[0])


def etree_verdict(s):
    """(accepted, message); rejections that are not about tag balance are reported as None"""
    try:
        ET.fromstring(s)
        return True, ""
    except ET.ParseError as e:
        msg = str(e)
        if any(k in msg for k in ("duplicate attribute", "unbound prefix")):
            return None, msg
        return False, msg


# --------------------------------------------------------------------------
# X1 transcription
# --------------------------------------------------------------------------
def wf_parameters():
    f = xmlf.XML_WELLFORMEDNESS_CONSTRAINT
    if not isinstance(f, language.ForallFormula):
        return f"top-level is {type(f).__name__}, not ForallFormula"
    if not (isinstance(f.in_variable, language.Constant) and f.in_variable.n_type == "<start>"):
        return "forall does not range over the start constant"
    if f.bind_expression is None:
        return "forall has no match expression"
    bound = [e for e in f.bind_expression.bound_elements
             if isinstance(e, language.BoundVariable) and not isinstance(e, language.DummyVariable)]
    if [b.name for b in bound] != ["opid", "clid"] or len({b.n_type for b in bound}) != 1:
        return f"match expression binds {[str(b) for b in bound]}, not opid, clid of one type"
    g = f.inner_formula
    if not isinstance(g, language.SMTFormula):
        return f"body is {type(g).__name__}, not an SMT atom"
    if {v.name for v in g.free_variables()} != {"opid", "clid"}:
        return "SMT atom does not range over opid, clid"
    return f.bound_variable.n_type, str(f.bind_expression), bound[0].n_type, str(g.formula)


def transcription_diff(run):
    params = wf_parameters()
    diffs = []
    if isinstance(params, str):
        diffs.append({"object": "XML_WELLFORMEDNESS_CONSTRAINT", "why": params})
        params = ("", "", "", "")
    names = ["XML_GRAMMAR", "XML_GRAMMAR_WITH_NAMESPACE_PREFIXES", "xml_wellformedness_constraint (source text)",
             "XML_WELLFORMEDNESS_CONSTRAINT quantified type", "XML_WELLFORMEDNESS_CONSTRAINT match expression",
             "XML_WELLFORMEDNESS_CONSTRAINT type of opid/clid", "XML_WELLFORMEDNESS_CONSTRAINT SMT atom"]
    expr = ("[grammar_eqb XML G; grammar_eqb XMLNS GN; str_eqb wf_src SRC; str_eqb wf_qtype QT; "
            "str_eqb wf_mexpr MX; str_eqb wf_idtype IT; str_eqb wf_atom AT]")
    defs = (f"Definition G : grammar := {g_grammar(canonical(xmlf.XML_GRAMMAR))}.\n"
            f"Definition GN : grammar := {g_grammar(canonical(xmlf.XML_GRAMMAR_WITH_NAMESPACE_PREFIXES))}.\n"
            f"Definition SRC : str := {g_str(xmlf.xml_wellformedness_constraint)}.\n"
            f"Definition QT : str := {g_str(params[0])}.\nDefinition MX : str := {g_str(params[1])}.\n"
            f"Definition IT : str := {g_str(params[2])}.\nDefinition AT : str := {g_str(params[3])}.\n")
    out = lib.coq_eval("c21xt", "Xml", expr, extra_defs=defs)
    vals = re.findall(r"\b(true|false)\b", out.split("=", 1)[-1].split(":")[0]) if "=" in out else []
    if len(vals) != len(names):
        diffs.append({"object": "XML transcription diff not evaluable", "why": out[-1500:]})
    else:
        for nm, v in zip(names, vals):
            if v != "true":
                diffs.append({"object": nm, "why": "differs from the transcription in Formal/Xml.v"})
    run.cov["xml_transcription"] = {
        "grammar_rules": [len(xmlf.XML_GRAMMAR), len(xmlf.XML_GRAMMAR_WITH_NAMESPACE_PREFIXES)],
        "alternatives": [sum(len(v) for v in canonical(g).values())
                         for g in (xmlf.XML_GRAMMAR, xmlf.XML_GRAMMAR_WITH_NAMESPACE_PREFIXES)],
        "parameters": list(params), "diffs": len(diffs)}
    return diffs


# --------------------------------------------------------------------------
# X2 generators
# --------------------------------------------------------------------------
NAMES = ["a", "b", "x1", "_t", "A-b.c", "id", "n", "a"]
VALUES = ["x", "/", "a=b", "&quot;", "1 2", "&#x27;q", "a/", "=", "http://w.w/?q=1,2+3", "\t"]
TEXTS = ["t", "a b", "1/2", "x=y", "&quot;q&quot;", "/", "a-b, c: d?", "+"]


def gen_xml_text(rng, ns, depth=0, break_p=0.0):
    """a text of the grammar; with probability break_p per element the close tag gets another name"""
    def name():
        n = rng.choice(NAMES)
        if ns and rng.random() < 0.3:
            n = rng.choice(["p", "q", "xmlns"]) + ":" + n
        return n
    nm = name()
    attrs = ""
    if rng.random() < 0.5:
        attrs = " " + " ".join(f'{name()}="{rng.choice(VALUES)}"' for _ in range(rng.randint(1, 3)))
    if rng.random() < (0.25 if depth < 3 else 0.8):
        return f"<{nm}{attrs}/>"
    if depth >= 3 or rng.random() < 0.35:
        inner = rng.choice(TEXTS)
    else:
        inner = "".join(gen_xml_text(rng, ns, depth + 1, break_p) for _ in range(rng.randint(1, 3)))
    cl = nm
    if rng.random() < break_p:
        cl = rng.choice([nm + "x", nm + "-", "z" + nm.replace(":", "."), name()])
    return f"<{nm}{attrs}>{inner}</{cl}>"


def gen_raw_text(rng):
    """strings outside the grammar's language: the reader on malformed input"""
    pieces = ["<", ">", "/", '"', " ", "=", "a", "b", "<a>", "</a>", "<b>", "</b>", "<a/>", '<a b=">">', "</a >",
              "<a b>", "x", "\t", "<>", "</>", "< a>"]
    return "".join(rng.choice(pieces) for _ in range(rng.randint(0, 9)))


XDIAG_DEF = """
Definition xdiag (c : bool * tree * str * bool * bool * bool) : list bool :=
  let '(ns, t, s, ev, rd, sol) := c in
  [wf_treeb (if ns then XMLNS else XML) t && str_eqb (lbl t) X_start; closedb t; str_eqb (yield t) s;
   Bool.eqb (xml_wf_satb t) ev; Bool.eqb (xml_balanced s) rd; Bool.eqb ev rd; implb sol (xml_wf_satb t)].
"""
XOK_DEF = "fun c => forallb (fun b : bool => b) (xdiag c)"
RAW_OK_DEF = "fun c : str * bool => Bool.eqb (xml_balanced (fst c)) (snd c)"


def correspond(run, rng, thorough, seed_global, solver_trees, broken, failing):
    """XML correspondence; appends to broken / failing (same record formats as harness/c21.py)"""
    t0 = time.time()
    hist = {"fuzzer": 0, "parser": 0, "solver": 0, "verdict_true": 0, "verdict_false": 0, "with_attributes": 0,
            "namespace_grammar": 0, "nested>=2": 0, "raw_texts": 0, "raw_balanced": 0}
    for d in transcription_diff(run):
        broken.append({"obligation": OBL_XTRANS, "detail": d})

    grammars = {False: xmlf.XML_GRAMMAR, True: xmlf.XML_GRAMMAR_WITH_NAMESPACE_PREFIXES}
    cases = []   # (source, ns, tree, verdict, reader)

    def add(source, ns, t):
        s = str(t)
        try:
            verdict = bool(evaluate(xmlf.XML_WELLFORMEDNESS_CONSTRAINT, t, grammars[ns]).is_true())
        except Exception as e:  # noqa
            broken.append({"obligation": OBL_XEVAL, "detail": {"text": s, "evaluate raised": repr(e)}})
            return
        rd = py_xml_balanced(s)
        et, msg = etree_verdict(s)
        if et is not None and et != rd:
            broken.append({"obligation": OBL_XREADER,
                           "detail": {"text": s, "reference_reader": rd, "xml.etree": et, "message": msg}})
        opens = len(t.filter(lambda n: n.value == "<xml-open-tag>"))
        cases.append((source, ns, t, verdict, rd))
        hist[source] += 1
        hist["verdict_true" if verdict else "verdict_false"] += 1
        hist["with_attributes"] += "=\"" in s
        hist["namespace_grammar"] += ns
        hist["nested>=2"] += opens >= 2
        run.count(("xml-tie", source == "solver", ns, s), opens >= 1)
        if (source == "solver" or verdict) and not rd:
            failing.append({"formalization": "xml", "source": source, "text": s, "constraint_verdict": verdict,
                            "why": "tag balance: the reference tag-stack reader rejects the text"
                                   + (f" (xml.etree: {msg})" if et is False else "")})
        if source == "parser" and opens >= 2 and verdict and hist.get("_sampled", 0) < 2:
            hist["_sampled"] = hist.get("_sampled", 0) + 1
            run.sample({"formalization": "xml-tie", "text": s[:120], "verdict": verdict, "reader": rd})

    seed_global(rng)
    for ns in (False, True):
        fz = GrammarFuzzer(grammars[ns], min_nonterminals=0, max_nonterminals=20)
        for _ in range(60 if thorough else 10):
            t = fz.fuzz_tree()
            if len(str(t)) <= 200:
                add("fuzzer", ns, t)
    parsers = {ns: EarleyParser(g) for ns, g in grammars.items()}
    for k in range(160 if thorough else 36):
        ns = bool(k % 2)
        s = gen_xml_text(rng, ns, break_p=0.0 if k % 3 else 0.3)
        if len(s) > 220:
            continue
        try:
            t = DerivationTree.from_parse_tree(next(parsers[ns].parse(s)))
        except SyntaxError as e:
            broken.append({"obligation": OBL_XTREE, "detail": {"text": s, "parser raised": repr(e)}})
            continue
        add("parser", ns, t)
    for t in solver_trees:
        if len(str(t)) <= 400:
            add("solver", True, t)
    hist.pop("_sampled", None)

    lits = [f"({g_bool(ns)}, {g_tree(t, with_ids=False)}, {g_str(str(t))}, {g_bool(v)}, {g_bool(rd)}, "
            f"{g_bool(src == 'solver')})" for (src, ns, t, v, rd) in cases]
    shards, cur, size, index = [], [], 0, []
    for lt in lits:
        if cur and (size + len(lt) > 600_000 or len(cur) >= 40):
            shards.append((XDIAG_DEF, cur)); cur, size = [], 0
        index.append((len(shards), len(cur)))
        cur.append(lt); size += len(lt)
    if cur:
        shards.append((XDIAG_DEF, cur))
    raws = sorted({gen_raw_text(rng) for _ in range(600 if thorough else 150)})
    try:
        bad, dt = lib.coq_run_shards("c21x", "Outcome Xml", XOK_DEF, shards)
        pos = {ix: k for k, ix in enumerate(index)}
        for b in bad[:8]:
            k = pos[b]
            src, ns, t, v, rd = cases[k]
            out = lib.coq_eval(f"c21xd{k}", "Xml", f"xdiag {lits[k]}", extra_defs=XDIAG_DEF)
            vals = re.findall(r"\b(true|false)\b", out.split("=", 1)[-1].split(":")[0]) if "=" in out else []
            wrong = [i for i, x in enumerate(vals) if x == "false"] if len(vals) == 7 else []
            s = str(t)
            detail = {"source": src, "namespace_grammar": ns, "text": s, "evaluate_verdict": v, "reference_reader": rd,
                      "xml.etree": etree_verdict(s)[1] or "accepted",
                      "model_components_false": [XDIAG_NAMES[i] for i in wrong] or out[-400:]}
            if 6 in wrong and not rd:
                failing.append({"formalization": "xml", "source": src, "text": s,
                                "why": "tag balance: ISLaSolver output does not satisfy the shipped "
                                       "well-formedness constraint"})
            for i in (wrong or [3]):
                broken.append({"obligation": XDIAG_OBL[i], "detail": detail})
        raw_cases = [f"({g_str(s)}, {g_bool(py_xml_balanced(s))})" for s in raws]
        bad_raw, dt2 = lib.coq_mismatches("c21xr", "Outcome Xml", RAW_OK_DEF, raw_cases, shard=400)
        for k in bad_raw[:4]:
            broken.append({"obligation": OBL_XREADER,
                           "detail": {"text": raws[k], "reference_reader": py_xml_balanced(raws[k]),
                                      "note": "text outside the grammar's language"}})
        hist["raw_texts"] = len(raws)
        hist["raw_balanced"] = sum(py_xml_balanced(s) for s in raws)
        for s in raws:
            run.count(("xml-raw", s), "<" in s and ">" in s)
        run.cov["xml_coq_seconds"] = round(dt + dt2, 1)
        run.cov["xml_disagreements_checked"] = len(bad) + len(bad_raw)
    except RuntimeError as e:
        broken.append({"obligation": "XML correspondence not evaluable (coqc failed on generated cases)",
                       "detail": str(e)[-2000:]})
    run.cov["xml_histogram"] = hist
    run.cov["xml_tie_seconds"] = round(time.time() - t0, 1)
