"""Shared machinery for all property checks (see DESIGN.md §2).

Run with /venv/bin/python; the implementation under test is imported from
/repo/src (PYTHONPATH is forced by ./check)."""
import concurrent.futures as cf
import hashlib
import json
import os
import re
import subprocess
import sys
import time

VERIF = os.path.dirname(os.path.dirname(os.path.abspath(__file__)))
REPO = os.environ.get("VERIF_REPO", "/repo")
COQ = os.path.join(VERIF, "coq")
BUILD = os.path.join(VERIF, "build")
COQ_DIRS = ["Base", "Tree", "Logic", "Grammar", "Smt", "Codec", "Solver", "Formal", "Props"]
QFLAGS = [x for d in COQ_DIRS for x in ("-Q", os.path.join(COQ, d), "ISLA")]
NPROC = int(os.environ.get("VERIF_JOBS", "16"))

FORBIDDEN = re.compile(
    r"\b(Admitted|admit|Axiom|Axioms|Parameter|Parameters|Conjecture|Abort All|"
    r"Unset\s+Guard\s+Checking|Unset\s+Positivity\s+Checking|Unset\s+Universe\s+Checking|"
    r"bypass_check|Admit\s+Obligations|type-in-type|impredicative-set)\b")
THM = re.compile(r"^\s*(Theorem|Lemma|Corollary|Example|Fact|Proposition|Remark)\s+([A-Za-z_][\w']*)", re.M)
ALLOWED_AXIOMS = set()  # standard-library axioms we accept, by name (none needed so far)


# --------------------------------------------------------------------------
# Python value -> Gallina literal
# --------------------------------------------------------------------------
def g_nat(n):
    assert isinstance(n, int) and 0 <= n < 5000, n
    return f"{n}%nat"


def g_N(n):
    assert isinstance(n, int) and n >= 0
    return f"{n}%N"


def g_Z(n):
    return f"({n})%Z"


def g_bool(b):
    return "true" if b else "false"


def g_list(xs, f=lambda x: x):
    return "[" + "; ".join(f(x) for x in xs) + "]"


def g_str(s):
    """python str -> list N of code points"""
    if not s:
        return "(@nil N)"
    return "[" + ";".join(str(ord(c)) for c in s) + "]%N"


def g_path(p):
    if not p:
        return "(@nil nat)"
    return "[" + ";".join(str(i) for i in p) + "]%nat"


def g_option(x, f=lambda x: x):
    return "None" if x is None else f"(Some {f(x)})"


def g_pair(a, b):
    return f"({a}, {b})"


def g_grammar(cg):
    """canonical grammar (dict nonterminal -> sequence of sequences of symbols) -> Gallina `grammar`"""
    return "[" + "; ".join(
        f"({g_str(k)}, [" + "; ".join("[" + "; ".join(g_str(sym) for sym in alt) + "]" if alt else "(@nil str)"
                                       for alt in alts) + "])"
        for k, alts in cg.items()) + "]"


def g_res(kind, val=None):
    """('ok', literal) | ('raise', 'TypeErr')"""
    return f"(Ok {val})" if kind == "ok" else f"(Raise {val})"


def g_tree(t, with_ids=True):
    """isla DerivationTree -> Node literal (iterative to survive deep trees)"""
    # post-order build
    out = {}
    stack = [(t, False)]
    while stack:
        node, done = stack.pop()
        if done:
            ch = node.children
            ks = "[]" if not ch else "[" + "; ".join(out.pop(id(c)) for c in ch) + "]"
            nid = node.id if with_ids else 0
            out[id(node)] = f"(Node {g_str(node.value)} {nid}%N {g_bool(ch is None)} {ks})"
        else:
            stack.append((node, True))
            for c in node.children or ():
                stack.append((c, False))
    return out[id(t)]


EXN_MAP = {
    "TypeError": "TypeErr", "IndexError": "IndexErr", "AssertionError": "AssertErr",
    "ValueError": "ValueErr", "RuntimeError": "RuntimeErr", "ZeroDivisionError": "ZeroDivErr",
    "KeyError": "KeyErr", "AttributeError": "AttrErr", "SyntaxError": "SyntaxErr",
    "SemanticError": "SemanticErr", "StopIteration": "StopIter", "TimeoutError": "TimeoutErr",
    "DomainError": "DomainErr", "NotImplementedError": "NotImpl",
}


def exn_name(e):
    return EXN_MAP.get(type(e).__name__, "OtherErr")


def call_res(f, *a, conv=g_bool, **kw):
    """run f; return Gallina `res` literal and a JSON-able python rendering"""
    try:
        v = f(*a, **kw)
    except Exception as e:  # noqa: the outcome IS the observable
        return g_res("raise", exn_name(e)), {"raise": type(e).__name__}
    return g_res("ok", conv(v)), {"ok": v if isinstance(v, (bool, int, str, type(None))) else str(v)}


# --------------------------------------------------------------------------
# Coq build, audit, evaluation
# --------------------------------------------------------------------------
def sh(cmd, timeout=600, cwd=None, env=None):
    try:
        p = subprocess.run(cmd, cwd=cwd, env=env, capture_output=True, text=True, timeout=timeout)
        return p.returncode, p.stdout + p.stderr
    except subprocess.TimeoutExpired as e:
        return 124, f"TIMEOUT after {timeout}s: {cmd}\n{e.stdout or ''}"


def coq_files():
    res = []
    for d in COQ_DIRS:
        dd = os.path.join(COQ, d)
        if os.path.isdir(dd):
            for f in sorted(os.listdir(dd)):
                if f.endswith(".v"):
                    res.append(os.path.join(dd, f))
    return res


def coq_build(timeout=2400):
    """full .vo build (incremental via make), serialised by a file lock.  Returns (ok, log)."""
    import fcntl
    os.makedirs(BUILD, exist_ok=True)
    with open(os.path.join(BUILD, ".make.lock"), "w") as lk:
        fcntl.flock(lk, fcntl.LOCK_EX)
        rc, out = sh([os.path.join(VERIF, "harness", "mkproject.sh")], timeout=120)
        if rc != 0:
            return False, out
        rc, out2 = sh(["make", "-j", str(NPROC), "-k"], timeout=timeout, cwd=COQ)
        return rc == 0, out + out2


def forbidden_scan():
    """forbidden vernacular anywhere in the development (comments stripped)"""
    hits = []
    for f in coq_files():
        src = strip_comments(open(f).read())
        for m in FORBIDDEN.finditer(src):
            line = src.count("\n", 0, m.start()) + 1
            hits.append(f"{os.path.relpath(f, COQ)}:{line}: {m.group(0)}")
    return hits


def strip_comments(src):
    out, depth, i = [], 0, 0
    while i < len(src):
        if src.startswith("(*", i):
            depth += 1; i += 2
        elif src.startswith("*)", i) and depth:
            depth -= 1; i += 2
        else:
            if depth == 0:
                out.append(src[i])
            elif src[i] == "\n":
                out.append("\n")
            i += 1
    return "".join(out)


def closure(vfile):
    """transitive closure of ISLA-internal Requires of a .v file"""
    by_name = {os.path.basename(f)[:-2]: f for f in coq_files()}
    seen, todo = [], [vfile]
    while todo:
        f = todo.pop()
        if f in seen:
            continue
        seen.append(f)
        src = strip_comments(open(f).read())
        for m in re.finditer(r"From\s+ISLA\s+Require\s+(?:Import|Export)\s+([^.]*)\.", src):
            for name in m.group(1).split():
                if name in by_name:
                    todo.append(by_name[name])
    return seen


def audit_props(prop_id):
    """Re-check Props/<id>.v with coqc and parse Print Assumptions.

    Returns dict(ok, theorems=[{name, assumptions}], problems=[...], obligations, discharged, files)"""
    vfile = os.path.join(COQ, "Props", f"{prop_id}.v")
    res = {"ok": False, "theorems": [], "problems": [], "obligations": 0, "discharged": 0, "files": []}
    if not os.path.exists(vfile):
        res["problems"].append(f"missing {vfile}")
        return res
    src = strip_comments(open(vfile).read())
    thms = [m.group(2) for m in THM.finditer(src)]
    printed = re.findall(r"Print\s+Assumptions\s+([\w']+)\s*\.", src)
    for t in thms:
        if t not in printed:
            res["problems"].append(f"theorem {t} has no Print Assumptions")
    rc, out = sh(["coqc"] + QFLAGS + [vfile], timeout=600, cwd=COQ)
    if rc != 0:
        res["problems"].append(f"coqc Props/{prop_id}.v failed: {out[-1500:]}")
        return res
    # output: sequence of blocks, one per Print Assumptions, in order
    blocks = re.split(r"(?=Closed under the global context|Axioms:)", out)
    blocks = [b for b in blocks if b.startswith("Closed under") or b.startswith("Axioms:")]
    if len(blocks) != len(printed):
        res["problems"].append(f"expected {len(printed)} assumption blocks, got {len(blocks)}")
    for name, b in zip(printed, blocks):
        if b.startswith("Closed under"):
            res["theorems"].append({"name": name, "assumptions": []})
        else:
            ax = re.findall(r"^([\w.']+)\s*:", b, re.M)
            res["theorems"].append({"name": name, "assumptions": ax})
            bad = [a for a in ax if a.split(".")[-1] not in ALLOWED_AXIOMS]
            if bad:
                res["problems"].append(f"{name} depends on non-whitelisted axioms {bad}")
    files = closure(vfile)
    res["files"] = [os.path.relpath(f, COQ) for f in files]
    n = 0
    for f in files:
        n += len(THM.findall(strip_comments(open(f).read())))
        if not os.path.exists(f[:-2] + ".vo"):
            res["problems"].append(f"{os.path.relpath(f, COQ)} not compiled")
    res["obligations"] = n
    res["discharged"] = n if not res["problems"] else 0
    res["ok"] = not res["problems"]
    return res


def _run_coqc(path):
    rc, out = sh(["coqc"] + QFLAGS + [path], timeout=900, cwd=BUILD)
    return path, rc, out


def parse_N_list(out):
    """parse `= [1%N; 2%N]` / `= []` printed by Eval vm_compute"""
    m = re.search(r"=\s*(\[.*?\])\s*:\s*list", out, re.S)
    if not m:
        return None
    return [int(x) for x in re.findall(r"\d+", m.group(1).replace("%N", ""))]


def coq_run_shards(tag, imports, ok_def, shards):
    """Evaluate `mismatches ok cases` inside Coq, one coqc process per shard.

    imports : e.g. "Preds"; ok_def : Gallina text of `fun c => ...bool`;
    shards : list of (extra_defs_text, [case literals]).
    Returns (list of (shard_idx, case_idx) that disagree, seconds); raises RuntimeError
    when Coq itself fails (the caller turns this into a broken correspondence)."""
    os.makedirs(BUILD, exist_ok=True)
    t0 = time.time()
    files = []
    for k, (defs, cases) in enumerate(shards):
        name = os.path.join(BUILD, f"cases_{tag}_p{os.getpid()}_{k}.v")
        with open(name, "w") as f:
            f.write(f"From ISLA Require Import {imports}.\n")
            f.write("From Coq Require Import List NArith ZArith. Import ListNotations.\n")
            f.write(defs + "\n")
            f.write(f"Definition ok_fn := {ok_def}.\n")
            f.write("Definition cs := [\n" + ";\n".join(cases) + "\n].\n")
            f.write("Eval vm_compute in (mismatches ok_fn cs).\n")
        files.append((k, name))
    bad = []
    err = None
    with cf.ThreadPoolExecutor(max_workers=NPROC) as ex:
        futs = {ex.submit(_run_coqc, name): k for k, name in files}
        for fu in cf.as_completed(futs):
            k = futs[fu]
            path, rc, out = fu.result()
            idx = parse_N_list(out) if rc == 0 else None
            if idx is None:
                err = f"coqc failed on {path}:\n{out[-3000:]}"
                continue
            bad.extend((k, i) for i in idx)
    for _, name in files:
        if err and name in err:
            continue  # keep the failing file for inspection
        _cleanup(name)
    if err:
        raise RuntimeError(err)
    return sorted(bad), time.time() - t0


def _cleanup(name):
    for ext in (".v", ".vo", ".glob", ".vok", ".vos"):
        try:
            os.remove(name[:-2] + ext)
        except OSError:
            pass
    try:
        os.remove(os.path.join(os.path.dirname(name), "." + os.path.basename(name)[:-2] + ".aux"))
    except OSError:
        pass


def coq_mismatches(tag, imports, ok_def, cases, shard=300, extra_defs=""):
    """flat variant: all cases share extra_defs; returns (global indices, seconds)"""
    shards = [(extra_defs, cases[k:k + shard]) for k in range(0, len(cases), shard)]
    bad, dt = coq_run_shards(tag, imports, ok_def, shards)
    return sorted(k * shard + i for k, i in bad), dt


def coq_eval(tag, imports, expr, extra_defs=""):
    """raw text of `Eval vm_compute in expr` (diagnostics for replay files)"""
    os.makedirs(BUILD, exist_ok=True)
    name = os.path.join(BUILD, f"eval_{tag}_p{os.getpid()}.v")
    with open(name, "w") as f:
        f.write(f"From ISLA Require Import {imports}.\n")
        f.write("From Coq Require Import List NArith ZArith. Import ListNotations.\n")
        f.write(extra_defs + "\n")
        f.write(f"Eval vm_compute in ({expr}).\n")
    _, rc, out = _run_coqc(name)
    _cleanup(name)
    return out.strip()


# --------------------------------------------------------------------------
# known findings, replays, evidence
# --------------------------------------------------------------------------
def known_findings(prop_id):
    p = os.path.join(VERIF, "known_findings.json")
    if not os.path.exists(p):
        return []
    return [e for e in json.load(open(p))["findings"] if e["property"] == prop_id]


def write_replay(prop_id, payload):
    d = os.path.join(VERIF, "replays", prop_id)
    os.makedirs(d, exist_ok=True)
    blob = json.dumps(payload, indent=1, sort_keys=True, default=str)
    h = hashlib.sha1(blob.encode()).hexdigest()[:12]
    path = os.path.join(d, f"{h}.json")
    with open(path, "w") as f:
        f.write(blob)
    return path


class Run:
    """bookkeeping of one check run: evidence + verdict"""

    def __init__(self, prop_id, tier, seed):
        self.id, self.tier, self.seed = prop_id, tier, seed
        self.t0 = time.time()
        self.violations = []       # (replay_path, no_input_found)
        self.known_printed = []
        self.cov = {"evaluations": 0, "distinct_nontrivial": 0, "rule": "", "samples": [],
                    "disagreements_checked": 0}
        self.assumptions = []
        self._distinct = set()

    def count(self, key, nontrivial):
        self.cov["evaluations"] += 1
        if nontrivial:
            self._distinct.add(hashlib.sha1(repr(key).encode()).digest()[:10])

    def sample(self, s, limit=6):
        if len(self.cov["samples"]) < limit:
            self.cov["samples"].append(s)

    def violation(self, payload, found_input=True):
        payload = dict(payload, property=self.id, seed=self.seed, tier=self.tier,
                       failing_input_found=found_input)
        path = write_replay(self.id, payload)
        self.violations.append(path)
        tail = "" if found_input else " no-failing-input-found"
        print(f"VIOLATION property={self.id} replay={path}{tail}", flush=True)

    def known(self, what):
        if what not in self.known_printed:
            self.known_printed.append(what)
            print(f"KNOWN-FINDING: property={self.id} {what}", flush=True)

    def proof_stage(self):
        """build + audit; on failure report violation(s) without input (callers may then search)"""
        ok, log = coq_build()
        aud = audit_props(self.id)
        hits = forbidden_scan()
        self.cov["obligations"] = aud["obligations"]
        self.cov["discharged"] = aud["discharged"] if (ok or aud["ok"]) and not hits else 0
        self.cov["checker_cmd"] = ("coq_makefile -f coq/_CoqProject && make (full .vo build, coqc 8.16.1); "
                                   f"coqc Props/{self.id}.v with Print Assumptions under every theorem")
        self.cov["theorems"] = aud["theorems"]
        self.cov["closure_files"] = aud["files"]
        problems = list(aud["problems"]) + [f"forbidden vernacular: {h}" for h in hits]
        if not ok and not aud["ok"]:
            problems.append("make failed: " + log[-1500:])
        elif not ok:
            # some other property's file is broken; ours is fine
            self.cov["build_note"] = "make reported errors outside this property's closure"
        if self.tier == "thorough" and not problems:
            rc, out = sh(["coqchk", "-silent", "-o"] + [x for d in COQ_DIRS for x in ("-Q", d, "ISLA")]
                         + [f"ISLA.{self.id}"], timeout=1800, cwd=COQ)
            summary = out[out.find("CONTEXT SUMMARY"):][:3000] if "CONTEXT SUMMARY" in out else out[-1500:]
            self.cov["coqchk"] = summary
            if rc != 0 or "CONTEXT SUMMARY" not in out:
                problems.append("coqchk failed: " + out[-800:])
            else:
                m = re.search(r"\* Axioms:(.*?)\n\s*\n\* ", summary, re.S)
                ax = (m.group(1).strip() if m else "?")
                self.cov["coqchk_axioms"] = ax
                for key in ("type-in-type", "unsafe (co)fixpoints", "positivity is assumed"):
                    mm = re.search(re.escape(key) + r":(.*?)(\n\s*\n|$)", summary, re.S)
                    if mm and "<none>" not in mm.group(1):
                        problems.append(f"coqchk: {key}: {mm.group(1).strip()[:200]}")
                if ax != "<none>":
                    bad = [a for a in re.findall(r"[\w.']+", ax) if a.split(".")[-1] not in ALLOWED_AXIOMS]
                    if bad:
                        problems.append(f"coqchk lists axioms {bad}")
            self.cov["discharged"] = self.cov["discharged"] if not problems else 0
        self.proof_problems = problems
        return not problems

    def finish(self, level="proof"):
        self.cov["distinct_nontrivial"] = len(self._distinct)
        ev = {
            "property_id": self.id, "tier": self.tier, "seed": self.seed, "level": level,
            "coverage": self.cov, "assumptions": self.assumptions,
            "wall_s": round(time.time() - self.t0, 2), "violations": len(self.violations),
            "known_findings_printed": self.known_printed,
        }
        os.makedirs(os.path.join(VERIF, "evidence"), exist_ok=True)
        with open(os.path.join(VERIF, "evidence", f"{self.id}.json"), "w") as f:
            json.dump(ev, f, indent=1, default=str)
        print(f"[{self.id}] tier={self.tier} seed={self.seed} evaluations={self.cov['evaluations']} "
              f"nontrivial={self.cov['distinct_nontrivial']} obligations={self.cov.get('obligations')} "
              f"discharged={self.cov.get('discharged')} violations={len(self.violations)} "
              f"wall={ev['wall_s']}s", flush=True)
        return 1 if self.violations else 0


TRUSTED_BASE_COMMON = [
    "Coq 8.16.1 kernel (coqc), vm_compute for evaluating models and _refuted witnesses; no native_compute",
    "hand-written Gallina model tied to /repo by the correspondence check of this run (harness/*.py encoders, generators)",
    "Print Assumptions output parsed per property theorem: only 'Closed under the global context' accepted",
]
