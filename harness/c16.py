"""C16 — derivation-tree operations: correspondence of Tree/TreeOps.v, Tree/Cache.v, Tree/Trie.v
with isla.derivation_tree.DerivationTree and isla.trie.SubtreesTrie.

A case is a HISTORY: a random sequence of public operations (constructor, replace_path with and
without retain_id, substitute, new_ids, expand_one_step, is_open(), get_subtree as an alias
source) on a register file of trees.  After every step the implementation's outcome (new trees
with ALL their private __is_open slots, or the exception) and a battery of observations through
the public methods are recorded; Coq replays the history on the model and compares everything.

Independently of the model, the declarative statements of Props/C16.v are evaluated on the
implementation's values by a Python reference of the SPEC (spec_* below): a failure there is a
failing input of the property (or a member of a recorded known-finding class)."""
import json
import random
import lib
from lib import g_path, g_bool, g_str, g_tree, g_list, g_option, g_grammar
from gen_trees import rand_tree as _rand_tree, tree_json, tree_from_json, NTS as _NTS, TERMS as _TERMS
import re as _re

# labels that LOOK like nonterminals to a naive test (start with '<', end with '>') but are terminals for
# is_nonterminal (regex prefix match of <[^<> ]*>), and near misses; used for closed leaves AND inner nodes
TRICKY = ["<hr />", "< >", "<a b>", "<", ">", "<a", "a>", "<<a>>", "<!-- c -->", "<a>x", "<>"]
NTS = _NTS + TRICKY            # labels of inner nodes / open leaves / epsilon nodes
TERMS = _TERMS + TRICKY        # labels of closed leaves
_RE_NT = _re.compile(r"<[^<> ]*>")


def spec_is_nt(s):
    """the harness's own reading of the documented nonterminal syntax (prefix match)"""
    return _RE_NT.match(s) is not None


def rand_tree(rng, **kw):
    kw.setdefault("nts", NTS); kw.setdefault("terms", TERMS)
    return _rand_tree(rng, **kw)
from isla.derivation_tree import DerivationTree as T
from isla.trie import path_to_trie_key, trie_key_to_path

SLOT = "_DerivationTree__is_open"
MAXN = 4999


# --------------------------------------------------------------------------- encoders
def g_ctree(t):
    out = {}
    stack = [(t, False)]
    while stack:
        node, done = stack.pop()
        if done:
            ch = node.children
            ks = "[]" if not ch else "[" + "; ".join(out[id(c)] for c in ch) + "]"
            c = getattr(node, SLOT)
            out[id(node)] = (f"(CNode {g_str(node.value)} {node.id}%N 0%N {g_option(c, g_bool)} "
                             f"{g_bool(ch is None)} {ks})")
        else:
            stack.append((node, True))
            for c in node.children or ():
                stack.append((c, False))
    return out[id(t)]


def g_res(f, conv):
    try:
        v = f()
    except Exception as e:
        return f"(Raise {lib.exn_name(e)})", ("raise", type(e).__name__)
    return f"(Ok {conv(v)})", ("ok", v)


def g_pn(pn):
    return f"({g_path(pn[0])}, {pn[1]}%N)"


# --------------------------------------------------------------------------- spec-side reference
def direct_nodes(t):
    """pre-order (path, node) by plain recursion over .children (no public traversal used)"""
    res = []

    def go(p, n):
        res.append((p, n))
        for i, c in enumerate(n.children or ()):
            go(p + (i,), c)
    go((), t)
    return res


def node_at(t, p):
    for i in p:
        t = t.children[i]
    return t


def spec_struct_eq(a, b):
    """declarative: same label, same openness, same NUMBER of children, children pairwise equal"""
    if a.value != b.value or (a.children is None) != (b.children is None):
        return False
    if a.children is None:
        return True
    return len(a.children) == len(b.children) and all(spec_struct_eq(x, y) for x, y in zip(a.children, b.children))


def spec_violations(t, fixed_root):
    """evaluate the declarative statements on the implementation's answers for tree t.
    returns list of (statement, class_or_None, detail)"""
    bad = []
    dn = direct_nodes(t)
    # to_string_yield: string = concatenation of the terminal leaves (document order)
    is_nonterminal = spec_is_nt
    want = "".join(n.value for _, n in dn if n.children is not None and not n.children and not is_nonterminal(n.value))
    if t.to_string() != want:
        bad.append(("to_string_yield", None, {"impl": t.to_string(), "spec": want}))
    want_open = "".join(n.value for _, n in dn if not n.children and (n.children is None or not is_nonterminal(n.value)))
    if str(t) != want_open:
        bad.append(("to_string_yield(show_open_leaves)", None, {"impl": str(t), "spec": want_open}))
    # open_iff_leaf (cached answer and fresh copy)
    has_open = any(n.children is None for _, n in dn)
    fresh = t.new_ids().is_open()
    if fresh != has_open:
        bad.append(("open_iff_leaf(fresh)", None, {"impl": fresh, "spec": has_open}))
    slot = getattr(t, SLOT)
    if slot is not None and slot != has_open:
        bad.append(("cache_inv", None, {"slot": slot, "spec": has_open}))
    for p, n in dn:
        s = getattr(n, SLOT)
        if s is not None and s != any(m.children is None for _, m in direct_nodes(n)):
            bad.append(("cache_inv", None, {"path": list(p), "slot": s}))
            break
    # shash_congr against a freshly built, structurally equal tree (no cached hashes)
    fr = t.new_ids()
    if not (t.structurally_equal(fr) and fr.structurally_equal(t)):
        bad.append(("structurally_equal(fresh copy)", None, {}))
    elif t.structural_hash() != fr.structural_hash():
        bad.append(("shash_congr(fresh copy)", None, {"cached": t.structural_hash(), "fresh": fr.structural_hash()}))
    # paths_subtree
    ps = t.paths()
    if [(p, id(n)) for p, n in ps] != [(p, id(n)) for p, n in dn] and \
       [(p, n.id, n.value) for p, n in ps] != [(p, n.id, n.value) for p, n in dn]:
        bad.append(("paths_subtree", None, {"impl": [list(p) for p, _ in ps][:40]}))
    # find_node_path
    first = {}
    for p, n in dn:
        first.setdefault(n.id, p)
    for i, p in first.items():
        if t.find_node(i) != p:
            bad.append(("find_node_path", None, {"id": i, "impl": t.find_node(i), "spec": list(p)}))
            break
    # trie_view
    wide = any(len(n.children or ()) > 28 for _, n in dn)
    tr = t.trie()
    if tr.keys() != [p for p, _ in dn]:
        bad.append(("trie_view(keys)", "K_wide" if wide else None,
                    {"n_keys": len(tr.keys()), "n_paths": len(dn)}))
    want_items = [(p, (p, n.id)) for p, n in dn]
    got = [(k, (vp, n.id)) for k, (vp, n) in tr.items()]
    if got != want_items:
        cls = "K_wide" if wide else None
        if [(k, n) for k, (_, n) in got] == [(k, n) for k, (_, n) in want_items] and not fixed_root:
            cls = "K_rootitems"
        elif wide and not fixed_root and all(vp == k[-1:] for k, (vp, _) in got):
            cls = "K_wide+K_rootitems"
        bad.append(("trie_view(root items)", cls, {"first_diff": next(
            ([list(a[0]), list(a[1][0])] for a, b in zip(got, want_items) if a != b), None)}))
    for q, s in dn[:: max(1, len(dn) // 6)]:
        sub = [(p, (p, n.id)) for p, n in direct_nodes(s)]
        try:
            got = [(k, (vp, n.id)) for k, (vp, n) in tr.get_subtrie(q).items()]
        except Exception as e:
            got = type(e).__name__
        if got != sub:
            inwide = wide and (any(i > 27 for i in q) or any(len(n.children or ()) > 28 for _, n in direct_nodes(s)))
            bad.append(("trie_view", "K_wide" if inwide else None, {"q": list(q)}))
    return bad


def spec_replace_frame(t, p, r, res, retain):
    """replace_frame on the implementation: node at p is the replacement; every path neither below
    nor above p is untouched; ancestors keep label and id"""
    bad = []
    got = node_at(res, p) if res.is_valid_path(p) else None
    if retain:
        ok = got is not None and got.value == r.value and got.id == node_at(t, p).id and \
            (got.children is None) == (r.children is None) and \
            all(a is b for a, b in zip(got.children or (), r.children or ()))
    else:
        ok = got is r
    if not ok:
        bad.append(("replace_frame(at p)", None, {"p": list(p)}))
    for q, n in direct_nodes(t):
        if q[:len(p)] == p and len(q) >= len(p):
            continue
        m = node_at(res, q) if res.is_valid_path(q) else None
        if p[:len(q)] == q:       # ancestor
            if m is None or m.value != n.value or m.id != n.id or len(m.children) != len(n.children):
                bad.append(("replace_frame(ancestor)", None, {"q": list(q)}))
        elif m is not n:
            bad.append(("replace_frame(off path)", None, {"q": list(q)}))
    return bad


# --------------------------------------------------------------------------- generators
def rand_grammar(rng):
    g = {}
    for nt in NTS:
        r = rng.random()
        if r < 0.03:
            continue                       # undefined -> KeyError
        if r < 0.05:
            g[nt] = []                     # no alternative -> assertion
            continue
        g[nt] = [[rng.choice(NTS + TERMS) for _ in range(rng.randint(0, 3))] for _ in range(rng.randint(1, 2))]
    return g


def dup_id_tree(rng):
    """tree with a repeated id (public constructor accepts ids)"""
    t = rand_tree(rng, depth=2, max_deg=3)
    j = tree_json(t)
    flat = []

    def go(x):
        flat.append(x)
        for c in x[2] or []:
            go(c)
    go(j)
    if len(flat) >= 2:
        a, b = rng.sample(flat, 2)
        b[1] = a[1]
    return tree_from_json(j)


def wide_tree(rng):
    """a node with 28..40 children (the trie alphabet ends at child index 27), at the root or one level down"""
    n = rng.choice([28, 29, 30, 33, 40])
    kids = [rand_tree(rng, depth=rng.choice([0, 0, 0, 1]), max_deg=2) for _ in range(n)]
    w = T(rng.choice(NTS), kids)
    if rng.random() < 0.4:
        sib = [rand_tree(rng, depth=1, max_deg=2) for _ in range(rng.randint(0, 2))]
        k = rng.randint(0, len(sib))
        return T(rng.choice(NTS), sib[:k] + [w] + sib[k:])
    return w


def prefix_variant(rng, t):
    """fresh tree equal in structure to t except that ONE node's child list is a proper prefix of
    (or a proper extension of) the original child list; the node is the root half of the time"""
    inner = [p for p, n in direct_nodes(t) if n.children]
    target = None if not inner else (() if rng.random() < 0.5 else rng.choice(inner))

    def go(p, n):
        if n.children is None:
            return T(n.value, None)
        ks = [go(p + (i,), c) for i, c in enumerate(n.children)]
        if p == target:
            if rng.random() < 0.6 and len(ks) > 1:
                ks = ks[:rng.randint(1, len(ks) - 1)]
            else:
                ks = ks + [T(rng.choice(TERMS), [])]
        return T(n.value, ks)
    return go((), t)


def rand_valid_path(rng, t, nonroot=False):
    ps = [p for p, _ in direct_nodes(t)]
    if nonroot and len(ps) > 1:
        ps = ps[1:]
    return rng.choice(ps)


def rand_any_path(rng, t):
    p = rand_valid_path(rng, t)
    r = rng.random()
    if r < 0.5:
        return p
    if r < 0.8:
        return p + (rng.randint(0, 3),)
    return p[:-1] + (rng.randint(0, 45),) if p else (rng.randint(0, 45),)


class History:
    def __init__(self, rng, run, fixed_root, max_ops, wide):
        self.rng, self.run, self.fixed_root = rng, run, fixed_root
        self.R = []                 # registers (python trees, kept alive)
        self.steps = []             # (op literal, out literal, [chk literals])
        self.labels = []            # per step: (op description, [chk descriptions])
        self.specbad = []           # spec-side failures
        self.max_ops, self.wide = max_ops, wide
        self.deep_replace = False
        self.kinds = []
        self.last_dump = {}
        self.against = {}           # register -> registers it must be compared with
        self.prefix_pairs = 0       # compared pairs whose child lists are a proper prefix of each other
        self.inner_cache_scenarios = 0
        self.scenario = False
        self.stale_hash_seqs = 0    # structural_hash() on host, then replace_path(retain_id=True), then hash compared

    # ---- observations on register k
    def observe(self, k, full=True):
        rng, t = self.rng, self.R[k]
        cs, ds = [], []

        def add(lit, desc):
            cs.append(lit); ds.append(desc)
        dn = direct_nodes(t)
        add(f"CStr {k} false {g_str(t.to_string())}", "to_string()")
        add(f"CStr {k} true {g_str(str(t))}", "str()")
        add(f"CPaths {k} {g_list([(p, n.id) for p, n in t.paths()], g_pn)}", "paths()")
        ids = [n.id for _, n in dn]
        for i in (ids if len(ids) <= 6 else rng.sample(ids, 6)) + [10 ** 9 + 7]:
            add(f"CFind {k} {i}%N {g_option(t.find_node(i), g_path)}", f"find_node({i})")
        add(f"CLeaves {k} {g_list([p for p, _ in t.leaves()], g_path)}", "leaves()")
        add(f"COpenLeaves {k} {g_list([p for p, _ in t.open_leaves()], g_path)}", "open_leaves()")
        add(f"CUnique {k} {g_bool(t.has_unique_ids())}", "has_unique_ids()")
        add(f"COpenFresh {k} {g_bool(t.new_ids().is_open())}", "new_ids().is_open()")
        for _ in range(3):
            p = rand_any_path(rng, t)
            add(f"CValid {k} {g_path(p)} {g_bool(t.is_valid_path(p))}", f"is_valid_path({p})")
            lit, _ = g_res(lambda: t.get_subtree(p), lambda v: g_option(None if v is None else v.id, lambda i: f"{i}%N"))
            add(f"CSub {k} {g_path(p)} {lit}", f"get_subtree({p})")
        for _ in range(3):
            p = rand_valid_path(rng, t)
            for skip in (False, True):
                lit, _ = g_res(lambda: t.next_path(p, skip), lambda v: g_option(v, g_path))
                add(f"CNext {k} {g_path(p)} {g_bool(skip)} {lit}", f"next_path({p},{skip})")
        tr = t.trie()
        views = [None] + ([rand_any_path(rng, t) for _ in range(2)] if full else [rand_valid_path(rng, t)])
        if full and len(dn) <= 50:
            views.append(())
        elif len(dn) > 50:
            views = views[:2]
        for q in views:
            v = tr if q is None else tr.get_subtrie(q)
            gq = g_option(q, g_path)
            if q is None or q == () or not full:
                add(f"CTrieKeys {k} {gq} {g_list(v.keys(), g_path)}", f"trie view {q} keys()")
            lit, _ = g_res(v.items, lambda l: g_list(l, lambda x: f"({g_path(x[0])}, {g_pn((x[1][0], x[1][1].id))})"))
            add(f"CTrieItems {k} {gq} {lit}", f"trie view {q} items()")
            if q is None or (q == () and len(dn) <= 50):
                lit, _ = g_res(v.values, lambda l: g_list(l, lambda x: g_pn((x[0], x[1].id))))
                add(f"CTrieValues {k} {gq} {lit}", f"trie view {q} values()")
        for _ in range(2):
            p = rand_any_path(rng, t)
            lit, _ = g_res(lambda: tr[p], lambda x: g_pn((x[0], x[1].id)))
            add(f"CTrieGet {k} {g_path(p)} {lit}", f"trie()[{p}]")
        for j in list(self.against.pop(k, [])) + [rng.randrange(len(self.R)) for _ in range(2)]:
            for a, b in ((k, j), (j, k)):
                ta, tb = self.R[a], self.R[b]
                se = ta.structurally_equal(tb)
                if se != spec_struct_eq(ta, tb):
                    self.specbad.append(("structurally_equal", None, {"impl": se, "a": tree_json(ta), "b": tree_json(tb)}))
                if not se and len(ta.children or ()) != len(tb.children or ()) and ta.value == tb.value \
                        and all(spec_struct_eq(x, y) for x, y in zip(ta.children or (), tb.children or ())):
                    self.prefix_pairs += 1
                add(f"CSEq {a} {b} {g_bool(se)}", f"R{a}.structurally_equal(R{b})")
                add(f"CPrefix {a} {b} {g_bool(ta.is_prefix(tb))}", f"R{a}.is_prefix(R{b})")
                add(f"CPotPrefix {a} {b} {g_bool(ta.is_potential_prefix(tb))}", f"R{a}.is_potential_prefix(R{b})")
                # shash_congr on the implementation
                if se and ta.structural_hash() != tb.structural_hash():
                    self.specbad.append(("shash_congr", None, {"a": tree_json(ta), "b": tree_json(tb)}))
        for s, cls, d in spec_violations(t, self.fixed_root):
            self.specbad.append((s, cls, dict(d, tree=tree_json(t) if len(dn) < 60 else f"<{len(dn)} nodes>", reg=k)))
        return cs, ds

    def dump_all(self):
        """slots of every register whose dump changed since it was last recorded"""
        cs, ds = [], []
        for k, t in enumerate(self.R):
            g = g_ctree(t)
            if self.last_dump.get(k) != g:
                self.last_dump[k] = g
                cs.append(f"CDump {k} {g}"); ds.append(f"slots of R{k}")
        return cs, ds

    def record(self, op_lit, desc, f, dump=False):
        """run f() -> list of new trees | bool; record outcome"""
        n0 = len(self.R)
        try:
            v = f()
        except Exception as e:
            out = f"OutExn {lib.exn_name(e)}"
            new = []
            kind = "raise:" + type(e).__name__
        else:
            if isinstance(v, bool):
                out, new, kind = f"OutBool {g_bool(v)}", [], "bool"
            else:
                new = list(v)
                out = f"OutTrees {g_list(new, g_ctree)}"
                kind = "trees"
        for t in new:
            self.last_dump[len(self.R)] = g_ctree(t)
            self.R.append(t)
        cs, ds = [], []
        for k in range(n0, len(self.R)):
            c, d = self.observe(k, full=(k == n0))
            cs += c; ds += d
        if dump:
            c, d = self.dump_all()
            cs += c; ds += d
        self.steps.append(f"({op_lit}, {out}, {g_list(cs)})")
        self.labels.append((desc, kind, ds))
        self.kinds.append(desc.split("(")[0] + ("!" if kind.startswith("raise") else ""))
        return kind

    # ---- operations
    def op_construct(self):
        rng = self.rng
        r = rng.random()
        if r < 0.12:
            t = dup_id_tree(rng)
        elif self.R and r < 0.34:
            src = rng.randrange(len(self.R))
            t = prefix_variant(rng, self.R[src])
            self.against[len(self.R)] = [src]
        elif self.wide and r < 0.65:
            t = wide_tree(rng)
        else:
            t = rand_tree(rng, depth=rng.randint(1, 4), max_deg=rng.choice([2, 3, 5]))
        self.record(f"OConstruct {g_tree(t)}", "construct()", lambda: [t])

    def op_is_open(self, k=None):
        k = self.rng.randrange(len(self.R)) if k is None else k
        t = self.R[k]
        self.record(f"OIsOpen {k}", f"is_open(R{k})", lambda: bool(t.is_open()), dump=True)
        # open_iff_leaf on the CACHED answer: is_open() <-> some open leaf (plain recursion), and
        # is_complete() / open_leaves() agree with it
        has_open = any(n.children is None for _, n in direct_nodes(t))
        ans = bool(t.is_open())
        if ans != has_open or t.is_complete() == has_open or bool(list(t.open_leaves())) != has_open:
            self.specbad.append(("open_iff_leaf(cached answer)", None,
                                 {"impl_is_open": ans, "spec": has_open, "tree": tree_json(t), "reg": k,
                                  "open_leaves": [list(p) for p, _ in t.open_leaves()][:5]}))

    def op_replace(self, src=None, p=None, rep=None, retain=None):
        rng = self.rng
        if src is None:
            src, rep = rng.randrange(len(self.R)), rng.randrange(len(self.R))
        t, r = self.R[src], self.R[rep]
        if p is None:
            p = rand_valid_path(rng, t, nonroot=True) if rng.random() < 0.85 else rand_any_path(rng, t)
        if retain is None:
            retain = rng.random() < 0.4
        kind = self.record(f"OReplace {src} {g_path(p)} {rep} {g_bool(retain)}",
                           f"replace_path(R{src},{p},R{rep},retain_id={retain})",
                           lambda: [t.replace_path(p, r, retain_id=retain)], dump=retain)
        if kind == "trees":
            if retain and not spec_struct_eq(node_at(t, p), r):
                self.stale_hash_seqs += 1     # t was hashed when observed; result is hashed + compared in observe
            if len(p) >= 1:
                self.deep_replace = True
            for s, cls, d in spec_replace_frame(t, p, r, self.R[-1], retain):
                self.specbad.append((s, cls, dict(d, tree=tree_json(t), p=list(p), repl=tree_json(r))))
            # cached answer of the ROOT of the result right after the replacement (the slots of all
            # ancestors are compared with a recomputation by spec_violations/cache_inv in observe)
            if rng.random() < 0.6:
                self.op_is_open(len(self.R) - 1)

    def op_subst(self):
        rng = self.rng
        src = rng.randrange(len(self.R))
        t = self.R[src]
        m, where = {}, {}
        for _ in range(rng.randint(1, 3)):
            kr = src if rng.random() < 0.8 else rng.randrange(len(self.R))
            kp = rand_valid_path(rng, self.R[kr])
            rr = rng.randrange(len(self.R))
            key = node_at(self.R[kr], kp)
            m[key] = self.R[rr]
            where.setdefault(id(key), (kr, kp))
        entries = []
        for key, repl in m.items():
            kr, kp = where[id(key)]
            rr = next(i for i, x in enumerate(self.R) if x is repl)
            entries.append(f"({kr}, {g_path(kp)}, {rr})")
        self.record(f"OSubst {src} {g_list(entries)}", f"substitute(R{src},{len(entries)} entries)",
                    lambda: [t.substitute(m)])

    def op_new_ids(self):
        src = self.rng.randrange(len(self.R))
        t = self.R[src]
        nid = T.next_id
        self.record(f"ONewIds {src} {nid}%N", f"new_ids(R{src})", lambda: [t.new_ids()])

    def op_expand(self):
        rng = self.rng
        for _ in range(6):
            src = rng.randrange(len(self.R))
            t = self.R[src]
            g = rand_grammar(rng)
            n = 1
            for _, leaf in t.open_leaves():
                n *= max(1, len(g.get(leaf.value, [1])))
            if n <= 4 and len(self.R) + n <= 16:
                break
        else:
            return self.op_new_ids()
        nid = T.next_id
        self.record(f"OExpand {src} {g_grammar(g)} {nid}%N", f"expand_one_step(R{src})",
                    lambda: list(t.expand_one_step(g)))

    def op_get(self, src=None, p=None):
        if src is None:
            src = self.rng.randrange(len(self.R))
        t = self.R[src]
        if p is None:
            p = rand_valid_path(self.rng, t, nonroot=True)
        self.record(f"OGet {src} {g_path(p)}", f"get_subtree(R{src},{p}) as register",
                    lambda: [node_at(t, p)])

    def scenario_inner_cache(self):
        """directed shape (seeded change C16-r2-2): is_open() is asked of INNER CLOSED nodes (aliases obtained
        with get_subtree) BEFORE a replace_path at depth >= 2 below them by a closed tree, while an open leaf
        sits in a sibling branch of an ancestor; then the cached answer of the result's root is asked"""
        rng = self.rng

        def closed(d):
            if d <= 0:
                return T(rng.choice(TERMS), [])
            return T(rng.choice(NTS), [closed(d - 1 if i == 0 else rng.randint(0, d - 1)) for i in range(rng.randint(1, 3))])

        def with_open(d):
            if d <= 0:
                return T(rng.choice(NTS), None)
            ks = [closed(rng.randint(0, 1)) for _ in range(rng.randint(0, 2))]
            ks.insert(rng.randint(0, len(ks)), with_open(d - 1))
            return T(rng.choice(NTS), ks)
        depth = rng.randint(2, 3)                       # closed branch of depth >= 2
        a = closed(depth)
        branches = [closed(rng.randint(0, 1)) for _ in range(rng.randint(0, 2))] + [with_open(rng.randint(0, 2))]
        rng.shuffle(branches)
        ia = rng.randint(0, len(branches))
        branches.insert(ia, a)
        host = T(rng.choice(NTS), branches)
        if rng.random() < 0.4:                          # one more level above: the open leaf hangs off a higher ancestor
            host = T(rng.choice(NTS), [host, with_open(rng.randint(0, 1))])
            pa = (0, ia)
        else:
            pa = (ia,)
        self.record(f"OConstruct {g_tree(host)}", "construct()", lambda: [host])
        h = len(self.R) - 1
        # path from a down its first children to a leaf (length >= 2 below a)
        below, n = (), a
        while n.children:
            below += (0,); n = n.children[0]
        # ask is_open() of inner closed nodes on that path (always the direct parent of the replaced node)
        asked = {len(below) - 1} | {i for i in range(len(below)) if rng.random() < 0.6}
        for i in sorted(asked, reverse=rng.random() < 0.5):
            self.op_get(h, pa + below[:i])
            self.op_is_open(len(self.R) - 1)
        r = closed(rng.randint(0, 2))
        self.record(f"OConstruct {g_tree(r)}", "construct()", lambda: [r])
        self.inner_cache_scenarios += 1
        self.op_replace(h, pa + below, len(self.R) - 1, rng.random() < 0.3)
        if self.labels[-1][0].startswith("replace_path"):
            self.op_is_open(len(self.R) - 1)

    def generate(self):
        rng = self.rng
        if self.scenario:
            self.scenario_inner_cache()
        self.op_construct()
        self.op_construct()
        n = len(self.steps) - 2 + rng.randint(4, self.max_ops)
        while len(self.steps) < n and len(self.R) < (18 if self.scenario else 14):
            r = rng.random()
            if r < 0.04 and len(self.R) < 8:
                self.scenario_inner_cache()
            elif r < 0.10:
                self.op_construct()
            elif r < 0.40:
                self.op_replace()
            elif r < 0.55:
                self.op_subst()
            elif r < 0.65:
                self.op_new_ids()
            elif r < 0.77:
                self.op_expand()
            elif r < 0.87:
                self.op_get()
            else:
                self.op_is_open()
        # final: cached answers of every register, slots after each
        for k in rng.sample(range(len(self.R)), min(len(self.R), 3)):
            self.op_is_open(k)

    def literal(self):
        return "[" + ";\n ".join(self.steps) + "]"


# --------------------------------------------------------------------------- known findings
def replay_known(run, entries):
    """open entries: replay the witness, print KNOWN-FINDING while the defect is present.
    fixed entries: the REPAIRED behaviour is forced (no probing): the old witness is a corpus case that
    must pass; a regression is reported as a VIOLATION (here and by the model/spec comparison, which
    always uses the repaired root-view variant).  returns (fixed_root, wide_present)"""
    fixed_root, wide_present = True, False
    for e in entries:
        status = e.get("status")
        if e["class"] == "K_rootitems":
            t = tree_from_json(e["witness"]["tree"])
            got = [(list(k), list(vp)) for k, (vp, _) in t.trie().items()]
            vals = [list(vp) for vp, _ in t.trie().values()]
            want = [list(p) for p, _ in t.paths()]
            broken = got != [(p, p) for p in want] or vals != want
            if status == "open":
                if broken:
                    fixed_root = False
                    run.known(e["what"])
            elif broken and hasattr(run, "violation"):
                run.violation({"kind": "regression of a fixed finding (corpus case)", "finding": e["key"],
                               "commit": e.get("commit"),
                               "witness": {"statement": "trie_view(root items)", "class": "K_rootitems",
                                           "detail": {"tree": e["witness"]["tree"],
                                                      "impl_items": got[:8], "spec_paths": want[:8]}},
                               "how_to_replay": "./check C16 --replay <this file>"})
        elif e["class"] == "K_wide" and status == "open":
            n = e["witness"]["children"]
            t = T("<a>", [T(str(i), []) for i in range(n)])
            if len(t.trie().keys()) != len(t.paths()):
                wide_present = True
                run.known(e["what"])
    return fixed_root, wide_present


def own_findings():
    """committed entries for C16: known_findings.json (generated) or, before the coordinator has
    regenerated it, harness/meta/C16.findings.json itself"""
    import os
    es = lib.known_findings("C16")
    if not es:
        p = os.path.join(lib.VERIF, "harness", "meta", "C16.findings.json")
        if os.path.exists(p):
            es = json.load(open(p))
    return es


def run(run):
    rng = random.Random(run.seed)
    thorough = run.tier == "thorough"
    run.cov["rule"] = (
        "random HISTORIES over a register file of trees: 2 constructor calls (random derivation trees, degree up "
        "to 40, some with repeated ids) then up to N operations drawn from {constructor, replace_path (valid and "
        "invalid paths, retain_id on/off), substitute (1-3 entries, keys from this or other trees, nested "
        "replacements), new_ids, expand_one_step (random grammars incl. undefined / alternative-free "
        "nonterminals), get_subtree result used as a register (aliasing), is_open()} and finally is_open() on up to "
        "3 registers.  After every step: outcome (new trees with all private __is_open slots / exception) and ~60 "
        "observations per new tree (to_string, str, paths, find_node per id, leaves, open_leaves, is_valid_path, "
        "get_subtree, next_path, trie keys/items/values of root view and sub-views, trie[p], structurally_equal / "
        "is_prefix / is_potential_prefix against other registers, fresh-copy is_open, has_unique_ids) are compared "
        "with the Coq model; the declarative statements (string = terminal leaves, open iff open leaf, slots "
        "correct, paths = positions, find_node = first pre-order occurrence, trie view = relative paths, frame of "
        "replace_path, equal structure => equal structural hash) are evaluated on the implementation by a Python "
        "reference of the spec.  non-trivial history = has >= 1 successful replace_path at depth >= 1 followed by "
        "an observation")
    import time
    t0 = time.time()
    proof_ok = run.proof_stage()
    run.cov["seconds_proof_stage"] = round(time.time() - t0, 1)
    t0 = time.time()
    entries = own_findings()
    fixed_root, wide_present = replay_known(run, entries)
    open_classes = {e["class"] for e in entries if e.get("status") == "open"}
    run.cov["root_view_variant"] = ("repaired (forced: finding trie-root-items is fixed)" if fixed_root
                                     else "defective (open finding K_rootitems still present)")
    run.cov["corpus_cases"] = [e["key"] for e in entries if e.get("status") == "fixed"]

    ncases = 160 if thorough else 30
    max_ops = 30 if thorough else 11
    hs = []
    hist = {}
    T.next_id = max(T.next_id, 1)
    for ci in range(ncases):
        h = History(random.Random(rng.getrandbits(48)), run, fixed_root, max_ops, wide=(ci % 3 == 0))
        h.scenario = (ci % 3 == 1)
        h.generate()
        hs.append(h)
        run.count(("hist", ci, tuple(h.kinds)), h.deep_replace)
        for k in h.kinds:
            hist[k] = hist.get(k, 0) + 1
        if ci < 3:
            run.sample({"history": [d for d, _, _ in h.labels], "outcomes": [k for _, k, _ in h.labels],
                        "first_tree": tree_json(h.R[0]) if len(h.R[0].paths()) < 40 else "<large>"})
    run.cov["seconds_generate_and_run_impl"] = round(time.time() - t0, 1)
    run.cov["op_histogram"] = hist
    run.cov["inner_closed_is_open_then_deep_replace_scenarios"] = sum(h.inner_cache_scenarios for h in hs)
    run.cov["prefix_child_list_pairs_compared"] = sum(h.prefix_pairs for h in hs)
    run.cov["hash_then_retain_replace_then_hash_sequences"] = sum(h.stale_hash_seqs for h in hs)
    lab = {}
    for h in hs:
        for t in h.R:
            for _, n in direct_nodes(t):
                if n.value in TRICKY:
                    k_ = ("inner" if n.children else "open" if n.children is None else "closed-leaf")
                    lab[k_] = lab.get(k_, 0) + 1
    run.cov["tricky_label_nodes"] = lab
    run.cov["histories"] = len(hs)
    run.cov["observations"] = sum(len(ds) + 1 for h in hs for _, _, ds in h.labels)
    run.cov["max_degree_seen"] = max(len(n.children or ()) for h in hs for t in h.R for _, n in direct_nodes(t))

    # ---- model side
    disagreements = []
    ok_def = f"case_ok {g_bool(fixed_root)}"
    shards, cur, size = [], [], 0
    index = []
    for i, h in enumerate(hs):
        lit = h.literal()
        if cur and size + len(lit) > 250_000:
            shards.append(("", cur)); cur, size = [], 0
        index.append((len(shards), len(cur)))
        cur.append(lit); size += len(lit)
    if cur:
        shards.append(("", cur))
    run.cov["literal_bytes"] = sum(len(c) for _, cs in shards for c in cs)
    try:
        bad, dt = lib.coq_run_shards("c16", "TreeObs", ok_def, shards)
        run.cov["coq_seconds"] = round(dt, 1)
        for (k, i) in bad:
            hi = index.index((k, i))
            h = hs[hi]
            txt = lib.coq_eval(f"c16d{hi}", "TreeObs", f"run_case {g_bool(fixed_root)} init_state 0 H",
                               extra_defs=f"Definition H := {h.literal()}.")
            fails = []
            import re
            for a, b in re.findall(r"\((\d+),\s*(\d+)\)", txt.split(":")[0] if ":" in txt else txt):
                a, b = int(a), int(b)
                desc, kind, ds = h.labels[a]
                fails.append({"step": a, "op": desc, "impl_outcome": kind,
                              "differs": "outcome of the operation" if b == 0 else ds[b - 1]})
            disagreements.append({"history": [d for d, _, _ in h.labels], "failures": fails[:8],
                                  "trees": [tree_json(t) for t in h.R[:3] if len(t.paths()) < 40],
                                  "model_says": txt[-600:] if not fails else None})
    except RuntimeError as e:
        run.violation({"kind": "correspondence-not-evaluable", "obligation": "TreeObs.case_ok histories",
                       "error": str(e)[-2000:]}, found_input=False)

    # ---- classification
    run.cov["disagreements_checked"] = len(disagreements)
    unknown_spec = []
    known_hits = {}
    for h in hs:
        for s, cls, d in h.specbad:
            parts = cls.split("+") if cls else []
            if parts and all(c in open_classes for c in parts):
                known_hits[cls] = known_hits.get(cls, 0) + 1
            else:
                unknown_spec.append({"statement": s, "class": cls, "detail": d,
                                     "history": [x for x, _, _ in h.labels]})
    run.cov["known_class_hits"] = known_hits
    for e in entries:
        if e.get("status") == "open" and any(e["class"] in k.split("+") for k in known_hits):
            run.known(e["what"])
    if unknown_spec:
        unknown_spec.sort(key=lambda d: len(json.dumps(d, default=str)))
        run.violation({"kind": "implementation violates a statement of Props/C16.v", "witness": unknown_spec[0],
                       "all_failing": len(unknown_spec), "model_disagreements": disagreements[:2],
                       "how_to_replay": "./check C16 --replay <this file>"})
    elif disagreements:
        run.violation({"kind": "correspondence broken but the declarative statements hold on everything searched",
                       "first": disagreements[0], "n": len(disagreements),
                       "obligation": "correspondence Tree/TreeOps.v, Cache.v, Trie.v <-> derivation_tree.py, trie.py"},
                      found_input=False)
    if not proof_ok:
        run.violation({"kind": "proof obligation failed", "problems": run.proof_problems,
                       "obligation": "Props/C16.v"}, found_input=False)
    run.cov["trusted_base"] = lib.TRUSTED_BASE_COMMON + [
        "object identity of Python trees modelled by object tags; a lazily written __is_open slot is written at "
        "every alias with the value computed from that alias (equal on reachable states; every slot of every "
        "register is compared with the implementation after is_open()/retain_id steps)",
        "datrie.Trie modelled as an ordered map over chr(0..29) that silently drops other keys (observed behaviour; "
        "tied by histories with nodes of degree 29..40)",
        "Python hash() on str / tuple enters shash_congr as Section variables hash_str / hash_tup (any functions)",
        "hash caches (__hash, __structural_hash), k_paths caches and lru_cache decorators are not modelled",
        "negative indices in paths are not modelled (paths are lists of naturals)"]


def replay(path):
    d = json.load(open(path))
    w = d.get("witness")
    if not w:
        print("replay file names an obligation, not an input:", d.get("obligation")); return 1
    det = w.get("detail", {})
    tj = det.get("tree")
    if not isinstance(tj, list):
        print("witness tree too large to inline; history:", w.get("history")); return 1
    t = tree_from_json(tj)
    if "p" in det and "repl" in det:
        r = tree_from_json(det["repl"])
        p = tuple(det["p"])
        bad = spec_replace_frame(t, p, r, t.replace_path(p, r), False)
    else:
        class _Quiet:
            def known(self, what):
                pass
        fixed_root, _ = replay_known(_Quiet(), own_findings())
        bad = [b for b in spec_violations(t, fixed_root) if b[1] is None and b[0] == w["statement"]]
    print("statement:", w["statement"], "-> still failing:" if bad else "-> holds now", bad[:2])
    return 1 if bad else 0
