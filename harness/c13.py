"""C13 — tree insertion (isla.existential_helpers.insert_tree): correspondence with Grammar/Insert.v.

Three ties, all evaluated inside Coq (vm_compute) on the implementation's real outputs:
  (A) acceptance: every result of insert_tree(grammar, ins, host, graph, max, methods=m), for all 7
      method masks, must be accepted by the PROVED decision procedure `insertedb` of the declarative
      spec `inserted` (Props/C13.v: C13_insertedb_spec).  Exceptions are violations.
  (B) model equality: the Gallina model `insert_tree` (direct / self embedding / context addition,
      path_to_tree, connect_trees, insert_trees, add_to_result; grammar-graph answers given as tables
      read off the real GrammarGraph) must return the same list of trees, fresh ids erased to 0.
  (C) path_to_tree(grammar, chain) for every chain of paths_between: model = implementation.

Known finding (open, recorded): class K_ctx (method mask contains CONTEXT_ADDITION): a result keeps
every host node and the ROOT of the inserted tree but not the inserted tree itself
(`inserted_lossyb` holds, `insertedb` does not)."""
import json, os, random, collections, re
import lib
from lib import g_str, g_tree, g_path, g_nat, g_grammar, g_list
from grammar_graph.gg import GrammarGraph
from isla.derivation_tree import DerivationTree as T
from isla.helpers import canonical, is_nonterminal
from isla import existential_helpers as EH

GRAMMARS = {
    "lang": {
        "<start>": ["<stmt>"],
        "<stmt>": ["<assgn> ; <stmt>", "<assgn>"],
        "<assgn>": ["<var> := <rhs>"],
        "<rhs>": ["<var>", "<digit>"],
        "<var>": ["x", "y", "z"],
        "<digit>": ["0", "1"],
    },
    "xml": {
        "<start>": ["<tree>"],
        "<tree>": ["<open><inner><close>", "<openclose>"],
        "<inner>": ["<tree><inner>", "<tree>", "<text>"],
        "<open>": ["(<id>)", "(<id> <attr>)"],
        "<close>": ["(/<id>)"],
        "<openclose>": ["(<id>/)"],
        "<attr>": ["<id>=q", "<attr> <attr>"],
        "<id>": ["a", "b"],
        "<text>": ["t", "tt"],
    },
    "expr": {
        "<start>": ["<e>"],
        "<e>": ["<t>+<e>", "<t>"],
        "<t>": ["<f>*<t>", "<f>"],
        "<f>": ["[<e>]", "<n>"],
        "<n>": ["1", "2", "<n><n>"],
    },
    "eps": {
        "<start>": ["<a>"],
        "<a>": ["<b><c>", "x<a>"],
        "<b>": ["", "b<b>"],
        "<c>": ["<d>", "c"],
        "<d>": ["d", "<a>d", ""],
    },
    "blocks": {
        "<start>": ["<block>"],
        "<block>": ["{<stmts>}"],
        "<stmts>": ["<s><stmts>", ""],
        "<s>": ["<block>", "<decl>", "<use>;"],
        "<decl>": ["int <v>;"],
        "<use>": ["<v>=<v>"],
        "<v>": ["p", "q"],
    },
    # terminals that LOOK like nonterminals (start with '<' / end with '>' but is_nonterminal says no:
    # they contain a space, or are unbalanced) as siblings in recursive expansions
    "html": {
        "<start>": ["<doc>"],
        "<doc>": ["<item>", "<item><doc>"],
        "<item>": ["<hr /><item>", "<a b><doc><c d>", "<text>", "<item><br />"],
        "<text>": ["t", "u", "<text>< ><text>"],
    },
    "angle": {
        "<start>": ["<cmp>"],
        "<cmp>": ["<num><<cmp>", "<num>><num>", "<num>", "<a<cmp>"],
        "<num>": ["1", "<num>< ><num>", "<<num>>"],
    },
}
CANON = {k: canonical(g) for k, g in GRAMMARS.items()}


def lookalike(sym):
    """terminal symbol that a startswith('<') / endswith('>') test would take for a nonterminal"""
    return (sym.startswith("<") or sym.endswith(">")) and not is_nonterminal(sym)


LOOKALIKE_GRAMMARS = [k for k, cg in CANON.items() if any(lookalike(x) for alts in cg.values() for a in alts for x in a)]
assert {"<hr />", "<a b>", "<c d>", "<br />", "< >"} <= {x for a in CANON["html"].values() for b in a for x in b}
assert {"<", ">", "< >", "<a"} <= {x for a in CANON["angle"].values() for b in a for x in b}


def open_one_lookalike(t):
    """copy of t in which the first childless closed look-alike terminal is an OPEN leaf (children None),
    ids kept; None if there is no such node.  Used as negative control of the acceptance procedure."""
    for p, n in t.paths():
        if n.children is not None and not n.children and lookalike(n.value):
            return t.replace_path(p, T(n.value, None, id=n.id))
    return None
METHOD_NAMES = {1: "direct", 2: "self", 4: "context"}


# --------------------------------------------------------------------------
# generators (deterministic from the run seed)
# --------------------------------------------------------------------------
def min_depths(cg):
    inf = 10 ** 6
    d = {k: inf for k in cg}
    changed = True
    while changed:
        changed = False
        for k, alts in cg.items():
            for a in alts:
                c = 1 + max([d[s] for s in a if is_nonterminal(s)] + [0])
                if c < d[k]:
                    d[k] = c
                    changed = True
    return d


MIND = {k: min_depths(cg) for k, cg in CANON.items()}


def rand_deriv(rng, gname, nt, depth, open_prob=0.0, eps_fuzzer=False):
    cg, md = CANON[gname], MIND[gname]

    def cost(a):
        return 1 + max([md[s] for s in a if is_nonterminal(s)] + [0])

    def go(sym, d):
        if not is_nonterminal(sym):
            return T(sym, ())
        if rng.random() < open_prob:
            return T(sym, None)
        alts = cg[sym]
        if d <= md[sym]:
            best = min(cost(a) for a in alts)
            alts = [a for a in alts if cost(a) == best]
        a = rng.choice(alts)
        if not a:
            return T(sym, (T("", ()),)) if eps_fuzzer else T(sym, ())
        return T(sym, tuple(go(s, d - 1) for s in a))
    return go(nt, depth)


def prune(rng, t, k):
    """open k random inner nonterminal nodes (children -> None), keeping ids"""
    for _ in range(k):
        cands = [p for p, s in t.paths() if p and is_nonterminal(s.value) and s.children is not None]
        if not cands:
            break
        p = rng.choice(cands)
        s = t.get_subtree(p)
        t = t.replace_path(p, T(s.value, None, id=s.id))
    return t


def refine(rng, gname, t, tries=6):
    """A tree derived from t the way the solver refines trees: one nonterminal node (open or not, possibly
    the root) gets a new random derivation, the node keeps its id and DerivationTree.replace_path keeps the
    ids of all its ancestors - so the result has the SAME ROOT ID as t but other content.  None if no
    structurally different tree was found."""
    cands = [(p, n) for p, n in t.paths() if is_nonterminal(n.value)]
    for _ in range(tries):
        p, n = rng.choice(cands)
        new = rand_deriv(rng, gname, n.value, rng.randint(1, 2), open_prob=rng.choice([0, .3]),
                         eps_fuzzer=rng.random() < .5)
        if new.children is None and n.children is None:
            continue
        sub = T(new.value, new.children, id=n.id)
        t2 = sub if not p else t.replace_path(p, sub)
        if not t2.structurally_equal(t) and len(t2.paths()) <= 45:
            assert t2.id == t.id
            return t2
    return None


def tree_json(t):
    return [t.value, t.id, None if t.children is None else [tree_json(c) for c in t.children]]


def tree_from_json(j):
    v, i, ch = j
    return T(v, None if ch is None else [tree_from_json(c) for c in ch], id=i)


# --------------------------------------------------------------------------
# python reference of the SPEC `inserted` (used to cross-check Coq's verdicts and in replay)
# --------------------------------------------------------------------------
def wf(cg, t):
    al = [list(a) for a in cg.get(t.value, [])]
    if t.children is None:
        return is_nonterminal(t.value) and t.value in cg
    if not t.children:
        return (not is_nonterminal(t.value)) or ([] in al)
    if not is_nonterminal(t.value):
        return False
    if [c.value for c in t.children] in al and all(wf(cg, c) for c in t.children):
        return True
    return [] in al and len(t.children) == 1 and t.children[0].value == "" and t.children[0].children == ()


def teq(a, b):
    if a.value != b.value or a.id != b.id or (a.children is None) != (b.children is None):
        return False
    if a.children is None:
        return True
    return len(a.children) == len(b.children) and all(teq(x, y) for x, y in zip(a.children, b.children))


def spec_verdict(cg, host, ins, res):
    """(strict, lossy, reasons)"""
    reasons = []
    if not wf(cg, res):
        reasons.append("result is not a valid derivation tree")
    if res.value != host.value:
        reasons.append("root label changed")
    rn = {(s.id, s.value) for _, s in res.paths()}
    lost = [(s.id, s.value) for _, s in host.paths() if (s.id, s.value) not in rn]
    if lost:
        reasons.append(f"host node lost: {lost[0]}")
    base = not reasons
    has_ins = any(teq(s, ins) for _, s in res.paths())
    if not has_ins:
        reasons.append("inserted tree is not a subtree of the result")
    return base and has_ins, base and (ins.id, ins.value) in rn, reasons


# --------------------------------------------------------------------------
# compact Gallina encoding: labels are interned, host / ins subtrees are named and shared
# (elaborating raw literals dominates the Coq time otherwise)
# --------------------------------------------------------------------------
PRELUDE = ("Definition Lf (l : str) (i : N) : tree := Node l i false [].\n"
           "Definition Op (l : str) (i : N) : tree := Node l i true [].\n"
           "Definition Nd (l : str) (i : N) (ks : list tree) : tree := Node l i false ks.\n")


class Enc:
    def __init__(self):
        self.syms, self.sym_defs, self.defs, self.orig = {}, [], [], {}

    def sym(self, s):
        if s not in self.syms:
            self.syms[s] = f"s{len(self.syms)}"
            self.sym_defs.append(f"Definition {self.syms[s]} : str := {g_str(s)}.")
        return self.syms[s]

    def node(self, t, nid, kids):
        if t.children is None:
            return f"(Op {self.sym(t.value)} {nid})"
        if not kids:
            return f"(Lf {self.sym(t.value)} {nid})"
        return f"(Nd {self.sym(t.value)} {nid} [{'; '.join(kids)}])"

    def define(self, t, tag=0):
        """name every node of an input tree (host / ins), children first; `tag` = record index: trees of
        different records may share ids (a later tree derived from an earlier one by replace_path)"""
        name = f"n{tag}_{t.id}"
        kids = [self.define(c, tag) for c in t.children or ()]
        self.orig[(tag, t.id)] = t
        self.defs.append(f"Definition {name} := {self.node(t, t.id, kids)}.")
        return name

    def enc(self, r, keep, tag=0):
        """(literal, unchanged?) of an output tree; ids outside `keep` are fresh -> 0"""
        o = self.orig.get((tag, r.id)) if r.id in keep else None
        ks = [self.enc(c, keep, tag) for c in r.children or ()]
        if (o is not None and o.value == r.value and (o.children is None) == (r.children is None)
                and len(o.children or ()) == len(ks)
                and all(k[1] and oc.id == c.id for k, oc, c in zip(ks, o.children or (), r.children or ()))):
            return f"n{tag}_{r.id}", True
        return self.node(r, r.id if r.id in keep else 0, [k[0] for k in ks]), False

    def text(self):
        return PRELUDE + "\n".join(self.sym_defs) + "\n" + "\n".join(self.defs) + "\n"


# --------------------------------------------------------------------------
# implementation side
# --------------------------------------------------------------------------
def graph_tables(gname, graph):
    cg = CANON[gname]
    nts = list(cg)
    ch, pb = [], []
    for a in nts:
        for b in nts:
            na, nb = graph.get_node(a), graph.get_node(b)
            if graph.reachable(na, nb):
                ch.append((a, b, [n.symbol for n in graph.shortest_non_trivial_path(na, nb)]))
            paths = list(EH.paths_between(graph, a, b))
            if paths:
                pb.append((a, b, paths))
    return ch, pb


def impl_insert(cg, graph, ins, host, maxn, m):
    try:
        rs = EH.insert_tree(cg, ins, host, graph=graph, max_num_solutions=maxn, methods=m)
    except Exception as e:  # the outcome is the observable
        return ("raise", lib.exn_name(e), repr(e)[:300])
    return ("ok", rs)


def nontrivial(graph, host, ins):
    nodes = host.paths()
    return len(nodes) >= 3 and any(
        is_nonterminal(s.value) and graph.reachable(graph.get_node(s.value), graph.get_node(ins.value))
        for _, s in nodes)


def load_findings():
    fs = lib.known_findings("C13")
    if not fs:
        p = os.path.join(lib.VERIF, "harness", "meta", "C13.findings.json")
        if os.path.exists(p):
            fs = [e for e in json.load(open(p)) if e["property"] == "C13"]
    return [e for e in fs if e.get("status") == "open"]


def run(run):
    rng = random.Random(run.seed)
    thorough = run.tier == "thorough"
    T.next_id = max(T.next_id, 1)   # id 0 is the model's marker for "fresh"
    run.cov["rule"] = (
        "7 grammars (assignment language, mini-XML, arithmetic, nullable/recursive, nested blocks, and two with terminals "
        "that look like nonterminals: <hr />, <a b>, <c d>, <br />, < >, <, >, <a as siblings in recursive expansions); hosts = random "
        "derivations from <start> (depth 2..6, both epsilon shapes), closed or with 1..3 inner nodes pruned to open "
        "leaves keeping ids; inserted trees = random derivations of a random nonterminal (closed or 30% open leaves); "
        "each base pair is followed in the SAME process by a derived pair (inserted tree refined by replace_path: same root id, "
        "other content; host refined half of the time), as the solver does; insert_tree called with the real GrammarGraph, max_num_solutions in {2,5,10,50}, for ALL 7 non-empty method "
        "masks; every returned tree goes through insertedb (proved = spec) in Coq, and the whole result list is "
        "compared with the Gallina model insert_tree; negative controls (a real result with one look-alike terminal leaf "
        "turned into an open leaf) must be rejected. non-trivial = host has >=3 nodes and the inserted root symbol "
        "is reachable (grammar graph) from the symbol of >=1 host node")
    proof_ok = run.proof_stage()
    findings = load_findings()
    ctx_finding = next((e for e in findings if e.get("class") == "K_ctx"), None)

    graphs = {k: GrammarGraph.from_grammar(g) for k, g in GRAMMARS.items()}
    tables = {k: graph_tables(k, graphs[k]) for k in GRAMMARS}

    def grammar_defs(gname, e):
        ch, pb = tables[gname]
        gl = "[" + "; ".join(
            f"({e.sym(k)}, {g_list(alts, lambda a: g_list(a, e.sym) if a else '(@nil str)')})"
            for k, alts in CANON[gname].items()) + "]"
        chs = [f"({e.sym(a)}, {e.sym(b)}, Some {g_list(c, e.sym)})" for a, b, c in ch]
        pbs = [f"({e.sym(a)}, {e.sym(b)}, {g_list(ps, lambda p: g_list(p, e.sym))})" for a, b, ps in pb]
        return (f"Definition G : grammar := {gl}.\n"
                f"Definition CH : graph_chain := lookup2 [{'; '.join(chs)}] None.\n"
                f"Definition PB : graph_paths := lookup2 [{'; '.join(pbs)}] [].\n")

    # ---- 0. replay the witnesses of open findings on the implementation ----
    for e in findings:
        w = e["witness"]
        cg, graph = CANON[w["grammar"]], graphs[w["grammar"]]
        host, ins = tree_from_json(w["host"]), tree_from_json(w["ins"])
        T.next_id = max(T.next_id, 1 + max(s.id for t in (host, ins) for _, s in t.paths()))
        o = impl_insert(cg, graph, ins, host, w.get("max", 50), w["methods"])
        if o[0] == "ok" and any(not spec_verdict(cg, host, ins, r)[0] and spec_verdict(cg, host, ins, r)[1] for r in o[1]):
            run.known(e["what"])

    # ---- 1. generated calls of insert_tree ----
    npairs = 280 if thorough else 49     # base pairs; each is followed by `chain_len` derived pairs
    chain_len = 2 if thorough else 1
    per_shard = 14  # quick: 14 records per grammar -> 7 coqc processes (+7 for path_to_tree) = one wave on 16 cores
    by_grammar = collections.defaultdict(list)   # gname -> list of pair records
    hist = collections.Counter()
    calls = 0
    impl_problems = []    # python-side verdicts, cross-checked with Coq below
    def do_calls(gname, host, ins, maxn, prev):
        """all 7 masks on one (host, ins); `prev` = the record this pair was derived from (same process,
        same GrammarGraph object: module-level state of the implementation carries over)"""
        nonlocal calls
        cg, graph = CANON[gname], graphs[gname]
        keep = {s.id for t in (host, ins) for _, s in t.paths()}
        nt_case = nontrivial(graph, host, ins)
        hist["host_open" if host.is_open() else "host_closed"] += 1
        hist["ins_open" if ins.is_open() else "ins_closed"] += 1
        rec = {"g": gname, "host": host, "ins": ins, "max": maxn, "outs": {}, "neg": {}, "prev": prev}
        for m in range(1, 8):
            o = impl_insert(cg, graph, ins, host, maxn, m)
            calls += 1
            run.count((gname, tree_json(host), tree_json(ins), maxn, m), nt_case)
            rec["outs"][m] = o
            if o[0] == "raise":
                hist["raise:" + o[1]] += 1
            else:
                hist[f"results_m{m}"] += len(o[1])
                hist["calls_with_results" if o[1] else "calls_without_results"] += 1
                if prev is not None:
                    hist[f"derived_results_m{m}"] += len(o[1])
                if gname in LOOKALIKE_GRAMMARS:
                    hist[f"lookalike_grammar_calls_m{m}"] += 1
                    with_la = [r for r in o[1] if any(lookalike(n.value) for _, n in r.paths())]
                    hist[f"results_with_lookalike_terminal_m{m}"] += len(with_la)
                    if with_la:
                        neg = open_one_lookalike(with_la[0])
                        if neg is not None:
                            rec["neg"][m] = neg
        rec["keep"] = keep
        by_grammar[gname].append(rec)
        return rec

    for it in range(npairs):
        gname = list(GRAMMARS)[it % len(GRAMMARS)]
        cg = CANON[gname]
        host = rand_deriv(rng, gname, "<start>", rng.randint(2, 6), eps_fuzzer=rng.random() < .5)
        host = prune(rng, host, rng.choice([0, 0, 1, 2, 3]))
        if len(host.paths()) > 45:
            host = prune(rng, rand_deriv(rng, gname, "<start>", 3), rng.choice([0, 1, 2]))
        nt = rng.choice([k for k in cg if k != "<start>"])
        ins = rand_deriv(rng, gname, nt, rng.randint(1, 3), open_prob=rng.choice([0, .3, .3]),
                         eps_fuzzer=rng.random() < .5)
        maxn = rng.choice([2, 5, 5, 10, 10, 50])
        rec = do_calls(gname, host, ins, maxn, None)
        if it < 3:
            run.sample({"grammar": gname, "host": str(host), "host_open": host.is_open(), "ins": str(ins),
                        "ins_root": ins.value, "max": maxn,
                        "n_results_by_mask": {m: (len(o[1]) if o[0] == "ok" else o[1]) for m, o in rec["outs"].items()}})
        # stateful stream: the next call's inserted tree (and, half of the time, host) is a refinement of this
        # call's, with the same ids (root id of the inserted tree unchanged, content changed)
        for step in range(chain_len):
            ins2 = refine(rng, gname, rec["ins"])
            if ins2 is None:
                hist["refine_failed"] += 1
                break
            host2 = rec["host"]
            if rng.random() < .5:
                host2 = refine(rng, gname, host2) or host2
            hist["derived_pairs"] += 1
            hist["derived_same_host" if host2 is rec["host"] else "derived_refined_host"] += 1
            rec = do_calls(gname, host2, ins2, maxn, rec)
            if hist["derived_pairs"] <= 2:
                run.sample({"grammar": gname, "derived_from_previous_call": True, "host": str(host2), "ins": str(ins2),
                            "ins_root_id_kept": ins2.id == rec["prev"]["ins"].id, "prev_ins": str(rec["prev"]["ins"])})
    run.cov["insert_tree_calls"] = calls
    run.cov["histogram"] = dict(hist)

    # ---- 2. encode: one shard per <= per_shard pairs of one grammar ----
    shards, smeta = [], []
    for gname, recs in by_grammar.items():
        for k in range(0, len(recs), per_shard):
            e = Enc()
            gdefs = grammar_defs(gname, e)
            rdefs = ""
            cs, ms = [], []
            for j, rec in enumerate(recs[k:k + per_shard]):
                hn, inn = e.define(rec["host"], j), e.define(rec["ins"], j)
                for m, o in rec["outs"].items():
                    if o[0] == "ok":
                        lit = "(Ok " + g_list([e.enc(r, rec["keep"], j)[0] for r in o[1]]) + ")"
                    else:
                        lit = f"(@Raise (list tree) {o[1]})"
                    rdefs += f"Definition R{j}_{m} : res (list tree) := {lit}.\n"
                    for mode in (0, 1, 2):
                        cs.append(f"({mode}%nat, ({m}%nat, {rec['max']}%nat, {inn}, {hn}, R{j}_{m}))")
                        ms.append((mode, m, rec))
                    if m in rec["neg"]:
                        rdefs += (f"Definition N{j}_{m} : res (list tree) := "
                                  f"(Ok [{e.enc(rec['neg'][m], rec['keep'], j)[0]}]).\n")
                        cs.append(f"(3%nat, ({m}%nat, {rec['max']}%nat, {inn}, {hn}, N{j}_{m}))")
                        ms.append((3, m, rec))
            shards.append((e.text() + gdefs + rdefs, cs))
            smeta.append(ms)
    ok_def = ("fun c : nat * (nat * nat * tree * tree * res (list tree)) => let '(mode, (m, mx, i, h, r)) := c in "
              "match mode with "
              "| 0 => match r with Ok rs => forallb (insertedb G h i) rs | Raise _ => false end "
              "| 1 => match r with Ok rs => forallb (fun t => insertedb G h i t || (K_ctx m && inserted_lossyb G h i t)) rs "
              "       | Raise _ => false end "
              "| 2 => res_eqb (list_eqb tree_eqb) (insert_tree G CH PB mx m i h) r "
              "| _ => match r with Ok rs => forallb (fun t => negb (wf_treeb G t) && negb (insertedb G h i t) "
              "                                               && negb (inserted_lossyb G h i t)) rs | Raise _ => false end end")
    strict_fail, lossy_fail, model_diff, neg_accepted = [], [], [], []
    # the path_to_tree shards (section 3) are evaluated concurrently with these
    import concurrent.futures as _cf
    _pool = _cf.ThreadPoolExecutor(max_workers=1)
    main_future = _pool.submit(lib.coq_run_shards, "c13a", "Insert", ok_def, shards)

    def finish_main():
        nonlocal_bad, dt = main_future.result()
        return nonlocal_bad, dt

    # ---- 3. path_to_tree on every chain of paths_between ----
    pshards, pmeta = [], []
    nptt = 0
    for gname in GRAMMARS:
        cs, ms = [], []
        e = Enc()
        gdefs = grammar_defs(gname, e)
        for a, b, paths in tables[gname][1]:
            for p in paths:
                try:
                    out = EH.path_to_tree(CANON[gname], p)
                    lit = "(Ok " + g_list([e.enc(t, set())[0] for t in out]) + ")"
                except Exception as ex:
                    lit = f"(@Raise (list tree) {lib.exn_name(ex)})"
                cs.append(f"({g_list(p, e.sym)}, {lit})")
                ms.append((gname, p))
                nptt += 1
                run.count(("ptt", gname, tuple(p)), len(p) >= 3)
        if cs:
            pshards.append((e.text() + gdefs, cs))
            pmeta.append(ms)
    run.cov["path_to_tree_cases"] = nptt
    ptt_diff = []
    try:
        bad, dt = lib.coq_run_shards(
            "c13b", "Insert",
            "fun c : list str * res (list tree) => res_eqb (list_eqb tree_eqb) (path_to_tree G (fst c)) (snd c)", pshards)
        run.cov["coq_seconds_path_to_tree"] = round(dt, 1)
        ptt_diff = [pmeta[k][i] for (k, i) in bad]
    except RuntimeError as e:
        run.violation({"kind": "correspondence-not-evaluable", "obligation": "Insert.v path_to_tree cases",
                       "error": str(e)[-2000:]}, found_input=False)

    try:
        bad, dt = finish_main()
        run.cov["coq_seconds_insert_tree"] = round(dt, 1)
        for (k, i) in bad:
            mode, m, rec = smeta[k][i]
            (strict_fail, lossy_fail, model_diff, neg_accepted)[mode].append((m, rec))
    except RuntimeError as e:
        run.violation({"kind": "correspondence-not-evaluable", "obligation": "Insert.v insert_tree cases",
                       "error": str(e)[-2000:]}, found_input=False)
    _pool.shutdown()

    # ---- 3b. premises of the totality theorems (Props/C13.v C13_insert_tree_total_tbl / _full_*) ----
    # oracle premises (closed_g, chain_ok, chain_start, chain_conn, pb_ok): evaluated in Coq by the verified
    # decider `oracle_okb` on the tables read off the real GrammarGraph of every grammar of the pool;
    # per-call premises (valid host / ins, unique ids, none of them 0): evaluated here.
    oe = Enc()
    odefs, oexprs = "", []
    for k, gname in enumerate(GRAMMARS):
        ch, pb = tables[gname]
        gl = "[" + "; ".join(
            f"({oe.sym(a)}, {g_list(alts, lambda x: g_list(x, oe.sym) if x else '(@nil str)')})"
            for a, alts in CANON[gname].items()) + "]"
        cts = "; ".join(f"({oe.sym(a)}, {oe.sym(b)}, {g_list(c, oe.sym)})" for a, b, c in ch)
        pts = "; ".join(f"({oe.sym(a)}, {oe.sym(b)}, {g_list(ps, lambda q: g_list(q, oe.sym))})" for a, b, ps in pb)
        odefs += (f"Definition G{k} : grammar := {gl}.\n"
                  f"Definition CT{k} : list (str * str * list str) := [{cts}].\n"
                  f"Definition PT{k} : list (str * str * list (list str)) := [{pts}].\n")
        oexprs.append(f"oracle_okb G{k} CT{k} PT{k}")
    oracle = {}
    try:
        out = lib.coq_eval("c13o", "Insert InsertFacts InsertTotalMore", "[" + "; ".join(oexprs) + "]",
                           oe.text() + odefs)
        mo = re.search(r"=\s*(\[[^\]]*\])\s*:\s*list bool", out)
        vals = re.findall(r"\b(true|false)\b", mo.group(1)) if mo else []
        if len(vals) != len(GRAMMARS):
            raise RuntimeError(out[-1500:])
        oracle = {g: v == "true" for g, v in zip(GRAMMARS, vals)}
    except RuntimeError as ex:
        run.violation({"kind": "oracle premises not evaluable", "error": str(ex)[-1500:],
                       "obligation": "InsertTotalMore.oracle_okb on the real GrammarGraph tables"}, found_input=False)
    run.cov["oracle_premises_hold"] = oracle
    bad_or = [g for g, v in oracle.items() if not v]
    if bad_or:
        run.violation({"kind": "an oracle premise of C13_insert_tree_total (closed_g / chain_ok / chain_start / chain_conn / "
                               "pb_ok) is false for the real GrammarGraph", "grammars": bad_or,
                       "obligation": "premises of Props/C13.v C13_insert_tree_total_tbl hold for the implementation's graph"},
                      found_input=False)
    inside = inside_ok = 0
    for recs in by_grammar.values():
        for rec in recs:
            ids_ = [s_.id for t_ in (rec["host"], rec["ins"]) for _, s_ in t_.paths()]
            prem = (oracle.get(rec["g"], False) and wf(CANON[rec["g"]], rec["host"]) and wf(CANON[rec["g"]], rec["ins"])
                    and len(set(ids_)) == len(ids_) and all(i_ >= 1 for i_ in ids_))
            for m, o in rec["outs"].items():
                if prem:
                    inside += 1
                    inside_ok += o[0] == "ok"
    run.cov["calls_inside_premises_of_total_theorem"] = inside
    run.cov["of_which_returned_a_list"] = inside_ok   # a call that raised is reported as VIOLATION below

    # ---- 4. classify ----
    def witness(m, rec, extra=None):
        cg = CANON[rec["g"]]
        o = rec["outs"][m]
        w = {"grammar": rec["g"], "methods": m, "max": rec["max"], "host": tree_json(rec["host"]),
             "ins": tree_json(rec["ins"]), "host_str": str(rec["host"]), "ins_str": str(rec["ins"])}
        if o[0] == "raise":
            w["impl"] = {"raise": o[1], "repr": o[2]}
        else:
            bad = [(r, spec_verdict(cg, rec["host"], rec["ins"], r)) for r in o[1]]
            bad = [(r, v) for r, v in bad if not v[0]]
            w["impl"] = {"results": len(o[1]), "rejected": len(bad)}
            if bad:
                w["first_rejected"] = {"tree": tree_json(bad[0][0]), "str": str(bad[0][0]), "reasons": bad[0][1][2],
                                       "lossy_accepts": bad[0][1][1]}
        hist_, q = [], rec.get("prev")
        while q is not None:
            hist_.append({"host": tree_json(q["host"]), "ins": tree_json(q["ins"]), "max": q["max"]})
            q = q.get("prev")
        if hist_:
            w["history"] = hist_[::-1]   # earlier calls of the same process (all 7 masks each), oldest first
        if extra:
            w.update(extra)
        return w

    # negative controls: a real result in which one look-alike terminal leaf was turned into an OPEN leaf
    # must be rejected by wf_treeb / insertedb / inserted_lossyb (Coq) and by the python reference
    nneg = 0
    for recs in by_grammar.values():
        for rec in recs:
            for m, neg in rec["neg"].items():
                nneg += 1
                v = spec_verdict(CANON[rec["g"]], rec["host"], rec["ins"], neg)
                if v[0] or v[1] or wf(CANON[rec["g"]], neg):
                    neg_accepted.append((m, rec))
    run.cov["negative_controls_open_terminal"] = nneg
    if neg_accepted:
        m, rec = neg_accepted[0]
        run.violation({"kind": "acceptance procedure accepts a tree with an OPEN terminal node (negative control)",
                       "grammar": rec["g"], "methods": m, "tree": tree_json(rec["neg"][m]),
                       "obligation": "Insert.insertedb / Grammar.wf_treeb / harness spec_verdict reject open terminals"},
                      found_input=False)
    if not thorough and nneg < 20:
        run.violation({"kind": "too few negative controls / look-alike terminals not exercised", "count": nneg,
                       "obligation": "harness/c13.py generators (html, angle grammars)"}, found_input=False)
    run.cov["disagreements_checked"] = len(strict_fail) + len(model_diff) + len(ptt_diff)
    known_hits = 0
    reported = False
    lossy_keys = {(m, id(rec)) for m, rec in lossy_fail}
    # (a) acceptance failures outside the recorded class (or of another divergence kind) -> VIOLATION
    lossy_fail.sort(key=lambda x: len(json.dumps(tree_json(x[1]["host"]))) + len(json.dumps(tree_json(x[1]["ins"]))))
    if lossy_fail:
        m, rec = lossy_fail[0]
        run.violation({"kind": "insert_tree result violates the property (not accepted by insertedb)",
                       "witness": witness(m, rec), "all_failing_calls": len(lossy_fail),
                       "theorem": "Props/C13.v C13_insertedb_spec (insertedb = inserted) + acceptance",
                       "how_to_replay": "./check C13 --replay <this file>"})
        reported = True
    # (b) acceptance failures inside the recorded class
    for m, rec in strict_fail:
        if (m, id(rec)) in lossy_keys:
            continue
        if ctx_finding is not None and (m & 4):
            known_hits += 1
            run.known(ctx_finding["what"])
        else:
            run.violation({"kind": "insert_tree result loses the inserted tree (class K_ctx) but no open finding records it",
                           "witness": witness(m, rec), "how_to_replay": "./check C13 --replay <this file>"})
            reported = True
    run.cov["known_finding_hits"] = known_hits
    # python reference and Coq must agree on the verdicts (guards the harness itself)
    py_strict = set()
    for recs in by_grammar.values():
        for rec in recs:
            for m, o in rec["outs"].items():
                if o[0] == "raise" or any(not spec_verdict(CANON[rec["g"]], rec["host"], rec["ins"], r)[0] for r in o[1]):
                    py_strict.add((m, id(rec)))
    coq_strict = {(m, id(rec)) for m, rec in strict_fail}
    if py_strict != coq_strict and not reported:
        d = list(py_strict ^ coq_strict)[0]
        rec = next(r for recs in by_grammar.values() for r in recs if id(r) == d[1])
        run.violation({"kind": "python reference of the spec and Coq insertedb disagree", "first": witness(d[0], rec),
                       "obligation": "harness/c13.py spec_verdict <-> Insert.insertedb"}, found_input=False)
        reported = True
    # (c) model differs from implementation although every result is acceptable
    if (model_diff or ptt_diff) and not reported:
        if model_diff:
            m, rec = min(model_diff, key=lambda x: len(str(x[1]["host"])) + len(str(x[1]["ins"])))
            first = witness(m, rec)
            e = Enc()
            gd = grammar_defs(rec["g"], e)
            hn, inn = e.define(rec["host"]), e.define(rec["ins"])
            first["model"] = lib.coq_eval("c13m", "Insert", f"insert_tree G CH PB {rec['max']} {m} {inn} {hn}",
                                          e.text() + gd)[-3000:]
            if rec["outs"][m][0] == "ok":
                first["impl_results"] = [str(r) for r in rec["outs"][m][1]]
        else:
            first = {"path_to_tree": ptt_diff[0][0], "chain": list(ptt_diff[0][1])}
        run.violation({"kind": "correspondence broken but every result satisfies the property",
                       "first": first, "model_diffs": len(model_diff), "ptt_diffs": len(ptt_diff),
                       "obligation": "correspondence Insert.v insert_tree/path_to_tree <-> existential_helpers.py"},
                      found_input=False)
    if not proof_ok:
        run.violation({"kind": "proof obligation failed", "problems": run.proof_problems,
                       "obligation": "Props/C13.v"}, found_input=False)
    run.cov["trusted_base"] = lib.TRUSTED_BASE_COMMON + [
        "grammar_graph (reachable, shortest_non_trivial_path, paths_between) enters the model as tables read off the real "
        "GrammarGraph; the theorems assume only that consecutive chain symbols are connected in the grammar",
        "fresh node ids are erased to 0 on both sides (has_unique_ids assertions are not modelled)",
        "structural_hash equality modelled as structural equality (PYTHONHASHSEED=0, no collisions observed)",
        "DerivationTree.replace_path / paths / find_node modelled structurally (covered by this correspondence)"]


def replay(path):
    d = json.load(open(path))
    w = d.get("witness")
    if not w:
        print("replay file names an obligation, not an input:", d.get("obligation"))
        return 1
    cg = CANON[w["grammar"]]
    graph = GrammarGraph.from_grammar(GRAMMARS[w["grammar"]])
    host, ins = tree_from_json(w["host"]), tree_from_json(w["ins"])
    T.next_id = max(T.next_id, 1 + max(s.id for t in (host, ins) for _, s in t.paths()))
    # the calls that preceded the failing one in the same process (the implementation may keep state)
    for h in w.get("history", []):
        hh, hi = tree_from_json(h["host"]), tree_from_json(h["ins"])
        for m in range(1, 8):
            impl_insert(cg, graph, hi, hh, h.get("max", 50), m)
    for m in range(1, w["methods"]):
        impl_insert(cg, graph, ins, host, w.get("max", 50), m)
    o = impl_insert(cg, graph, ins, host, w.get("max", 50), w["methods"])
    if o[0] == "raise":
        print("impl raises", o[1], o[2])
        return 1
    rc = 0
    for r in o[1]:
        strict, lossy, reasons = spec_verdict(cg, host, ins, r)
        print(("ok      " if strict else "REJECTED"), str(r), reasons)
        if not strict:
            rc = 1
    return rc
