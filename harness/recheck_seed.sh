#!/bin/bash
# recheck_seed.sh <name>  — re-run the (strengthened) quick check against an already confirmed seed
NAME=$1; PROP=${NAME%%-*}
WT=/tmp/recheck-$NAME; OUT=/verif/seeded/$NAME
git -C /repo worktree remove --force $WT >/dev/null 2>&1
git -C /repo worktree add -f $WT HEAD >/dev/null 2>&1 || exit 2
cd $WT && (git apply $OUT/patch.diff 2>/dev/null || git apply -3 $OUT/patch.diff) || { echo "patch does not apply" > $OUT/check_summary2.txt; git -C /repo worktree remove --force $WT; exit 2; }
(cd /verif && VERIF_REPO=$WT timeout 3600 ./check $PROP --tier quick > $OUT/check2.log 2>&1; echo "check_exit=$?" >> $OUT/check2.log)
grep -E "^VIOLATION|check_exit|^\[$PROP\]" $OUT/check2.log > $OUT/check_summary2.txt
mkdir -p $OUT/replays; for r in $(grep -o "replay=[^ ]*" $OUT/check2.log | cut -d= -f2); do cp $r $OUT/replays/ 2>/dev/null; done
tail -c 3000 $OUT/check2.log > $OUT/check2_tail.log; rm -f $OUT/check2.log
cd /; git -C /repo worktree remove --force $WT
cat $OUT/check_summary2.txt | tail -2
