#!/usr/bin/env python3
"""write seeded/<name>/meta.json from the seeding agent's meta, the confirmation and the check runs"""
import json, os, glob, re
V = os.path.dirname(os.path.dirname(os.path.abspath(__file__)))
first = json.load(open(os.path.join(V, "seeded/first_results.json"))) if os.path.exists(os.path.join(V, "seeded/first_results.json")) else {}

def summarize(path):
    if not os.path.exists(path):
        return None
    t = open(path).read()
    if "patch does not apply" in t:
        return {"exit": None, "note": "patch does not apply"}
    v = len(re.findall(r"^VIOLATION", t, re.M)); nf = t.count("no-failing-input-found")
    ex = re.search(r"check_exit=(\d+)", t)
    return {"violations": v, "no_failing_input": nf, "exit": int(ex.group(1)) if ex else None}

def verdict(r):
    if r is None or r.get("exit") is None:
        return "not run"
    if r["exit"] == 0:
        return "MISSED (exit 0, no VIOLATION)"
    kind = "(input)" if r["violations"] > r["no_failing_input"] else "(no-input)"
    return f"CAUGHT {kind}: exit 1, {r['violations']} VIOLATION line(s)"

for d in sorted(glob.glob(os.path.join(V, "seeded/C*-*"))):
    name = os.path.basename(d); prop = name.split("-")[0]
    conf = os.path.join(d, "confirm.txt")
    if not os.path.exists(conf):
        continue
    agent = {}
    for cand in ("meta_agent.json",):
        if os.path.exists(os.path.join(d, cand)):
            agent = json.load(open(os.path.join(d, cand)))
    old = json.load(open(os.path.join(d, "meta.json"))) if os.path.exists(os.path.join(d, "meta.json")) else {}
    r1 = summarize(os.path.join(d, "check_summary.txt")) or first.get(name)
    r2 = summarize(os.path.join(d, "check_summary2.txt"))
    if name.startswith("C04") and r1 is None:
        res = old.get("check_result", "CAUGHT (input)")
    elif r2 is not None:
        res = f"first run: {verdict(r1)}; after strengthening the check: {verdict(r2)}"
    else:
        res = verdict(r1)
    meta = {
        "property": prop,
        "summary": agent.get("summary") or old.get("summary", ""),
        "needs": agent.get("needs") or old.get("needs", ""),
        "origin": "independent sub-agent given only the property text and its own scratch worktree of /repo",
        "agent_tests_run": agent.get("tests_run", ""),
        "rebased": agent.get("rebased", ""),
        "confirmed": open(conf).read().strip(),
        "what_i_ran": "harness/confirm_seed.sh: scratch worktree of /repo HEAD, patch applied (git apply / git apply -3); demo.py exits 0 unchanged and 1 changed; full pinned suite (always-failing test_mutate_assignment deselected: it can hang 900 s) compared with BASELINE stable_pass, load-flaky Z3-timeout tests re-run alone; then VERIF_REPO=<worktree> ./check %s --tier quick (harness/recheck_seed.sh for re-runs)" % prop,
        "check_result": res,
    }
    json.dump(meta, open(os.path.join(d, "meta.json"), "w"), indent=1)
print("ok")
