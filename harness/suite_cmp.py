#!/usr/bin/env python3
"""compare a junit xml against BASELINE.json stable_pass: print stable tests that did not pass"""
import sys, json, xml.etree.ElementTree as ET
b = json.load(open('/root/.vp/BASELINE.json'))
stable = set(b['stable_pass'])
root = ET.parse(sys.argv[1]).getroot()
passed = set()
for tc in root.iter('testcase'):
    name = tc.get('classname') + '::' + tc.get('name')
    ok = not any(ch.tag in ('failure', 'error', 'skipped') for ch in tc)
    if ok: passed.add(name)
missing = sorted(stable - passed)
print('stable', len(stable), 'passed-of-stable', len(stable & passed), 'missing', len(missing))
for m in missing: print('  NOT PASSING:', m)
sys.exit(1 if missing else 0)
