"""C10 — Earley parser: correspondence of Grammar/Earley.v with isla.parser.EarleyParser
(parse / parse_on) and ISLaSolver.parse, plus direct evaluation of the property with
spec-side oracles.

Per generated grammar G and EVERY string w up to length n over G's alphabet (+ one foreign char):
  kind 0 (correspondence): model outcome (first <= 8 trees in order | exception kind)
                           == implementation outcome                     [in Coq, vm_compute]
  kind 1 (property, Coq):  every returned tree t has wf_treeb G t, closed, lbl t = nt, yield t = w
                           (verified checker wf_treeb_spec / wf_closed_yield)  [in Coq]
  kind 2 (property, Coq):  proved-sound membership procedure Lb on all strings of length <= 2: an accepted
                           string must have Lb = true (a PROOF of membership; fuel = height bound
                           |N|*(|w|+1)+2 of an acyclic grammar), a rejected one must not have Lb = true at
                           the small fuel (Lb = false is not a proof of non-membership)
  kind 3 (hypothesis):     forest_totalb holds on the chart of every EarleyParser.parse case (the
                           run-time-checked hypothesis of theorem C10_parse_sound_partial)
  stateful stream (mode 3): per grammar ONE EarleyParser object, groups of 2-3 accepted inputs, one lazy
                           parse() generator each, trees pulled round-robin; each generator's outcome goes
                           through kinds 0 and 1 like a fresh parse of its input
  python reference (all cases): accept <-> w in L(G, nt) by an independent least-fixpoint
                           recogniser; trees checked again by a python transcription of wf_tree.
The model mirrors the two recorded defects (K_multistart, K_recstart) in pinned and repaired form;
which form the tree under test has is determined by replaying the witnesses of
harness/meta/C10.findings.json (an entry with status "fixed" forces the repaired form)."""
import itertools, json, os, random, re
import lib
from lib import g_str, g_nat, g_grammar, g_bool
from isla.parser import EarleyParser, canonical
from isla.solver import ISLaSolver

START = "<start>"
NT_RE = re.compile(r"<[^<> ]*>")
MAXTREES = 8


# ----------------------------------------------------------------------------------------------
# python-side reference of the SPEC (independent of parser.py): languages and valid trees
# ----------------------------------------------------------------------------------------------
def is_nt(s):
    return NT_RE.match(s) is not None


def lang_table(cg, w):
    """least fixpoint of {(A,i,j) | A =>* w[i:j]} over the canonical grammar cg"""
    n = len(w)
    T = set()

    def ends(alt, i):
        pos = {i}
        for sym in alt:
            if is_nt(sym):
                pos = {j for p in pos for j in range(p, n + 1) if (sym, p, j) in T}
            else:
                pos = {p + len(sym) for p in pos if w.startswith(sym, p)}
            if not pos:
                break
        return pos

    changed = True
    while changed:
        changed = False
        for A, alts in cg.items():
            for alt in alts:
                for i in range(n + 1):
                    for j in ends(alt, i):
                        if (A, i, j) not in T:
                            T.add((A, i, j)); changed = True
    return T


def in_lang(cg, A, w):
    return (A, 0, len(w)) in lang_table(cg, w)


def tree_valid(cg, t):
    name, ch = t
    if not is_nt(name):
        return not ch
    if name not in cg:
        return False
    if [c[0] for c in ch] not in [list(a) for a in cg[name]]:
        return False
    return all(tree_valid(cg, c) for c in ch)


def tree_string(t):
    name, ch = t
    if not ch:
        return "" if is_nt(name) else name
    return "".join(tree_string(c) for c in ch)


def nullable_set(cg):
    N = set()
    ch = True
    while ch:
        ch = False
        for A, alts in cg.items():
            if A not in N and any(all(s in N for s in a) for a in alts):
                N.add(A); ch = True
    return N


def specialised(cg, nt):
    """the canonical grammar ISLaSolver.parse(inp, nt) hands to the parser"""
    if nt == START:
        return cg
    g2 = dict(cg); g2[START] = [[nt]]
    seen, todo = {START}, [START]
    while todo:
        for a in g2.get(todo.pop(), []):
            for x in a:
                if is_nt(x) and x not in seen:
                    seen.add(x); todo.append(x)
    return {k: v for k, v in g2.items() if k in seen}


def infinitely_ambiguous(cg):
    """some A =>+ A (cyclic unit / nullable derivation)"""
    N = nullable_set(cg)
    edges = {A: set() for A in cg}
    for A, alts in cg.items():
        for a in alts:
            for i, s in enumerate(a):
                if s in cg and all(x in N for k, x in enumerate(a) if k != i):
                    edges[A].add(s)
    # cycle detection
    color = {}
    def dfs(u):
        color[u] = 1
        for v in edges[u]:
            if color.get(v) == 1 or (v not in color and dfs(v)):
                return True
        color[u] = 2
        return False
    return any(u not in color and dfs(u) for u in cg)


# ----------------------------------------------------------------------------------------------
# generators
# ----------------------------------------------------------------------------------------------
FIXED = [
    {START: ["<e>"], "<e>": ["<e>+<e>", "a"]},                               # ambiguous, left+right rec
    {START: ["<s>"], "<s>": ["<a><a><a><a>"], "<a>": ["a", "<e>"], "<e>": [""]},   # Aycock-Horspool
    {START: ["<a><b>"], "<a>": ["", "a<a>"], "<b>": ["", "<b>b"]},           # nullable, left/right rec
    {START: ["<l>"], "<l>": ["<l>ab", "ab", "a"]},                           # multi-char terminals
    {START: ["<a>"], "<a>": ["x<start>z", "y"]},                             # K_recstart witness
    {START: ["<a>"], "<a>": ["x<start>", "y"]},                              # K_recstart, string differs
    {START: ["a", "b<start>"]},                                              # K_multistart (+recstart)
    {START: ["<a>", "<b>"], "<a>": ["a"], "<b>": ["b", ""]},                 # K_multistart
    {START: ["<a><b><c>"], "<a>": ["", "a"], "<b>": ["<c>", "b"], "<c>": ["", "c<c>"]},
    {START: ["<x>"], "<x>": ["<y>a", "b"], "<y>": ["<x>", ""]},             # hidden left recursion
    {START: ["<a>;<a>"], "<a>": ["é", " <a>", ""]},                          # non-ascii, space
    {START: ["<p>"], "<p>": ["a<p>a", "b<p>b", "a", "b", ""]},               # palindromes
]


def rand_grammar(rng):
    nts = [START] + rng.sample(["<a>", "<b>", "<c>"], rng.randint(1, 3))
    pool = rng.sample(list("ab0 ;é>"), rng.randint(2, 3))
    eps_p = rng.choice([0.0, 0.15, 0.3])
    g = {}
    for A in nts:
        if A == START:
            nalt = 1 if rng.random() < 0.85 else 2
        else:
            nalt = rng.randint(1, 3)
        alts = []
        for _ in range(nalt):
            if A != START and rng.random() < eps_p:
                alts.append(""); continue
            syms = []
            for _ in range(rng.randint(1, 3)):
                if rng.random() < 0.5:
                    syms.append("".join(rng.choice(pool) for _ in range(rng.choice([1, 1, 2]))))
                else:
                    cands = nts[1:] if rng.random() < 0.93 else nts
                    syms.append(rng.choice(cands))
            alts.append("".join(syms))
        # duplicates removed (a python dict/list grammar may contain them, but they only
        # duplicate trees); keep order
        seen = []
        for a in alts:
            if a not in seen:
                seen.append(a)
        g[A] = seen
    return g


LIST_FIXED = [
    # the shape that let a seeded change slip through (seeded/C10-2): left-recursive separator list whose
    # element is nullable and predicted again at its own end
    {START: ["<list>"], "<list>": ["<list>,<word>", "<word>"], "<word>": ["", "<letter><word>"], "<letter>": ["a", "b"]},
    {START: ["<l>"], "<l>": ["<l>,<w>", "<w>"], "<w>": ["", "a<w>"]},
    {START: ["<l>"], "<l>": ["<w>;<l>", "<w>"], "<w>": ["", "<w>a"]},                       # right-recursive list
    {START: ["<l>"], "<l>": ["<l>,<l>", "<w>"], "<w>": ["", "a"]},                           # ambiguous list
    {START: ["<l>"], "<l>": ["<l>,<i>", "<i>"], "<i>": ["<i>;<x>", "<x>"], "<x>": ["", "a"]},  # nested lists
    {START: ["[<l>]"], "<l>": ["<l>a<w>", "<w>"], "<w>": ["", "a<w>", "[<l>]"]},             # separator = element letter
]


def list_grammar(rng):
    """separator lists: left/right/ambiguous recursion x nullable/recursive/nested elements"""
    sep = rng.choice([",", ";", " ", ", ", "a", ","])
    letters = rng.sample(["a", "b", "0"], rng.randint(1, 2))
    X = rng.choice(letters)
    Y = rng.choice(letters)
    g = {}
    kind = rng.choice(["null_rr", "null_lr", "opt", "plain", "nested_br", "nested_list", "letters_nt", "null_rr"])
    if kind == "null_rr":
        g["<w>"] = ["", X + "<w>"] + ([Y + "<w>"] if Y != X else [])
    elif kind == "null_lr":
        g["<w>"] = ["", "<w>" + X]
    elif kind == "opt":
        g["<w>"] = ["", X]
    elif kind == "plain":
        g["<w>"] = [X, X + Y]
    elif kind == "nested_br":
        g["<w>"] = ["", X, "(<l>)"]
    elif kind == "nested_list":
        sep2 = ";" if sep != ";" else "."
        g["<w>"] = ["<w>" + sep2 + "<x>", "<x>"] if rng.random() < 0.5 else ["<x>" + sep2 + "<w>", "<x>"]
        g["<x>"] = ["", X] if rng.random() < 0.7 else ["", X + "<x>"]
    else:
        g["<w>"] = ["", "<c><w>"]
        g["<c>"] = sorted(set(letters))
    dirn = rng.choice(["left", "left", "right", "both", "left_eps"])
    if dirn == "left":
        g["<l>"] = ["<l>" + sep + "<w>", "<w>"]
    elif dirn == "right":
        g["<l>"] = ["<w>" + sep + "<l>", "<w>"]
    elif dirn == "both":
        g["<l>"] = ["<l>" + sep + "<l>", "<w>"]
    else:
        g["<l>"] = ["<l>" + sep + "<w>", "<w>" + sep, "<w>"]
    start = rng.choice(["<l>", "<l>", "<l>", "[<l>]", "<l>" + sep, "<l>", "<w>" + sep + "<l>"])
    out = {START: [start]}
    if rng.random() < 0.15:
        out[START].append(X)      # several alternatives for <start>
    for k in ["<l>", "<w>", "<x>", "<c>"]:
        if k in g:
            out[k] = g[k]
    return out


def sample_members(cg, rng, want, minlen, maxlen):
    """random members of L(cg, <start>) with minlen <= length <= maxlen (random leftmost derivations)"""
    found = []
    for _ in range(60 * want):
        form, out, steps = [START], "", 0
        while form and steps < 60 and len(out) <= maxlen:
            steps += 1
            x = form.pop(0)
            if x in cg:
                alts = cg[x]
                # prefer short alternatives when the sentential form is already long
                a = rng.choice(alts) if len(form) < 4 else min(alts, key=len)
                form = list(a) + form
            else:
                out += x
        if not form and minlen <= len(out) <= maxlen and out not in found:
            found.append(out)
            if len(found) >= want:
                break
    return found


def corpus_cases():
    """corpus/C10/*.json: witnesses of fixed findings and of past misses, always run first"""
    d = os.path.join(lib.VERIF, "corpus", "C10")
    res = []
    if os.path.isdir(d):
        for f in sorted(os.listdir(d)):
            if f.endswith(".json"):
                c = json.load(open(os.path.join(d, f)))
                res.append((c["grammar"], {"maxlen": c.get("maxlen", 3), "extra": c.get("inputs", []),
                                           "corpus": f, "alphabet": c.get("alphabet")}))
    return res


def acceptable(g):
    cg = canonical(g)
    for A, alts in cg.items():
        for a in alts:
            for s in a:
                if is_nt(s) and s not in cg:
                    return False
    # every nonterminal reachable from <start> (what ISLaSolver's grammar validation expects)
    seen, todo = {START}, [START]
    while todo:
        for a in cg[todo.pop()]:
            for x in a:
                if is_nt(x) and x not in seen:
                    seen.add(x); todo.append(x)
    if seen != set(cg):
        return False
    return not infinitely_ambiguous(cg)


def alphabet(cg):
    cs = []
    for alts in cg.values():
        for a in alts:
            for s in a:
                if not is_nt(s):
                    for c in s:
                        if c not in cs:
                            cs.append(c)
    return cs


# ----------------------------------------------------------------------------------------------
# implementation runners + encoders
# ----------------------------------------------------------------------------------------------
def g_ptree(t):
    name, ch = t
    ks = "[]" if not ch else "[" + "; ".join(g_ptree(c) for c in ch) + "]"
    return f"(Node {g_str(name)} 0%N false {ks})"


def jt(t):
    return [t[0], [jt(c) for c in (t[1] or [])]]


def unjt(j):
    return (j[0], [unjt(c) for c in j[1]])


def impl_parse(g, w, nt=None):
    """EarleyParser(g).parse(w) / .parse_on(w, nt): ('ok', [first <=8 trees]) | ('raise', kind)"""
    try:
        p = EarleyParser(g)
        it = p.parse(w) if nt is None else p.parse_on(w, nt)
        return ("ok", list(itertools.islice(it, MAXTREES)))
    except Exception as e:      # the outcome is the observable
        return ("raise", lib.exn_name(e))


def impl_interleaved(parser, group):
    """ONE EarleyParser object, one lazy parse() generator per input of `group`, all open at the same time;
    trees are pulled round-robin (first tree of w1, first of w2, ..., second of w1, ...).
    Result: per input the outcome ('ok', first <=8 trees) | ('raise', kind), as for a fresh parser."""
    gens = [parser.parse(w) for w in group]
    out = [("ok", []) for _ in group]
    live = [True] * len(group)
    for _ in range(MAXTREES):
        for i, gen in enumerate(gens):
            if not live[i]:
                continue
            try:
                out[i][1].append(next(gen))
            except StopIteration:
                live[i] = False
            except Exception as e:      # the outcome is the observable
                live[i] = False
                out[i] = ("raise", lib.exn_name(e)) if not out[i][1] else ("raise_after_trees", lib.exn_name(e))
    for gen in gens:
        gen.close()
    return out


def interleave_groups(cases, rng, ngroups):
    """groups of 2-3 distinct accepted inputs of EarleyParser.parse, an ambiguous one first, preferably of
    the same length (a stale chart of another length mostly crashes, one of the same length silently lies)"""
    acc = [(w, o) for (mode, nt, w, o) in cases if mode == 0 and o[0] == "ok"]
    amb = [w for w, o in acc if len(o[1]) > 1]
    allw = [w for w, _ in acc]
    groups = []
    firsts = amb[:] if amb else allw[:]
    rng.shuffle(firsts)
    for w1 in firsts:
        if len(groups) >= ngroups:
            break
        same = [w for w in allw if w != w1 and len(w) == len(w1)]
        other = [w for w in allw if w != w1 and len(w) != len(w1)]
        rest = (rng.sample(same, min(2, len(same))) + rng.sample(other, min(1, len(other))))[:2]
        if rest:
            groups.append([w1] + rest)
    return groups


def impl_solver_parse(solver, w, nt):
    try:
        t = solver.parse(w, nt, skip_check=True, silent=True)
        return ("ok", [t.to_parse_tree()])
    except Exception as e:
        return ("raise", lib.exn_name(e))


def g_outcome(o):
    if o[0] == "ok":
        return "(Ok [" + "; ".join(g_ptree(t) for t in o[1]) + "])"
    return f"(Raise {o[1]})"


FUEL_CAP = 4500


def fuel_uncapped(cg, n):
    """Coq: EarleyHarnessFuel.harness_fuel (C10_harness_fuel_ok: >= fuel_bound (cgram cg _) m for m <= n)"""
    items = sum(len(a) + 1 + sum(len(s) for s in a) for alts in cg.values() for a in alts) + 4
    return items * (n + 2) + 20


def fuel_for(cg, n):
    return min(FUEL_CAP, fuel_uncapped(cg, n))


# ----------------------------------------------------------------------------------------------
# known findings
# ----------------------------------------------------------------------------------------------
def findings():
    p = os.path.join(lib.VERIF, "harness", "meta", "C10.findings.json")
    own = json.load(open(p)) if os.path.exists(p) else []
    merged = {e["key"]: e for e in own}
    for e in lib.known_findings("C10"):
        merged[e["key"]] = e      # the generated file wins (coordinator may flip status to fixed)
    return merged


def probe_flags(run, fnd):
    """which form (pinned/repaired) of the two modelled spots does the tree under test have?"""
    flags = {}
    for key, flag in (("multistart", "fxA"), ("recstart", "fxB")):
        e = fnd.get(key)
        if e is None or e.get("status") == "fixed":
            flags[flag] = True
            continue
        w = e["witness"]
        o = impl_parse(w["grammar"], w["input"])
        # multistart: the recorded exception kind; recstart: the non-member is accepted at all
        present = (o == ("raise", w["impl_raises"])) if "impl_raises" in w else (o[0] == "ok")
        flags[flag] = not present
        if present:
            run.known(e["what"])
    e = fnd.get("solver-startoverride")
    if e and e.get("status") == "open":
        w = e["witness"]
        try:
            o = impl_solver_parse(ISLaSolver(w["grammar"]), w["input"], w["nonterminal"])
        except Exception:
            o = ("raise", "OtherErr")
        if o[0] == "ok":
            run.known(e["what"])
    return flags


def K_multistart(cg, nt):
    return len(cg.get(nt, [])) != 1


def K_recstart(cg, nt):
    return any(nt in a for alts in cg.values() for a in alts)


# ----------------------------------------------------------------------------------------------
def property_at(cg, nt, w, o, tabs=None):
    """evaluate C10 at one input on the implementation's outcome. None = holds, else text.
    tabs: optional cache  w -> lang_table(cg, w)  shared by the cases of one grammar"""
    if tabs is None:
        member = in_lang(cg, nt, w) if nt in cg else False
    else:
        if w not in tabs:
            tabs[w] = lang_table(cg, w)
        member = (nt, 0, len(w)) in tabs[w]
    if o[0] == "raise":
        if o[1] != "SyntaxErr":
            return f"raises {o[1]} (neither a tree nor SyntaxError); member={member}"
        return "rejects a member of the language" if member else None
    if not o[1]:
        return "accepted but no tree yielded"
    if not member:
        return "accepts a non-member"
    for t in o[1]:
        if t[0] != nt:
            return "root label differs from the requested nonterminal"
        if not tree_valid(cg, t):
            return "returned tree is not a derivation tree of the grammar"
        if tree_string(t) != w:
            return "returned tree spells a different string"
    return None


def classify_known(cg, nt, w, o, why, flags, fnd, mode=0):
    """a property failure that belongs to an open known-finding class -> its entry"""
    e = fnd.get("multistart")
    if e and e.get("status") == "open" and not flags["fxA"] and K_multistart(cg, nt) and \
            (o == ("raise", "TypeErr") or (len(cg.get(nt, [1])) == 0)):
        return e
    e = fnd.get("recstart")
    if e and e.get("status") == "open" and not flags["fxB"] and K_recstart(cg, nt) and o[0] == "ok" and \
            ("non-member" in why or "different string" in why):
        return e
    e = fnd.get("solver-startoverride")
    if e and e.get("status") == "open" and mode == 2 and nt != START and K_recstart(cg, START) and \
            ("non-member" in why or "rejects a member" in why or "not a derivation tree" in why):
        return e
    return None


def build_cases(run, rng, thorough):
    """[(grammar, opts)]: corpus first, fixed families, separator-list family, random CFGs"""
    N = 6 if thorough else 4
    out = corpus_cases()
    have = [g for g, _ in out]
    for g in FIXED:
        if g not in have:
            out.append((dict(g), {"maxlen": N})); have.append(g)
    for g in LIST_FIXED:
        if g not in have:
            out.append((dict(g), {"maxlen": 5, "list": True})); have.append(g)
    want_list = 60 if thorough else 10
    tries = n = 0
    while n < want_list and tries < 10000:
        tries += 1
        g = list_grammar(rng)
        if acceptable(g) and g not in have:
            out.append((g, {"maxlen": 5, "list": True})); have.append(g); n += 1
    want = 340 if thorough else 28
    tries = n = 0
    while n < want and tries < 100000:
        tries += 1
        g = rand_grammar(rng)
        if acceptable(g) and g not in have:
            out.append((g, {"maxlen": N})); have.append(g); n += 1
    return out


def run(run):
    rng = random.Random(run.seed)
    thorough = run.tier == "thorough"
    N = 6 if thorough else 4
    run.cov["rule"] = (
        "grammars: corpus/C10 (witnesses of fixed findings and of a missed seeded change, with their recorded inputs) + "
        "12 fixed (ambiguity, Aycock-Horspool nullables, hidden left recursion, multi-character and non-ASCII terminals, "
        "the recorded defect classes) + 6 fixed and "
        f"{60 if thorough else 10} generated SEPARATOR-LIST grammars (left / right / ambiguous recursion x nullable, "
        "left- or right-recursive, optional, bracket-nested or list-nested elements, separator possibly equal to an element "
        "letter or multi-character, several <start> alternatives) + "
        f"{340 if thorough else 28} random CFGs (2-4 nonterminals, 1-3 alternatives of 1-3 symbols, epsilon rate 0/.15/.3, "
        "1-2 character terminals, <start> with 2 alternatives in 15%, <start> on a right-hand side occasionally); cyclic "
        "unit/nullable grammars rejected. Strings, quick tier: ALL strings of length <= 4 (random CFGs) / <= 5 (list grammars; with 3 "
        "letters: <= 5 over the first two, <= 4 over all three) over the grammar's alphabet; thorough tier (bounded volume per "
        "grammar): ALL strings while their cumulative number stays <= 400 (3 letters: length <= 5, 2 letters: <= 7) + 100 random "
        "strings of the next length; inputs more than one character longer than the first input that reaches the cap of 8 "
        "trees are dropped (the model enumerates all trees); + strings with a "
        "foreign character + up to 6 random MEMBERS of the language that are up to 3 characters longer than the exhaustive "
        "bound. Entry points: EarleyParser.parse on a fresh parser (all strings) AND statefully: one parser object per grammar "
        "reused, 2-3 lazy parse() generators of accepted (preferably ambiguous, same-length) inputs open at once and pulled "
        "round-robin, every outcome compared with the model's tree list for its own input; EarleyParser.parse_on(w, nt) for every other nonterminal and "
        f"ISLaSolver.parse(w, nt, skip_check=True) for every nonterminal (length <= {3 if thorough else 2}). Compared: exception "
        "kind / ordered list of the first <= 8 trees; EVERY returned tree is checked for wf_treeb, closedness, root label and "
        "yield t = input (in Coq) and again by the python reference. non-trivial = string of length >= 1 whose membership "
        "differs from that of another tested string of the same grammar and start symbol")
    proof_ok = run.proof_stage()
    fnd = findings()
    flags = probe_flags(run, fnd)
    run.cov["modelled_form"] = {"chart_parse seeds all alternatives (fxA)": flags["fxA"],
                                "parse requires origin 0 (fxB)": flags["fxB"]}
    FX = f"{g_bool(flags['fxA'])} {g_bool(flags['fxB'])}"

    grammars = build_cases(run, rng, thorough)
    hist = {"accept": 0, "SyntaxErr": 0, "other_exn": 0, "ambiguous(>1 tree)": 0, "eps_grammars": 0,
            "multistart_grammars": 0, "recstart_grammars": 0, "solver_mode": 0, "parse_on_mode": 0,
            "list_grammars": 0, "corpus_grammars": 0, "trees_checked_yield": 0,
            "solver_nt_skipped_cyclic_after_override": 0, "fuel_capped_grammars": 0,
            "theorem_guard_evaluated": 0, "theorem_guard_false_cyclic_or_capped": 0,
            "words_skipped_ambiguity_cap": 0, "stateful_interleaved_mode": 0}
    state = {"maxlen_seen": 0, "coq_seconds": 0.0, "batches": 0, "max_shard_bytes": 0}
    prop_failures = []
    disagreements, spec_fail_coq, forest_fail, guard_fail, guard_unexplained = [], [], [], [], []

    ok_def = (
        "fun kc : nat * nat * nat => let '(kind, gi, i) := kc in let '(G, FUEL, LFUEL, CS) := nth gi GS GDFLT in "
        "let '(mode, nt, w, r) := nth i CS DFLT in "
        "match kind with "
        "| 0 => res_eqb (list_eqb tree_eqb) r "
        f"   (match mode with 0 => earley_parse {FX} FUEL G START START w 8 "
        f"    | 1 => earley_parse {FX} FUEL G START nt w 8 "
        f"    | 3 => earley_parse {FX} FUEL G START START w 8 "
        f"    | _ => match solver_parse {FX} FUEL G nt w with Ok t => Ok [t] | Raise e => Raise e end end) "
        "| 1 => match r with "
        "       | Ok ts => negb (match ts with [] => true | _ => false end) && "
        "                  forallb (fun t => wf_treeb G t && closedb t && str_eqb (lbl t) nt && str_eqb (yield t) w) ts "
        "       | Raise SyntaxErr => true | Raise _ => false end "
        "| 2 => match r with "
        "       | Ok _ => if Lb LFUEL G nt w then true else Lb (Nat.min 18 (length G * (length w + 1) + 2)) G nt w "
        "       | _ => negb (Lb LFUEL G nt w) end "
        f"| 3 => match chart_of {g_bool(flags['fxA'])} FUEL (cgram G START) nt w with "
        "       | Ok ch => forest_totalb (cgram G START) w ch | Raise _ => true end "
        "| _ => let G' := match mode with 2 => specialise G nt | _ => G end in "
        "       acyclicb (cgram G' START) && Nat.leb (fuel_bound (cgram G' START) (length w)) FUEL end")

    # ------------------------------------------------------------------------------------------
    # STREAMING: grammars are processed in batches (quick: one batch; thorough: 32 grammars);
    # per batch: run the implementation, write the shards, evaluate them in Coq (in a worker
    # thread while the next batch is generated), keep only counters, samples and failures.
    # ------------------------------------------------------------------------------------------
    def gen_grammar(gi, g, opts):
        cg = {k: [list(a) for a in v] for k, v in canonical(g).items()}
        alpha = (opts.get("alphabet") or alphabet(cg))[:3]
        Ng = opts["maxlen"]
        if thorough:
            # bounded volume per grammar: ALL strings while their cumulative number stays <= 400 (3 letters: length <= 5,
            # 2 letters: <= 7), then a random subset of 100 strings of the next length (<= 7)
            words, n, tot = [""], 0, 1
            while n < 7 and alpha and tot + len(alpha) ** (n + 1) <= 400:
                n += 1
                words += ["".join(p) for p in itertools.product(alpha, repeat=n)]
                tot += len(alpha) ** n
            if alpha and n < 7:
                pool = ["".join(p) for p in itertools.product(alpha, repeat=n + 1)]
                words += sorted(rng.sample(pool, min(100, len(pool))))
            Ng = max(Ng, n)
        elif opts.get("list") and len(alpha) == 3:
            # all strings up to length 5 over the two most important letters (separator first ... the
            # alphabet is in order of first occurrence), up to length 4 over all three
            words = [""]
            for n in range(1, Ng + 1):
                words += ["".join(p) for p in itertools.product(alpha[:2], repeat=n)]
            for n in range(1, Ng):
                words += [x for x in ("".join(p) for p in itertools.product(alpha, repeat=n)) if x not in words]
        else:
            words = [""]
            for n in range(1, Ng + 1):
                words += ["".join(p) for p in itertools.product(alpha, repeat=n)]
        words += ["#", alpha[0] + "#" if alpha else "##", "#" + alpha[0] if alpha else "#a"]
        # members of the language longer than the exhaustive bound (random derivations), corpus inputs
        wset = set(words)
        for x in sample_members(cg, rng, 6, Ng + 1, min(Ng + 3, 8)) + list(opts.get("extra", [])):
            if x not in wset:
                words.append(x); wset.add(x)
        hist["list_grammars"] += bool(opts.get("list"))
        hist["corpus_grammars"] += "corpus" in opts
        state["maxlen_seen"] = max(state["maxlen_seen"], max(len(x) for x in words))
        if any("" in v for v in g.values()):
            hist["eps_grammars"] += 1
        hist["multistart_grammars"] += K_multistart(cg, START)
        hist["recstart_grammars"] += K_recstart(cg, START)
        try:
            solver = ISLaSolver(g)
        except Exception:
            solver = None
        # ISLaSolver.parse(w, nt) parses with the grammar in which <start> ::= nt replaces the rule of <start>
        # (and unreachable rules are deleted).  If THAT grammar has a cyclic unit/nullable derivation it is
        # infinitely ambiguous and outside the property's quantifier (like the grammars `acceptable` rejects).
        solver_skip = set()
        for nt in list(g)[1:]:
            if infinitely_ambiguous(specialised(cg, nt)):
                solver_skip.add(nt)
                hist["solver_nt_skipped_cyclic_after_override"] += 1
        cases = []     # (mode, nt, w, outcome)
        tabs = {}      # w -> membership table of cg (python reference), shared by the cases of this grammar
        # thorough tier: the model enumerates ALL trees of an input before taking the first 8; for highly
        # ambiguous grammars their number explodes with the length.  Words are taken by increasing length and
        # once an input reaches the cap of 8 trees, inputs more than one character longer are dropped (counted).
        amb_len = None
        for w in (sorted(words, key=len) if thorough else words):
            if amb_len is not None and len(w) > amb_len + 1:
                hist["words_skipped_ambiguity_cap"] += 1
                continue
            o0 = impl_parse(g, w)
            if thorough and amb_len is None and o0[0] == "ok" and len(o0[1]) >= MAXTREES:
                amb_len = len(w)
            cases.append((0, START, w, o0))
            if len(w) <= (3 if thorough else 2):
                for nt in list(g)[1:]:
                    cases.append((1, nt, w, impl_parse(g, w, nt)))
                    hist["parse_on_mode"] += 1
                if solver is not None:
                    for nt in list(g):
                        if nt in solver_skip:
                            continue
                        cases.append((2, nt, w, impl_solver_parse(solver, w, nt)))
                        hist["solver_mode"] += 1
        # STATEFUL stream (mode 3): one parser object reused, several lazy parse() generators open at once and
        # pulled alternately; every outcome must again be the model's tree list for ITS input
        groups_of = {}
        try:
            shared = EarleyParser(g)
        except Exception:
            shared = None
        if shared is not None:
            for group in interleave_groups(cases, rng, 8 if thorough else 4):
                for w, o in zip(group, impl_interleaved(shared, group)):
                    groups_of[len(cases)] = group
                    cases.append((3, START, w, o if o[0] != "raise_after_trees" else ("raise", o[1])))
                    hist["stateful_interleaved_mode"] += 1
            del shared
        # membership profile per start symbol (for the non-trivial rule)
        prof = {}
        for (mode, nt, w, o) in cases:
            prof.setdefault((mode, nt), set()).add(o[0] == "ok")
        lits = []
        for ci, (mode, nt, w, o) in enumerate(cases):
            run.count((gi, mode, nt, w), len(w) >= 1 and len(prof[(mode, nt)]) == 2)
            if o[0] == "ok":
                hist["accept"] += 1
                hist["trees_checked_yield"] += len(o[1])
                hist["ambiguous(>1 tree)"] += len(o[1]) > 1
            elif o[1] == "SyntaxErr":
                hist["SyntaxErr"] += 1
            else:
                hist["other_exn"] += 1
            lits.append(f"({mode}%nat, {g_str(nt)}, {g_str(w)}, {g_outcome(o)})")
            # direct evaluation of the property with the python reference of the spec
            sg = cg
            why = property_at(sg, nt, w, o, tabs)
            if why:
                prop_failures.append({"grammar": g, "mode": mode, "nonterminal": nt, "input": w,
                                      "impl": [o[0], [jt(t) for t in o[1]] if o[0] == "ok" else o[1]],
                                      "why": why, "_cg": cg, "_o": o,
                                      **({"interleaved_inputs": groups_of[ci]} if ci in groups_of else {})})
        n_max = max(len(c[2]) for c in cases)
        hist["fuel_capped_grammars"] += fuel_uncapped(cg, n_max) > FUEL_CAP
        gc_ = {}
        for ci, (mode, nt, w, o) in enumerate(cases):
            if (mode, nt) not in gc_ or len(w) > len(cases[gc_[(mode, nt)]][2]):
                gc_[(mode, nt)] = ci
        hist["theorem_guard_evaluated"] += len(gc_)
        if gi in (0, 2, 21):
            k = next((c for c in cases if c[3][0] == "ok" and len(c[2]) >= 2), cases[0])
            run.sample({"grammar": g, "mode": ["parse", "parse_on", "ISLaSolver.parse", "parse (shared parser, interleaved)"][k[0]], "nonterminal": k[1],
                        "input": k[2], "impl": [jt(t) for t in k[3][1]] if k[3][0] == "ok" else k[3][1],
                        "cases_for_this_grammar": len(cases)})
        del solver
        return {"g": g, "cg": cg, "cases": cases, "n_max": n_max, "guard": gc_, "groups_of": groups_of,
                "gdef": (g_grammar(cg), fuel_for(cg, n_max), min(7, len(cg) + 3), lits)}

    def build_shards(metas, nsh):
        shards, shard_idx = [], []
        for k in range(nsh):
            members = list(range(k, len(metas), nsh))
            if not members:
                continue
            defs = "Definition GS : list (grammar * nat * nat * list (nat * str * str * res (list tree))) := [\n" + ";\n".join(
                f"({metas[mi]['gdef'][0]}, {g_nat(metas[mi]['gdef'][1])}, {g_nat(metas[mi]['gdef'][2])}, [\n"
                + ";\n".join(metas[mi]['gdef'][3]) + "\n])" for mi in members) + "\n].\n"
            defs += ("Definition DFLT : nat * str * str * res (list tree) := (0%nat, [], [], Raise OtherErr).\n"
                     "Definition GDFLT : grammar * nat * nat * list (nat * str * str * res (list tree)) := ([], 0%nat, 0%nat, []).\n")
            state["max_shard_bytes"] = max(state["max_shard_bytes"], len(defs))
            idx_cases, back = [], []
            for li, mi in enumerate(members):
                m = metas[mi]
                for ci, (mode, nt, w, o) in enumerate(m["cases"]):
                    if thorough:
                        # volume: the Coq-side tree oracle (kind 1) and the forest hypothesis (kind 3) only say
                        # something for outcomes other than SyntaxError / for accepted inputs
                        kinds = [0] + ([1] if o != ("raise", "SyntaxErr") else []) \
                            + ([2] if mode == 0 and len(w) <= 2 else []) + ([3] if mode == 0 and o[0] == "ok" else [])
                    else:
                        kinds = [0, 1] + ([2] if mode == 0 and len(w) <= 2 else []) + ([3] if mode == 0 else [])
                    # kind 4: the hypotheses of C10_parse_complete / C10_parse_total that depend on the case
                    # (acyclicb, fuel_bound <= FUEL) evaluated in Coq on the longest input of every
                    # (entry point, nonterminal) of the grammar
                    if ci == m["guard"].get((mode, nt)):
                        kinds.append(4)
                    for kind in kinds:
                        idx_cases.append(f"({kind}%nat, {li}%nat, {ci}%nat)")
                        back.append((kind, mi, ci))
            shards.append((defs, idx_cases))
            shard_idx.append(back)
        for m in metas:
            m["gdef"] = None      # the literals live on only inside `shards`
        return shards, shard_idx

    def absorb(metas, shard_idx, bad):
        for (k, i) in bad:
            kind, mi, ci = shard_idx[k][i]
            m = metas[mi]
            g, cg = m["g"], m["cg"]
            mode, nt, w, o = m["cases"][ci]
            rec = {"grammar": g, "mode": mode, "nonterminal": nt, "input": w,
                   "impl": [o[0], [jt(t) for t in o[1]] if o[0] == "ok" else o[1]], "_cg": cg, "_o": o, "coq_kind": kind,
                   **({"interleaved_inputs": m["groups_of"][ci]} if ci in m["groups_of"] else {})}
            if kind == 4:
                # a false guard is expected only for a grammar with a cyclic unit/nullable derivation
                # (corpus witnesses) or a capped fuel
                eff = specialised(cg, nt) if mode == 2 else cg
                if infinitely_ambiguous(eff) or fuel_uncapped(cg, m["n_max"]) > FUEL_CAP:
                    hist["theorem_guard_false_cyclic_or_capped"] += 1
                else:
                    guard_unexplained.append({k2: v for k2, v in rec.items() if not k2.startswith("_")})
                continue
            (disagreements if kind == 0 else forest_fail if kind == 3 else spec_fail_coq).append(rec)

    import gc
    import concurrent.futures as cf_
    BATCH = 32 if thorough else max(1, len(grammars))
    pending = None      # (future, metas, shard_idx)
    coq_error = None

    def collect(p):
        nonlocal coq_error
        fut, metas, shard_idx = p
        try:
            bad, dt = fut.result()
            state["coq_seconds"] += dt
            absorb(metas, shard_idx, bad)
        except RuntimeError as e:
            coq_error = coq_error or str(e)[-2000:]

    with cf_.ThreadPoolExecutor(max_workers=1) as pool:
        for b0 in range(0, len(grammars), BATCH):
            metas = [gen_grammar(gi, g, opts) for gi, (g, opts) in
                     list(enumerate(grammars))[b0:b0 + BATCH]]
            shards, shard_idx = build_shards(metas, len(metas) if thorough else 8)
            if pending is not None:
                collect(pending)
                pending = None
                gc.collect()
            fut = pool.submit(lib.coq_run_shards, f"c10b{state['batches']}",
                              "Earley EarleyTrees EarleyFuel EarleyAcyclic", ok_def, shards)
            del shards
            pending = (fut, metas, shard_idx)
            state["batches"] += 1
        if pending is not None:
            collect(pending)
            pending = None
    gc.collect()
    run.cov["grammars"] = len(grammars)
    run.cov["histogram"] = hist
    run.cov["max_string_length"] = state["maxlen_seen"]
    run.cov["coq_seconds"] = round(state["coq_seconds"], 1)
    run.cov["batches"] = state["batches"]
    run.cov["max_shard_literal_bytes"] = state["max_shard_bytes"]
    if coq_error:
        run.violation({"kind": "correspondence-not-evaluable", "obligation": "Earley.v cases",
                       "error": coq_error}, found_input=False)

    # ---- classify ----
    run.cov["disagreements_checked"] = len(disagreements)
    run.cov["property_failures_python_oracle"] = len(prop_failures)
    run.cov["property_failures_coq_oracle"] = len(spec_fail_coq)
    unknown = []
    seen_keys = set()
    for d in prop_failures + [dict(s, why="Coq oracle (wf_treeb/yield/Lb) rejects the outcome") for s in spec_fail_coq]:
        why = d["why"]
        if d.get("coq_kind") in (1, 2):
            # the Coq oracle's verdict is explained by the python oracle's (same input) where that exists
            py = property_at(d["_cg"], d["nonterminal"], d["input"], d["_o"])
            why = py or why
        e = classify_known(d["_cg"], d["nonterminal"], d["input"], d["_o"], why, flags, fnd, d.get("mode", 0))
        if e:
            run.known(e["what"])
            seen_keys.add(e["key"])
        else:
            unknown.append({k: v for k, v in dict(d, why=why).items() if not k.startswith("_")})
    run.cov["known_class_hits"] = sorted(seen_keys)
    if unknown:
        unknown.sort(key=lambda d: len(json.dumps(d)))
        run.violation({"kind": "parser departs from the grammar's language / returns an unfaithful tree",
                       "witness": unknown[0], "all_failing": len(unknown),
                       "how_to_replay": "./check C10 --replay <this file>",
                       "theorem": "Props/C10.v + correspondence Earley.v <-> parser.py"})
    elif disagreements:
        d = min(disagreements, key=lambda d: len(json.dumps({k: v for k, v in d.items() if not k.startswith('_')})))
        d = {k: v for k, v in d.items() if not k.startswith("_")}
        run.violation({"kind": "correspondence broken but the property holds on every searched input",
                       "first": d, "count": len(disagreements),
                       "obligation": "correspondence Grammar/Earley.v <-> isla/parser.py, solver.py:ISLaSolver.parse"},
                      found_input=False)
    run.cov["forest_totalb_failures"] = len(forest_fail)
    if forest_fail:
        d = {k: v for k, v in forest_fail[0].items() if not k.startswith("_")}
        run.violation({"kind": "hypothesis forest_totalb of C10_parse_sound_partial is false on a chart of the run",
                       "first": d, "count": len(forest_fail),
                       "obligation": "Props/C10.v C10_parse_sound_partial (hypothesis forest_totalb)"},
                      found_input=False)
    # hypotheses of C10_parse_complete / C10_parse_total on the cases of the run: a false guard is expected only
    # for a grammar with a cyclic unit/nullable derivation (corpus witnesses) or a capped fuel
    if guard_unexplained:
        run.violation({"kind": "guard acyclicb / fuel_bound of C10_parse_complete is false on a case that the harness "
                               "considers acyclic and sufficiently fuelled",
                       "first": guard_unexplained[0], "count": len(guard_unexplained),
                       "obligation": "Props/C10.v C10_parse_complete (acyclicb <-> harness filter infinitely_ambiguous; "
                                     "C10_harness_fuel_ok)"}, found_input=False)
    if not proof_ok:
        run.violation({"kind": "proof obligation failed", "problems": run.proof_problems,
                       "obligation": "Props/C10.v"}, found_input=False)
    run.cov["trusted_base"] = lib.TRUSTED_BASE_COMMON + [
        "grammars are passed to the model in canonical form as computed by isla.parser.canonical (regex split not modelled)",
        "python reference recogniser (least fixpoint over (A,i,j)) as membership oracle; Coq Lb (proved sound) cross-checks it on all strings of length <= 2",
        "model fuel computed by the harness (item-count bound, proved >= fuel_bound: C10_harness_fuel_ok; capped at 4500, "
        "capped grammars are counted in the histogram); an out-of-fuel answer of the model would show up as a disagreement",
        "DerivationTree.from_parse_tree / to_parse_tree are structure-preserving (ISLaSolver.parse results compared as parse trees)"]
    run.cov["exhaustive"] = True
    run.cov["exhaustive_scope"] = (
        ("per grammar: all strings while their cumulative number is <= 400 (3 letters: length <= 5; 2 letters: <= 7), cut one "
         "character after the first input with >= 8 trees" if thorough else
         "per grammar: all strings of length <= 4 (separator-list grammars: <= 5) over the grammar's alphabet (<= 3 letters)")
        + "; the grammars themselves are sampled")


def replay(path):
    d = json.load(open(path))
    w = d.get("witness")
    if not w:
        print("replay file names an obligation, not an input:", d.get("obligation")); return 1
    g, nt, inp, mode = w["grammar"], w["nonterminal"], w["input"], w.get("mode", 0)
    cg = {k: [list(a) for a in v] for k, v in canonical(g).items()}
    if mode == 3:
        group = w["interleaved_inputs"]
        o = impl_interleaved(EarleyParser(g), group)[group.index(inp)]
        o = o if o[0] != "raise_after_trees" else ("raise", o[1])
    elif mode == 2:
        o = impl_solver_parse(ISLaSolver(g), inp, nt)
    else:
        o = impl_parse(g, inp, None if mode == 0 else nt)
    why = property_at(cg, nt, inp, o)
    print("impl:", o, "| member:", in_lang(cg, nt, inp), "| property:", why or "holds")
    return 1 if why else 0
