"""Random derivation trees (not tied to a grammar) for predicates / tree-operation checks."""
from isla.derivation_tree import DerivationTree as T

NTS = ["<a>", "<b>", "<c>", "<start>"]
TERMS = ["x", "y", "", " ", "ab", "<", "é", "0", "\n"]


def rand_tree(rng, depth=4, max_deg=3, open_prob=0.15, nts=NTS, terms=TERMS, wide=0, root=None):
    """inner nodes carry nonterminals (repeated labels on purpose), leaves are terminals,
    open nonterminals (children None) or epsilon-closed nonterminals (children [])."""
    def go(d, lbl=None):
        lbl = lbl or rng.choice(nts)
        if d <= 0 or rng.random() < 0.2:
            r = rng.random()
            if r < open_prob:
                return T(lbl, None)
            if r < open_prob + 0.1:
                return T(lbl, [])
            if r < open_prob + 0.2:
                return T(lbl, [T("", [])])
            return T(rng.choice(terms), [])
        deg = rng.randint(1, max_deg)
        if wide and rng.random() < 0.15:
            deg = rng.randint(max_deg, wide)
        kids = []
        for _ in range(deg):
            if rng.random() < 0.3:
                kids.append(T(rng.choice(terms), []))
            else:
                kids.append(go(d - 1))
        return T(lbl, kids)
    return go(depth, root)


def tree_json(t):
    """JSON-able rendering for evidence samples / replays"""
    return [t.value, t.id, None if t.children is None else [tree_json(c) for c in t.children]]


def tree_from_json(j, keep_ids=True):
    v, i, ch = j
    return T(v, None if ch is None else [tree_from_json(c, keep_ids) for c in ch], id=i if keep_ids else None)
