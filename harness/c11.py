"""C11 — BNF grammars survive printing and re-parsing.

Correspondence of Codec/BnfEscape.v with isla.language.unparse_grammar / parse_bnf:
  (a) generated grammars g: the printed text AND the re-parsed grammar (or exception) of the
      implementation are compared with the model's inside Coq;
  (b) generated well-formed BNF texts (comments, ';', escapes the printer never emits): parse_bnf
      against the model's lexer/parser/emitter;
and, independent of the model, the PROPERTY itself on the implementation for every g of (a):
identity when no terminal contains '<', same language (bounded enumeration, strings of length
<= LANG_N) from every original nonterminal otherwise."""
import json, os, random
import lib
from lib import g_str
from isla.language import parse_bnf, unparse_grammar
from isla.helpers import canonical, is_nonterminal

PH = "QzVbNmLkJhGfDsApOiUyTrEwQxCvBn"     # placeholder handed to the model (30 letters, never generated)
BESC = "$$BESC$$"
LANG_N = 5


# --------------------------------------------------------------------------------------
# classes of the known findings (python mirror of K_* in Codec/BnfEscape.v / BnfEscapeFacts.v)
# --------------------------------------------------------------------------------------
def terminals(g):
    return [e for alts in canonical(g).values() for alt in alts for e in alt if not is_nonterminal(e)]


def used_nonterminals(g):
    return [e for alts in canonical(g).values() for alt in alts for e in alt if is_nonterminal(e)]


def K_besc(g):
    return any(BESC in t for t in terminals(g))


def K_besc_overlap(g):
    return any("$$BESC\\" in t or "$$BESC$\\" in t for t in terminals(g))


def K_nt_escape(g):
    return any("\\" in n or BESC in n for n in list(g) + used_nonterminals(g))


def reach(g):
    seen, todo = {"<start>"}, ["<start>"]
    cg = canonical(g)
    while todo:
        a = todo.pop()
        for alt in cg.get(a, []):
            for e in alt:
                if is_nonterminal(e) and e not in seen:
                    seen.add(e); todo.append(e)
    return seen


def K_langle_unreach(g):
    """'<' occurs in a terminal, but in no rule that is reachable from <start>"""
    cg, r = canonical(g), reach(g)
    has = lambda k: any("<" in e for alt in cg[k] for e in alt if not is_nonterminal(e))
    return any(has(k) for k in cg) and not any(has(k) for k in cg if k in r)


def K_empty_nt(g):
    return "<>" in list(g) + used_nonterminals(g)


CLASSES = {"K_empty_nt": K_empty_nt, "K_besc": K_besc, "K_besc_overlap": K_besc_overlap, "K_nt_escape": K_nt_escape,
           "K_langle_unreach": K_langle_unreach}


# --------------------------------------------------------------------------------------
# spec-side oracle: bounded languages of a canonical grammar (strings of length <= n)
# --------------------------------------------------------------------------------------
def bounded_langs(cg, n, cap=4000):
    lang = {k: set() for k in cg}
    changed = True
    while changed:
        changed = False
        for k, alts in cg.items():
            for alt in alts:
                acc = {""}
                for e in alt:
                    nxt = lang.get(e, set()) if is_nonterminal(e) else {e}
                    acc = {u + v for u in acc for v in nxt if len(u) + len(v) <= n}
                    if not acc:
                        break
                    if len(acc) > cap:
                        return None
                if not acc <= lang[k]:
                    lang[k] |= acc; changed = True
                    if len(lang[k]) > cap:
                        return None
    return lang


def property_holds(g, back):
    """(verdict, detail).  verdict: True / False / None (not decidable within the bound)"""
    if isinstance(back, tuple):
        return False, {"why": "parse_bnf(unparse_grammar(g)) raised", "exception": back[1]}
    if not any("<" in t for t in terminals(g)):
        return (back == g), {"why": "identity clause: no terminal contains '<'"}
    l1, l2 = bounded_langs(canonical(g), LANG_N), bounded_langs(canonical(back), LANG_N)
    if l1 is None or l2 is None:
        return None, {"why": "language too large for the bound"}
    for k in g:
        if k not in l2 or l1[k] != l2[k]:
            diff = sorted(l1[k] ^ l2.get(k, set()))[:3]
            return False, {"why": "language clause", "nonterminal": k, "strings_in_exactly_one": diff}
    return True, {"why": "language clause"}


# --------------------------------------------------------------------------------------
# generators
# --------------------------------------------------------------------------------------
NT_POOL = ["<a>", "<b>", "<digit>", "<x-1>", "<A_b>", "<langle>", "<langle_0>", "<langle_1>", "<q\"r>", "<é>", "<a.b#c>"]
NASTY = ["\\n", "\\x41", "\\\\", "\\\"", "\\", "\"", "<", "a<b", "< x>", "<<", ">", "#", "::=", "|", ";", " ", "\\t",
         "\\x0b", "\\b", "$$", "$$BESC", "$BESC$$", "x\\", "\\<", "<\\", "\"\"", "\\x5c", "\\x5cn", "$", "\n", "\t ",
         "' ", "<langle>x"[:7], "a b", "<>"[:1] + " >"]
HIGH = [256, 0x3b1, 0x2028, 0x85, 0xa0, 0xd7ff, 0xe000, 0xffff, 0x10000, 0x1f600, 0x10ffff, 0x100, 0x17f]


class CharFeed:
    """hands out every code point < 256 in turn (so that each occurs at least once), then random ones"""
    def __init__(self, rng):
        self.rng, self.queue = rng, list(range(256)) + HIGH
        rng.shuffle(self.queue)

    def next(self):
        if self.queue:
            return chr(self.queue.pop())
        r = self.rng.random()
        if r < 0.7:
            return chr(self.rng.randrange(256))
        return chr(self.rng.choice(HIGH))


def gen_terminal(rng, feed, rare):
    r = rng.random()
    if r < 0.35:
        return "".join(feed.next() for _ in range(rng.randint(1, 3)))
    if r < 0.65:
        return rng.choice(NASTY) + (feed.next() if rng.random() < 0.5 else "")
    if r < 0.65 + rare:
        return rng.choice(["$$BESC$$", "x$$BESC$$y", "$$BESC\\", "$$BESC$\\z", "$$$BESC\\\\"])
    return "".join(rng.choice("ab01 <>\"\\$nx") for _ in range(rng.randint(1, 5)))


def gen_grammar(rng, feed):
    rare = 0.03 if rng.random() < 0.3 else 0.0
    names = ["<start>"] + rng.sample(NT_POOL, rng.randint(0, 3))
    if rng.random() < 0.03:
        names.append(rng.choice(["<a\\tb>", "<n\\\\>", "<$$BESC$$>", "<x\\x41>"]))
    unreachable = rng.random() < 0.08
    g = {}
    for i, k in enumerate(names):
        alts = []
        for j in range(rng.randint(1, 3)):
            if rng.random() < 0.12:
                alts.append(""); continue
            parts = []
            for _ in range(rng.randint(1, 4)):
                if rng.random() < 0.4:
                    parts.append(rng.choice(names))
                else:
                    parts.append(gen_terminal(rng, feed, rare))
            alts.append("".join(parts))
        if i + 1 < len(names) and not (unreachable and i + 2 == len(names)):
            # chain: keeps every rule reachable from <start>
            alts[0] = alts[0] + names[i + 1] if rng.random() < 0.5 else names[i + 1] + alts[0]
        g[k] = alts
    return g


TEXT_PIECES = ["a", "b", " ", "\\n", "\\t", "\\r", "\\b", "\\\\", "\\\"", "\\x41", "\\x0b", "\\xff", "\\q", "\\x4", "<", ">",
               "<a>", "#", "|", ";", "::=", "\\\\\\\"", "é", "\n", "$$", "\\x5c", "\\x5cn", "'", "\\x5C"]


def gen_text(rng):
    names = ["<start>"] + rng.sample(["<a>", "<b c>", "<d\"e>", "<langle>", "<x#y>"], rng.randint(0, 2))
    out = []
    for k in names:
        alts = []
        for _ in range(rng.randint(1, 3)):
            elems = []
            for _ in range(rng.randint(1, 3)):
                if rng.random() < 0.35:
                    elems.append(rng.choice(names))
                else:
                    elems.append('"' + "".join(rng.choice(TEXT_PIECES) for _ in range(rng.randint(0, 4))) + '"')
            alts.append(rng.choice([" ", "  ", "\t", ""]).join(elems) if rng.random() < 0.8 else " ".join(elems))
        sep = rng.choice([" | ", "|", "\n  | ", " |\t"])
        rule = k + rng.choice([" ::= ", "::=", " ::=\n "]) + sep.join(alts) + rng.choice(["", ";", " ;", ""])
        if rng.random() < 0.2:
            rule += " # comment \" < ::= \n"
        out.append(rule)
    # elements of adjacent rules must be separated: NONTERMINAL '::=' lookahead does that
    return rng.choice(["\n", "\n\n", " \n"]).join(out) + rng.choice(["", "\n"])


# --------------------------------------------------------------------------------------
# running implementation and model
# --------------------------------------------------------------------------------------
def impl_parse(text):
    try:
        return parse_bnf(text)
    except AssertionError:
        return ("raise", "AssertErr")
    except Exception as e:
        n = type(e).__name__
        return ("raise", "SyntaxErr" if n == "ParseCancellationException" else lib.exn_name(e))


def g_s(s):
    """compact literal decoded by `ds` (Codec/BnfEscape.v): printable ASCII as is, anything else ~hhhhhh"""
    return '(ds "' + "".join(c if (32 <= ord(c) < 126 and c != '"') else "~%06x" % ord(c) for c in s) + '"%string)'


def g_pyg(g):
    return "[" + "; ".join(f"({g_s(k)}, [" + "; ".join(g_s(a) for a in alts) + "])" for k, alts in g.items()) + "]"


def g_back(b):
    return f"(Raise {b[1]})" if isinstance(b, tuple) else f"(Ok {g_pyg(b)})"


OK_DEF = ("fun c : option pygrammar * str * option (res pygrammar) * N => let '(og, t, r, m) := c in "
          "match og with Some g => str_eqb (unparse_grammar g) t && N.eqb (kmask g) m | None => true end && "
          f"res_eqb pyg_eqb (parse_bnf {g_str(PH)} t) "
          "(match r, og with Some x, _ => x | None, Some g => Ok g | None, None => Raise OtherErr end)")
EXTRA = "From Coq Require Import String."


def jsonable(b):
    return {"raise": b[1]} if isinstance(b, tuple) else b


def kmask(g):
    """the class predicates as one number; compared with `kmask` of Codec/BnfEscape.v in every grammar case"""
    return (1 * K_besc(g) + 2 * K_besc_overlap(g) + 4 * K_nt_escape(g) + 8 * K_langle_unreach(g)
            + 16 * K_empty_nt(g))


def divergence_matches(cls, back, detail):
    """a recorded class only excuses the kind of failure it was recorded with"""
    raised = isinstance(back, tuple)
    if cls == "K_besc":
        return raised and back[1] == "AssertErr"
    if cls == "K_besc_overlap":
        return not raised
    if cls == "K_nt_escape":
        return (not raised) or back[1] == "AssertErr"
    if cls == "K_langle_unreach":
        return not raised and detail.get("why") == "language clause"
    return True      # K_empty_nt: token skipped (grammar differs) or ParseCancellationException


def closed_grammar(g):
    """every nonterminal used on a right-hand side is defined (the part of is_valid_grammar that the
    generator can break by accident: '<langle' + '>' glued together from two terminals)"""
    return all(n in g for n in used_nonterminals(g))


def classify_property(run, g, back, findings, failing):
    if not closed_grammar(g) and not K_empty_nt(g):
        # malformed stream: outside the property's quantifier; only compared model <-> implementation
        return "malformed"
    verdict, detail = property_holds(g, back)
    if verdict is False:
        hit = [e for e in findings if e["status"] == "open" and CLASSES[e["class"]](g)
               and divergence_matches(e["class"], back, detail)]
        if hit:
            run.known(hit[0]["what"])
            return "known"
        failing.append({"grammar": g, "printed": unparse_grammar(g), "reparsed": jsonable(back), "detail": detail})
        return "fails"
    return "holds" if verdict else "undecided"


def run(run):
    rng = random.Random(run.seed)
    thorough = run.tier == "thorough"
    run.cov["rule"] = ("(a) random grammars (1-4 rules, 1-3 alternatives, 1-4 elements; terminals draw every code point "
                       "< 256 at least once, code points >= 256, a pool of escape-like / '<' / quote / placeholder "
                       "strings; empty alternatives; a few unreachable rules and odd nonterminal names): printed text and "
                       "re-parsed grammar of the implementation compared with the model in Coq, and the property itself "
                       "(identity / same language up to length %d) evaluated on the implementation; (b) random well-formed "
                       "BNF texts (comments, ';', escapes the printer never emits) through parse_bnf vs. the model. "
                       "Grammars that use an undefined nonterminal (generator accidents such as '<langle' + '>') form a "
                       "malformed stream: compared model <-> implementation only, the property is not evaluated on them. "
                       "non-trivial = some terminal contains a character that the printer escapes, or '<'" % LANG_N)
    proof_ok = run.proof_stage()
    findings = lib.known_findings("C11")
    if not findings:   # known_findings.json not regenerated yet: read the committed source of its C11 entries
        mp = os.path.join(lib.VERIF, "harness", "meta", "C11.findings.json")
        findings = json.load(open(mp)) if os.path.exists(mp) else []

    # ---- known findings: replay each open witness on the implementation ----
    for e in findings:
        if e["status"] != "open":
            continue
        g = e["witness"]["grammar"]
        back = impl_parse(unparse_grammar(g))
        verdict, _ = property_holds(g, back)
        if verdict is False:
            run.known(e["what"])

    n_gram = 2400 if thorough else 500
    n_text = 900 if thorough else 120
    feed = CharFeed(rng)
    cases, meta = [], []
    seen_chars = set()
    hist = {"identity": 0, "langle": 0, "raise": 0, "empty_alt": 0, "ge256": 0, "known": 0, "holds": 0,
            "undecided": 0, "fails": 0, "malformed": 0}
    failing = []
    for i in range(n_gram):
        g = gen_grammar(rng, feed)
        text = unparse_grammar(g)
        back = impl_parse(text)
        ts = terminals(g)
        for t in ts:
            seen_chars.update(ord(c) for c in t)
        escd = any((ord(c) < 256 and (c in '\\"' or not (32 <= ord(c) <= 126))) or c == "<" for t in ts for c in t)
        run.count(("g", json.dumps(g, sort_keys=True)), escd)
        hist["raise" if isinstance(back, tuple) else ("langle" if any("<" in t for t in ts) else "identity")] += 1
        hist["empty_alt"] += any(a == "" for alts in g.values() for a in alts)
        hist["ge256"] += any(ord(c) >= 256 for t in ts for c in t)
        hist[classify_property(run, g, back, findings, failing)] += 1
        if K_empty_nt(g):
            hist["unmodelled_lexer_recovery"] = hist.get("unmodelled_lexer_recovery", 0) + 1
            continue    # ANTLR's error recovery on the token <> is not modelled (recorded finding K_empty_nt)
        cases.append(f"(Some {g_pyg(g)}, {g_s(text)}, {'None' if back == g else '(Some ' + g_back(back) + ')'}, {kmask(g)}%N)")
        meta.append(("grammar", g, text, back))
        if i in (3, 4):
            run.sample({"grammar": g, "printed": text, "reparsed": jsonable(back)})
    for i in range(n_text):
        text = gen_text(rng)
        back = impl_parse(text)
        run.count(("t", text), "\\" in text)
        cases.append(f"(@None pygrammar, {g_s(text)}, Some {g_back(back)}, 0%N)")
        meta.append(("text", None, text, back))
        if i == 0:
            run.sample({"text": text, "parsed": jsonable(back)})
    run.cov["histogram"] = hist
    run.cov["codepoints_below_256_covered"] = len([c for c in seen_chars if c < 256])
    run.cov["codepoints_ge_256_covered"] = len([c for c in seen_chars if c >= 256])

    disagreements = []
    try:
        bad, dt = lib.coq_mismatches("c11", "Outcome Str BnfEscape", OK_DEF, cases, shard=250 if thorough else 210, extra_defs=EXTRA)
        run.cov["coq_seconds"] = round(dt, 1)
        for i in bad:
            kind, g, text, back = meta[i]
            d = {"kind": kind, "grammar": g, "printed_or_text": text, "impl_reparsed": jsonable(back)}
            if kind == "grammar":
                d["property"] = property_holds(g, back)
            disagreements.append(d)
    except RuntimeError as e:
        run.violation({"kind": "correspondence-not-evaluable", "obligation": "BnfEscape.v cases", "error": str(e)[-2000:]},
                      found_input=False)

    run.cov["disagreements_checked"] = len(disagreements)
    if failing:
        failing.sort(key=lambda d: len(json.dumps(d)))
        run.violation({"kind": "print/re-parse changes the grammar (identity or language clause fails)",
                       "witness": failing[0], "all_failing": len(failing),
                       "how_to_replay": "./check C11 --replay <this file>",
                       "theorem": "Props/C11.v + correspondence BnfEscape.v <-> unparse_grammar/parse_bnf"})
    elif disagreements:
        # the property held (or belongs to a recorded class) on every generated grammar, yet the code no longer
        # behaves like the model the theorems are about
        disagreements.sort(key=lambda d: len(json.dumps(d, default=str)))
        run.violation({"kind": "correspondence broken, no property-violating grammar among the generated ones",
                       "first": disagreements[0], "count": len(disagreements),
                       "obligation": "correspondence Codec/BnfEscape.v <-> isla.language.unparse_grammar / parse_bnf"},
                      found_input=False)
    if not proof_ok:
        run.violation({"kind": "proof obligation failed", "problems": run.proof_problems,
                       "obligation": "Props/C11.v"}, found_input=False)
    run.cov["trusted_base"] = lib.TRUSTED_BASE_COMMON + [
        "ANTLR-generated bnf lexer/parser reduced to the token rules and the two parser rules of src/isla/bnf.g4 "
        "(model `lex`, `parse_rules`); ANTLR error recovery not modelled; tied by this run on printed grammars and "
        "generated well-formed texts",
        "BnfEmitter's random 30-letter placeholder is a parameter of the model (theorems assume it does not occur in the grammar)",
        "bounded language comparison (strings of length <= %d) is used on the search side only" % LANG_N]


def replay(path):
    d = json.load(open(path))
    w = d.get("witness")
    if not w:
        print("replay file names an obligation, not an input:", d.get("obligation")); return 1
    g = w["grammar"]
    back = impl_parse(unparse_grammar(g))
    verdict, detail = property_holds(g, back)
    print("grammar:", g, "\nprinted:", repr(unparse_grammar(g)), "\nreparsed:", back, "\nproperty holds:", verdict, detail)
    return 0 if verdict else 1
