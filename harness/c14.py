"""C14 — helpers that build trees to a target: correspondence of Grammar/FixedLen.v with
isla.solver.create_fixed_length_tree, isla.helpers.compute_nullable_nonterminals,
isla.isla_predicates.count / find_expansion_without_needle.

Tie:
 * create_fixed_length_tree: FUNCTIONAL equality with the model `cflt` (random.choice is patched so
   that the chosen indices are recorded and handed to the model as its oracle stream) and,
   independently, ACCEPTANCE of every returned tree by the verified checker
   (wf_treeb /\\ closedb /\\ label /\\ |yield| = n) evaluated in Coq.
 * compute_nullable_nonterminals: set equality with `nullables`.
 * find_expansion_without_needle: functional equality with `few`.
 * count on open trees: functional equality of the decision skeleton (`count_decide`, `count_var`)
   and acceptance of every returned binding {in_tree: c} (`meets_count` + wf_treeb).
A disagreement is classified with the Python reference of the SPEC below (ref_*)."""
import json
import random
import time

import lib
from lib import g_str, g_nat, g_list, g_path
from gen_trees import tree_json, tree_from_json

import isla.solver as S
import isla.isla_predicates as P
import isla.derivation_tree as DT
from isla.derivation_tree import DerivationTree
from isla.helpers import canonical, compute_nullable_nonterminals, is_nonterminal
from isla.language import Constant
from grammar_graph import gg
import c14_int

IMPORTS = "FixedLen"
COUNT_CPU_S = 8   # CPU seconds per count() call; a cut run is inconclusive


class Budget(Exception):
    pass


class CallTimeout(Exception):
    pass


def with_alarm(seconds, f, *a):
    """run f(*a) in the main thread under a CPU-time limit (user+sys of this process, ITIMER_PROF: independent of
    the machine load).  count()'s search loops are unbounded; a run that is cut is INCONCLUSIVE, never a verdict."""
    import signal

    def onalarm(signum, frame):
        raise CallTimeout()
    old = signal.signal(signal.SIGPROF, onalarm)
    signal.setitimer(signal.ITIMER_PROF, seconds)
    try:
        return f(*a)
    finally:
        signal.setitimer(signal.ITIMER_PROF, 0)
        signal.signal(signal.SIGPROF, old)


def _dbg(*a):
    import os, sys
    if os.environ.get("VERIF_DEBUG"):
        print("[c14]", *a, file=sys.stderr, flush=True)


# --------------------------------------------------------------------------
# Python reference of the SPEC (independent of isla's helpers): used to classify
# --------------------------------------------------------------------------
def ref_is_nt(s):
    # '<' then chars other than '<', '>', ' ' then '>' (prefix)
    if not s.startswith("<"):
        return False
    for c in s[1:]:
        if c == ">":
            return True
        if c in "< ":
            return False
    return False


def ref_valid(cg, t):
    """valid derivation tree (both epsilon shapes), open leaves must be defined nonterminals"""
    stack = [t]
    while stack:
        n = stack.pop()
        if n.children is None:
            if not (ref_is_nt(n.value) and n.value in cg):
                return False
            continue
        if not n.children:
            if ref_is_nt(n.value) and [] not in [list(a) for a in cg.get(n.value, [])]:
                return False
            continue
        if not ref_is_nt(n.value):
            return False
        alts = [list(a) for a in cg.get(n.value, [])]
        labels = [c.value for c in n.children]
        eps_fuzz = (len(n.children) == 1 and n.children[0].value == "" and n.children[0].children is not None
                    and not n.children[0].children and [] in alts)
        if labels not in alts and not eps_fuzz:
            return False
        if labels in alts:
            stack.extend(n.children)
    return True


def ref_closed(t):
    return all(s.children is not None for _, s in t.paths())


def ref_yield(t):
    out = []

    def go(n):
        if not n.children:
            if n.children is None:
                out.append(n.value)
            elif not ref_is_nt(n.value):
                out.append(n.value)
            return
        for c in n.children:
            go(c)
    go(t)
    return "".join(out)


def ref_meets_length(cg, A, n, t):
    return ref_valid(cg, t) and ref_closed(t) and t.value == A and len(ref_yield(t)) == n


def ref_reach(cg):
    """non-reflexive reachability between nonterminals: transitive closure of 'occurs in an alternative of'"""
    nts = list(cg)
    edge = {a: {s for alt in cg[a] for s in alt if ref_is_nt(s)} for a in nts}
    reach = {a: set(edge[a]) for a in nts}
    changed = True
    while changed:
        changed = False
        for a in nts:
            for b in list(reach[a]):
                new = reach.get(b, set()) - reach[a]
                if new:
                    reach[a] |= new
                    changed = True
    return reach


def ref_meets_count(cg, needle, target, c):
    reach = ref_reach(cg)
    occ = sum(1 for _, s in c.paths() if s.value == needle)
    more = any(needle in reach.get(s.value, ()) for _, s in c.paths() if s.children is None)
    return occ == target and not more


# --------------------------------------------------------------------------
# generators
# --------------------------------------------------------------------------
TERMS = ["a", "b", "bb", "xyz", "0", "12", " ", "é", "(", ")"]
NT_NAMES = ["<start>", "<a>", "<b>", "<c>", "<d>"]

FIXED = [
    {"<start>": ["<a>"], "<a>": ["<b><a>", ""], "<b>": ["x", "yy", "<c>z"], "<c>": ["", "q"]},
    {"<start>": ["<stmt>"], "<stmt>": ["<assgn>", "<assgn> ; <stmt>"], "<assgn>": ["<var> := <rhs>"],
     "<rhs>": ["<var>", "<digit>"], "<var>": ["a", "b", "c"], "<digit>": ["0", "1", "2"]},
    {"<start>": ["<int>"], "<int>": ["<sign><digits>"], "<sign>": ["", "-", "+"],
     "<digits>": ["<digit>", "<digit><digits>"], "<digit>": ["0", "1", "7", "9"]},
    {"<start>": ["<l>"], "<l>": ["(<l>)", "<l><l>", ""]},
    {"<start>": ["<csv>"], "<csv>": ["<row>", "<row>\n<csv>"], "<row>": ["<f>", "<f>;<row>"], "<f>": ["", "ab", "<q>"],
     "<q>": ["\"<f>\""]},
    {"<start>": ["<a><b>"], "<a>": ["", "<a>x"], "<b>": ["<a><a>", "yy<b>"]},
    {"<start>": ["<e>"], "<e>": ["<e>+<t>", "<t>"], "<t>": ["<t>*<f>", "<f>"], "<f>": ["(<e>)", "1", "22"]},
]


def rand_grammar(rng, undefined=False):
    k = rng.randint(2, 5)
    nts = NT_NAMES[:k]
    g = {}
    for a in nts:
        alts = []
        for _ in range(rng.randint(1, 4)):
            r = rng.random()
            if r < 0.18:
                alts.append("")
                continue
            if r < 0.38:
                alts.append(rng.choice(TERMS))
                continue
            syms = []
            for _ in range(rng.randint(1, 3)):
                if rng.random() < 0.55:
                    pool = nts + (["<u>"] if undefined else [])
                    syms.append(rng.choice(pool))
                else:
                    syms.append(rng.choice(TERMS))
            alts.append("".join(syms))
        # no duplicate alternatives (as in ordinary grammars); keep order
        seen = []
        for x in alts:
            if x not in seen:
                seen.append(x)
        g[a] = seen
    return g


def grammar_profile(cg):
    null = set()
    changed = True
    while changed:
        changed = False
        for a, alts in cg.items():
            if a not in null and any(all(s in null for s in alt) for alt in alts):
                null.add(a); changed = True
    multi = any(len(s) > 1 for alts in cg.values() for alt in alts for s in alt if not ref_is_nt(s))
    reach = ref_reach(cg)
    rec = any(a in reach[a] for a in cg)
    return {"nullable": bool(null), "multichar": multi, "recursive": rec}


def rand_open_tree(rng, cg, root, depth, open_prob=0.3):
    """random derivation from `root`; leaves beyond the budget / by chance stay open"""
    def go(sym, d):
        if not ref_is_nt(sym):
            return DerivationTree(sym, ())
        if sym not in cg or d <= 0 or rng.random() < open_prob:
            return DerivationTree(sym, None)
        alt = rng.choice(cg[sym])
        return DerivationTree(sym, tuple(go(s, d - 1) for s in alt))
    return go(root, depth)


# --------------------------------------------------------------------------
# running the implementation
# --------------------------------------------------------------------------
def run_cflt(cg, A, n, rng, budget):
    """returns (kind, tree_or_exn, recorded choice indices)"""
    rec, calls = [], [0]
    orig_choice, orig_ge = random.choice, S.get_expansions

    def choice(seq):
        i = rng.randrange(len(seq))
        rec.append(i)
        return seq[i]

    def ge(v, g):
        calls[0] += 1
        if calls[0] > budget:
            raise Budget()
        return orig_ge(v, g)

    random.choice, S.get_expansions = choice, ge
    try:
        try:
            t = S.create_fixed_length_tree(A, cg, n)
        except Budget:
            return "budget", None, rec
        except Exception as e:  # noqa
            return "raise", lib.exn_name(e), rec
    finally:
        random.choice, S.get_expansions = orig_choice, orig_ge
    return ("found", t, rec) if t is not None else ("none", None, rec)


def run_few(cg, graph, root, needle, budget):
    calls = [0]
    orig = DerivationTree.expand_one_step

    def eos(self, g):
        calls[0] += 1
        if calls[0] > budget or sum(1 for _ in self.open_leaves()) > 5:
            raise Budget()
        return orig(self, g)

    DerivationTree.expand_one_step = eos
    try:
        try:
            t = P.find_expansion_without_needle(root, needle, cg, graph)
        except Budget:
            return "budget", None
        except Exception as e:  # noqa
            return "raise", lib.exn_name(e)
    finally:
        DerivationTree.expand_one_step = orig
    return ("found", t) if t is not None else ("none", None)


def g_tree(t, with_ids=False):
    """like lib.g_tree but children as `a :: b :: nil` (nested `[..; ..]` list notations make Coq 8.16's
    parser backtrack exponentially in the nesting depth); ids are always 0 here"""
    out = {}
    stack = [(t, False)]
    while stack:
        node, done = stack.pop()
        if done:
            ch = node.children
            ks = "nil" if not ch else "(" + " :: ".join(out.pop(id(c)) for c in ch) + " :: nil)"
            out[id(node)] = f"(Node {g_str(node.value)} 0%N {'true' if ch is None else 'false'} {ks})"
        else:
            stack.append((node, True))
            for c in node.children or ():
                stack.append((c, False))
    return out[id(t)]


def g_grammar(cg):
    def alt(a):
        return "(" + " :: ".join(g_str(x) for x in a) + " :: nil)" if a else "(@nil str)"
    return "(" + " :: ".join(f"({g_str(k)}, (" + " :: ".join(alt(a) for a in alts) + " :: nil))" if alts
                             else f"({g_str(k)}, (@nil (list str)))" for k, alts in cg.items()) + " :: nil)"


def g_cres(kind, val):
    return {"found": lambda: f"(Found {g_tree(val, with_ids=False)})", "none": lambda: "NotFound",
            "raise": lambda: f"(Err {val})"}[kind]()


def g_fres(kind, val):
    return {"found": lambda: f"(FSome {g_tree(val, with_ids=False)})", "none": lambda: "FNone",
            "raise": lambda: f"(FErr {val})"}[kind]()


def g_reach_tbl(graph, nts):
    pairs = [(a, b) for a in nts for b in nts if P.reachable(graph, a, b)]
    return "[" + "; ".join(f"({g_str(a)}, {g_str(b)})" for a, b in pairs) + "]" if pairs else "(@nil (str * str))"


def fuel_lit(n):
    return f"(N.to_nat {n}%N)"


# --------------------------------------------------------------------------
class Packer:
    """collects (defs, case, meta) triples and packs them into few shards (each coqc start costs seconds)"""

    def __init__(self, size):
        self.size, self.shards, self.meta = size, [], []
        self._defs, self._seen, self._cases, self._meta = [], set(), [], []

    def add(self, defs, case, meta):
        for d in defs:
            if d not in self._seen:
                self._seen.add(d); self._defs.append(d)
        self._cases.append(case); self._meta.append(meta)
        if len(self._cases) >= self.size:
            self.flush()

    def flush(self):
        if self._cases:
            self.shards.append(("\n".join(self._defs), self._cases)); self.meta.append(self._meta)
        self._defs, self._seen, self._cases, self._meta = [], set(), [], []

    def run(self, tag, ok_def):
        self.flush()
        if not self.shards:
            return [], 0.0
        bad, dt = lib.coq_run_shards(tag, IMPORTS, ok_def, self.shards)
        return [self.meta[k][i] for k, i in bad], dt

    def __len__(self):
        return sum(len(c) for _, c in self.shards) + len(self._cases)


def lfp_nullable(cg):
    null, ch = set(), True
    while ch:
        ch = False
        for a, alts in cg.items():
            if a not in null and any(all(s in null for s in alt) for alt in alts):
                null.add(a); ch = True
    return null


def from_insert_tree(exc):
    """count() delegates tree insertion to existential_helpers.insert_tree (abstract in the C14 model, C13's
    subject); an exception raised inside it is not a count result"""
    tb = exc.__traceback__
    while tb is not None:
        if tb.tb_frame.f_code.co_filename.endswith("existential_helpers.py"):
            return True
        tb = tb.tb_next
    return False


def run(run):
    rng = random.Random(run.seed)
    thorough = run.tier == "thorough"
    run.cov["rule"] = (
        "create_fixed_length_tree: fixed family (7 grammars) + random canonical grammars (2-5 nonterminals, 1-4 "
        "alternatives, epsilon alternatives, recursion, multi-character terminals, a malformed stream with an "
        "undefined nonterminal), nonterminals as start, every target length 0..12 (thorough 0..16), "
        "random.choice recorded and replayed by the model; non-trivial = target length >= 2 and the grammar has a "
        "nullable nonterminal or a multi-character terminal. nullable sets: all grammars. "
        "find_expansion_without_needle: every (open leaf label, needle) pair of the grammars. count: random open "
        "derivation trees x needle x target -1..4 (+ variable num); non-trivial = tree has an open leaf reaching the needle. "
        "extract_model_value_int_var: real ISLaSolver objects over 3 fixed grammars (docstring grammar <sign>00<lead><digits>, "
        "plain/fixed-width/signed/'+'-mandatory/ambiguous/non-numeric/non-regular nonterminals) + random numeric grammars "
        "(sign x padding x digit-body variants), integers 0, 1, 5 + sample of {9..1234, 10^9+7 (thorough 10^20+7), negatives}; "
        "non-trivial = str(z) is rejected by the grammar (Z3 query runs: padded/signed candidate or RuntimeError)")
    proof_ok = run.proof_stage()
    t_start = time.time()

    disagreements = []  # dicts with "spec_fail": bool
    jobs = []           # (tag, obligation, packer, ok_def, handler(list of meta))
    hist = {"found": 0, "none": 0, "raise": 0, "budget": 0}

    def not_evaluable(what, e):
        run.violation({"kind": "correspondence-not-evaluable", "obligation": what, "error": str(e)[-2000:]},
                      found_input=False)

    # ---------------- grammars ----------------
    grammars = [g for g in FIXED]
    n_rand = 90 if thorough else 22
    for i in range(n_rand):
        grammars.append(rand_grammar(rng, undefined=(i % 9 == 8)))
    cgs = [canonical(g) for g in grammars]
    maxlen = 16 if thorough else 12
    budget = 400 if thorough else 120
    gdef = [f"Definition G{gi} : grammar := {g_grammar(cg)}." for gi, cg in enumerate(cgs)]

    # ---------------- 1. nullable sets ----------------
    pk = Packer(400)
    for gi, cg in enumerate(cgs):
        nu = sorted(compute_nullable_nonterminals(cg))
        pk.add([gdef[gi]], f"(G{gi}, {g_list(nu, g_str) if nu else '(@nil str)'})", (cg, nu))
        run.count(("nullable", json.dumps(cg, sort_keys=True)), True)
    def h_null(bad):
        for cg, nu in bad:
            spec = sorted(lfp_nullable(cg))
            disagreements.append({"what": "compute_nullable_nonterminals", "grammar": cg, "impl": nu,
                                  "spec": spec, "spec_fail": nu != spec})
    jobs.append(("c14n", "FixedLen.v nullables", pk,
                 "fun c : grammar * list str => set_eqb (nullables (fst c)) (snd c)", h_null))

    # ---------------- 2. create_fixed_length_tree ----------------
    pk_eq = Packer(700)
    n_found = 0
    profs = {"nullable": 0, "multichar": 0, "recursive": 0}
    for gi, cg in enumerate(cgs):
        prof = grammar_profile(cg)
        for k in profs:
            profs[k] += prof[k]
        maxalts = max(len(a) for a in cg.values())
        fuel = 4 + budget * (maxalts + 2)
        defs = [gdef[gi], f"Definition F{gi} := {fuel_lit(fuel)}."]
        starts = list(cg) if (thorough or gi < len(FIXED)) else list(cg)[:3]
        for A in starts:
            for n in range(0, maxlen + 1):
                kind, val, rec = run_cflt(cg, A, n, random.Random(rng.randrange(1 << 30)), budget)
                hist[kind] += 1
                run.count(("cflt", gi, A, n, tuple(rec[:40])), n >= 2 and (prof["nullable"] or prof["multichar"]))
                if kind == "budget":
                    continue
                olit = g_list(rec, g_nat) if rec else '(@nil nat)'
                if kind == "found":
                    # the result tree is written once (W..) and used twice: equality with the model, and
                    # acceptance by the verified checker independently of the model
                    n_found += 1
                    wdef = f"Definition W{n_found} : tree := {g_tree(val)}."
                    pk_eq.add(defs + [wdef], f"(true, G{gi}, F{gi}, {g_str(A)}, {g_nat(n)}, {olit}, Found W{n_found})",
                              ("eq", cg, A, n, rec, kind, val))
                    pk_eq.add(defs + [wdef], f"(false, G{gi}, F{gi}, {g_str(A)}, {g_nat(n)}, (@nil nat), Found W{n_found})",
                              ("acc", cg, A, n, rec, kind, val))
                    if len(run.cov["samples"]) < 3 and n >= 3:
                        run.sample({"grammar": cg, "start": A, "n": n, "choices": rec[:20], "result": str(val),
                                    "tree": tree_json(val)})
                else:
                    pk_eq.add(defs, f"(true, G{gi}, F{gi}, {g_str(A)}, {g_nat(n)}, {olit}, {g_cres(kind, val)})",
                              ("eq", cg, A, n, rec, kind, val))
    run.cov["cflt_outcomes"] = hist
    run.cov["grammars"] = len(cgs)
    run.cov["grammar_profiles"] = profs
    run.cov["python_seconds_cflt"] = round(time.time() - t_start, 1)
    _dbg("cflt python done", run.cov["python_seconds_cflt"], hist)
    def h_cflt(bad):
        for mode, cg, A, n, rec, kind, val in bad:
            fail = kind == "found" and not ref_meets_length(cg, A, n, val)
            if mode == "eq":
                disagreements.append({"what": "create_fixed_length_tree", "grammar": cg, "start": A, "n": n,
                                      "choices": rec, "impl": [kind, tree_json(val) if kind == "found" else val],
                                      "impl_string": str(val) if kind == "found" else None, "spec_fail": fail})
            else:
                disagreements.append({"what": "create_fixed_length_tree (output rejected by wf_treeb/closedb/length)",
                                      "grammar": cg, "start": A, "n": n, "impl": ["found", tree_json(val)],
                                      "impl_string": str(val), "spec_fail": fail, "coq_rejects": True})
        run.cov["accepted_outputs"] = n_found - sum(1 for b in bad if b[0] == "acc")
    jobs.append(("c14f", "FixedLen.v cflt / meets_length acceptance", pk_eq,
                 "fun c : bool * grammar * nat * str * nat * list nat * cres => let '(eq, g, f, A, n, o, r) := c in "
                 "if eq then cres_eqb (cflt f g A n o) r "
                 "else match r with Found t => meets_length g A n t | _ => true end", h_cflt))

    # ---------------- 3. count / find_expansion_without_needle ----------------
    chist = {"false": 0, "true": 0, "notready": 0, "bind_num": 0, "bind_tree": 0, "raise": 0, "insert_tree_raise": 0, "timeout": 0,
             "skipped_after_timeout": 0,
             "few_found": 0, "few_none": 0, "few_budget": 0, "few_raise": 0}
    pk_few, pk_dec, pk_res = Packer(600), Packer(900), Packer(600)
    count_grammars = [(gi, g, cg) for gi, (g, cg) in enumerate(zip(grammars, cgs))
                      if all(s in cg for alts in cg.values() for alt in alts for s in alt if ref_is_nt(s))
                      and all(cg[a] for a in cg)]
    count_grammars = count_grammars[: (40 if thorough else 12)]
    t_count = time.time()
    for gi, g, cg in count_grammars:
        try:
            graph = gg.GrammarGraph.from_grammar(g)
        except Exception:  # noqa  (grammar not acceptable to the graph library)
            continue
        in_graph = {n.symbol for n in graph.all_nodes}
        nts = [a for a in cg if a in in_graph]
        if "<start>" not in nts:
            continue
        _dbg("count grammar", gi, g)
        defs = [gdef[gi], f"Definition R{gi} := reach_of {g_reach_tbl(graph, nts)}."]
        # -- find_expansion_without_needle --
        for A in nts:
            for needle in nts:
                kind, val = run_few(cg, graph, DerivationTree(A, None), needle, 60)
                chist["few_" + kind] += 1
                run.count(("few", gi, A, needle), P.reachable(graph, A, needle))
                if kind == "budget":
                    continue
                pk_few.add(defs, f"(G{gi}, R{gi}, {g_str(A)}, {g_str(needle)}, {g_fres(kind, val)})",
                           (cg, A, needle, kind, val))
        # -- count --
        ntrees = 10 if thorough else 6
        g_timeouts, hung = 0, set()
        for ti in range(ntrees):
            t = rand_open_tree(rng, cg, "<start>", rng.randint(1, 4))
            if len(list(t.paths())) > 40:
                continue
            tdef = f"Definition T{gi}_{ti} : tree := {g_tree(t)}."
            for needle in nts[: 3]:
                more = any(P.reachable(graph, s.value, needle) for _, s in t.open_leaves())
                for tgt in [None, -1, 0, 1, 2, 3, 4]:
                    sub_seed = rng.randrange(1 << 30)   # drawn before any skip: the case stream stays the same
                    if chist["timeout"] >= 6 or g_timeouts >= 2 or (ti, needle) in hung:
                        chist["skipped_after_timeout"] += 1
                        continue  # inconclusive: this search does not come back; do not spend the budget again
                    num = Constant("n", "<start>") if tgt is None else DerivationTree(str(tgt), ())
                    st = random.getstate()
                    random.seed(sub_seed)
                    try:
                        out = with_alarm(COUNT_CPU_S, P.COUNT_PREDICATE.evaluate, graph, t, needle, num).result
                    except CallTimeout:
                        # cut by the CPU budget: no result was observed -> nothing to compare, not a disagreement
                        chist["timeout"] += 1
                        g_timeouts += 1
                        hung.add((ti, needle))
                        if len(run.cov.setdefault("count_timeouts", [])) < 4:
                            run.cov["count_timeouts"].append({"grammar": cg, "in_tree": str(t), "needle": needle,
                                                              "target": tgt, "cpu_budget_s": COUNT_CPU_S})
                        continue
                    except Exception as e:  # noqa
                        out = e
                    finally:
                        random.setstate(st)
                    run.count(("count", gi, ti, needle, tgt), more)
                    if isinstance(out, Exception):
                        if from_insert_tree(out):
                            chist["insert_tree_raise"] += 1
                        else:
                            chist["raise"] += 1
                            disagreements.append({"what": "count raised", "grammar": cg, "tree": tree_json(t),
                                                  "needle": needle, "target": tgt, "impl": repr(out)[:300],
                                                  "spec_fail": True})
                        continue
                    if out is False:
                        lit, kind = "CFalse", "false"
                    elif out is True:
                        lit, kind = "CTrue", "true"
                    elif out is None:
                        lit, kind = "CNotReady", "notready"
                    elif tgt is None:
                        lit, kind = f"(CBind {g_nat(int(out[num].value))})", "bind_num"
                    else:
                        lit, kind = "CSearch", "bind_tree"
                    chist[kind] += 1
                    # decision skeleton: a False after the insertion search is CSearch in the model (flag)
                    pk_dec.add(defs + [tdef],
                               f"(R{gi}, {g_str(needle)}, T{gi}_{ti}, {'None' if tgt is None else f'(Some ({tgt})%Z)'}, "
                               f"{lit}, {'true' if kind == 'false' else 'false'})", (cg, t, needle, tgt, kind))
                    if kind == "bind_tree":
                        c = out[t]
                        pk_res.add(defs, f"(G{gi}, R{gi}, {g_str(needle)}, {g_nat(tgt)}, {g_tree(c)})",
                                   (cg, t, needle, tgt, c))
                        if len(run.cov["samples"]) < 6:
                            run.sample({"grammar": cg, "in_tree": str(t), "needle": needle, "target": tgt, "result": str(c)})
    run.cov["count_outcomes"] = chist
    run.cov["python_seconds_count"] = round(time.time() - t_count, 1)
    _dbg("count python done", run.cov["python_seconds_count"], chist)
    def h_few(bad):
        for cg, A, needle, kind, val in bad:
            fail = False
            if kind == "found":
                reach = ref_reach(cg)
                inner_needle = sum(1 for p, s in val.paths() if p and s.value == needle)
                more = any(needle in reach.get(s.value, ()) for _, s in val.paths() if s.children is None)
                fail = inner_needle > 0 or more or not ref_valid(cg, val) or val.value != A
            disagreements.append({"what": "find_expansion_without_needle", "grammar": cg, "root": A, "needle": needle,
                                  "impl": [kind, tree_json(val) if kind == "found" else val], "spec_fail": fail})
    jobs.append(("c14w", "FixedLen.v few", pk_few,
                 "fun c : grammar * (str -> str -> bool) * str * str * fres => let '(g, R, A, nd, r) := c in "
                 "match few R 400 g nd (Node A 0%N true []), r with FSome s, FSome t => tree_seqb s t "
                 "| FNone, FNone => true | FErr e, FErr f => exn_eqb e f | _, _ => false end", h_few))

    def h_dec(bad):
        for cg, t, needle, tgt, kind in bad:
            # spec: a definite verdict must agree with the node count when no more needles are possible
            reach = ref_reach(cg)
            occ = sum(1 for _, s in t.paths() if s.value == needle)
            more = any(needle in reach.get(s.value, ()) for _, s in t.paths() if s.children is None)
            fail = (kind == "true" and occ != tgt) or (kind == "false" and not more and occ == tgt) \
                or (kind == "bind_num" and more)
            disagreements.append({"what": "count decision", "grammar": cg, "tree": tree_json(t), "needle": needle,
                                  "target": tgt, "impl": kind, "spec_fail": bool(fail)})
    jobs.append(("c14d", "FixedLen.v count_decide", pk_dec,
                 "fun c : (str -> str -> bool) * str * tree * option Z * cdec * bool => let '(R, nd, t, tg, r, fl) := c in "
                 "let m := match tg with None => count_var R nd t | Some z => count_decide R nd t z end in "
                 "match m, r with CFalse, CFalse | CTrue, CTrue | CNotReady, CNotReady | CSearch, CSearch => true "
                 "| CBind a, CBind b => Nat.eqb a b | CSearch, CFalse => fl | _, _ => false end", h_dec))

    def h_res(bad):
        run.cov["count_bindings_accepted"] = len(pk_res) - len(bad)
        for cg, t, needle, tgt, c in bad:
            fail = not (ref_meets_count(cg, needle, tgt, c) and ref_valid(cg, c))
            disagreements.append({"what": "count result binding rejected", "grammar": cg, "in_tree": tree_json(t),
                                  "needle": needle, "target": tgt, "impl": tree_json(c), "impl_string": str(c),
                                  "spec_fail": fail})
    jobs.append(("c14r", "meets_count acceptance", pk_res,
                 "fun c : grammar * (str -> str -> bool) * str * nat * tree => let '(g, R, nd, tg, t) := c in "
                 "meets_count R nd tg t && wf_treeb g t", h_res))

    # ---------------- 3b. extract_model_value_int_var (stream `int`, harness/c14_int.py) ----------------
    import sys
    try:
        jobs.append(c14_int.build(run, thorough, disagreements, sys.modules[__name__]))
    except Exception as e:      # a crash of the driver itself is a broken correspondence, not a verdict
        not_evaluable("IntValue.v int_value (driver)", repr(e))
    _dbg("int python done", run.cov.get("python_seconds_int"), run.cov.get("int_outcomes"))

    # ---------------- evaluate all models in Coq (all batches concurrently) ----------------
    import concurrent.futures as cf
    t_coq = time.time()
    with cf.ThreadPoolExecutor(max_workers=len(jobs)) as ex:
        futs = [(job, ex.submit(job[2].run, job[0], job[3])) for job in jobs]
        for job, fu in futs:
            try:
                bad, dt = fu.result()
                run.cov.setdefault("coq_seconds", {})[job[0]] = round(dt, 1)
                job[4](bad)
            except RuntimeError as e:
                not_evaluable(job[1], e)
    run.cov["coq_seconds_total"] = round(time.time() - t_coq, 1)
    _dbg("count coq done", len(disagreements))

    # ---------------- 4. classify ----------------
    run.cov["disagreements_checked"] = len(disagreements)
    failing = [d for d in disagreements if d["spec_fail"]]
    if failing:
        failing.sort(key=lambda d: len(json.dumps(d, default=str)))
        run.violation({"kind": "built tree does not meet its target", "witness": failing[0], "all_failing": len(failing),
                       "how_to_replay": "./check C14 --replay <this file>",
                       "theorem": "Props/C14.v + correspondence FixedLen.v"})
    elif disagreements:
        disagreements.sort(key=lambda d: len(json.dumps(d, default=str)))
        run.violation({"kind": "correspondence broken but the property holds on every case searched",
                       "first": disagreements[0], "count": len(disagreements),
                       "obligation": ("correspondence IntValue.v <-> " if disagreements[0]['what'].startswith("extract_model")
                                      else "correspondence FixedLen.v <-> ") + disagreements[0]['what']}, found_input=False)
    if not proof_ok:
        run.violation({"kind": "proof obligation failed", "problems": run.proof_problems,
                       "obligation": "Props/C14.v"}, found_input=False)
    run.cov["trusted_base"] = lib.TRUSTED_BASE_COMMON + [
        "random.choice is modelled as an arbitrary oracle stream (the recorded indices are replayed by the model)",
        "GrammarGraph.reachable enters the count model as a function argument (table computed by the library; the "
        "harness reference recomputes it as the transitive closure of the grammar)",
        "insert_tree results are abstract inputs of finish_candidate (C13); node ids are ignored",
        "extract_model_value_int_var: the Z3 query (maybe_plus, padding against extract_regular_expression) is an "
        "oracle of the model; its answer is read off the string handed to the second ISLaSolver.parse call "
        "(recorded by a wrapper) and checked in Coq to have the supported shape; soundness theorems hold for every "
        "oracle; ISLaSolver.parse is the C10 model solver_parse (fuel hfuel proved sufficient)",
        "termination is not claimed: runs of the implementation cut by a budget are inconclusive and skipped "
        "(create_fixed_length_tree: call budget, cflt_outcomes.budget; count: CPU-time budget, count_outcomes.timeout)"]


def replay(path):
    d = json.load(open(path))
    w = d.get("witness")
    if not w:
        print("replay file names an obligation, not an input:", d.get("obligation")); return 1
    cg = {k: [list(a) for a in v] for k, v in w["grammar"].items()}
    if w["what"].startswith("extract_model_value_int_var"):
        import sys
        return c14_int.replay_int(sys.modules[__name__], w)
    if w["what"].startswith("create_fixed_length_tree"):
        if "choices" in w:
            # re-run the implementation with the recorded choices (then the run's PRNG), under the call budget:
            # the search need not terminate
            it = iter(w["choices"])
            fallback = random.Random(d.get("seed", 0))

            class _R:
                def randrange(self, k):
                    i = next(it, None)
                    return i if i is not None and i < k else fallback.randrange(k)
            kind, t, _ = run_cflt(cg, w["start"], w["n"], _R(), 2000)
            if kind == "budget":
                print("impl: no result within the call budget (search does not terminate here)"); return 0
            if kind == "raise":
                print("impl: raised", t); return 0
        else:
            t = tree_from_json(w["impl"][1])
        ok = t is None or ref_meets_length(cg, w["start"], w["n"], t)
        print("impl:", None if t is None else repr(str(t)), "meets target:", ok)
        return 0 if ok else 1
    print("witness kind:", w["what"], "- re-run ./check C14 to re-evaluate")
    return 1
