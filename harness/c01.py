"""C01 — every tree returned by ISLaSolver.solve() is a closed derivation tree of the grammar rooted
at the (requested) start symbol and satisfies the ORIGINAL constraint under the SPECIFICATION
semantics (coq/Logic/Semantics.v), for every prefix of the solution sequence.

Tie = RUNTIME VERIFIED CHECK: the solver is run on generated (grammar, constraint, settings)
instances; every returned tree is checked INSIDE COQ by `sol_check` (Solver/State.v: shape_ok,
wf_treeb, closedb, root label, satb of the original constraint with the proved satb_spec); Sound.v
proves `sol_check = 0 -> C01 statement for that tree`.  Constraints are generated AST-first (own
AST below); the oracle formula is encoded to Gallina from that AST and never passes through ISLa's
parser or formula classes (only BindExpression.to_tree_prefix is used for match-expression prefix
trees, which are inputs of the specification, DESIGN.md C03).  The same instance is additionally
decided by harness/spec_sem.py (Z3 on ground atoms) — a cross-check of the two oracles.

Second stream = TRACE CONFORMANCE (trace_stage): a sample of the instances is run again with
ISLaSolver(debug=True); every recorded edge of solver.state_tree (state polled by solve() ->
successor enqueued by state_is_valid_or_enqueue) and every edge (state being processed -> returned
tree) is classified INSIDE COQ by TraceConf.edge_kind (equal tree / completion / completion up to
node ids / insertion / subtree replaced with nodes lost (informational) / non-conforming); Props/C01.v C01_trace_edge_sound and the C01_trace_...
theorems turn a conforming edge into the tree part of a rule of the abstract system
(Solver/Rules*.v).  A non-conforming edge is a VIOLATION (replayable) unless it falls into the open
finding class K_const_type (root label changes).

Crashes/timeouts of the solver are C02 matters: caught and counted, not reported here."""
import json, multiprocessing as mp, os, random, signal, sys, time, hashlib
import lib
from lib import g_str, g_list, g_path, g_tree, g_bool, g_Z, g_grammar
from gen_trees import tree_json, tree_from_json

# --------------------------------------------------------------------------
# grammars (small; every nonterminal reachable from <start>)
# --------------------------------------------------------------------------
G_ASSGN = {"<start>": ["<stmt>"], "<stmt>": ["<assgn>", "<assgn>;<stmt>"], "<assgn>": ["<var>=<rhs>"],
           "<rhs>": ["<var>", "<digit>"], "<var>": ["a", "b", "c"], "<digit>": ["0", "1", "2"]}
G_NUM = {"<start>": ["<pair>"], "<pair>": ["<num>,<num>"], "<num>": ["<digit>", "<digit><num>"],
         "<digit>": list("0123456789")}
G_LREC = {"<start>": ["<as>"], "<as>": ["<as><b>", "<b>"], "<b>": ["x", "y", "z"]}
G_BLOCK = {"<start>": ["<block>"], "<block>": ["(<items>)"], "<items>": ["<item>", "<item><items>"],
           "<item>": ["<block>", "<id>"], "<id>": ["p", "q"]}
G_EPS = {"<start>": ["<list>"], "<list>": ["", "<item><list>"], "<item>": ["a", "b", "<n>"], "<n>": ["7", "42"]}
G_ROWS = {"<start>": ["<rows>"], "<rows>": ["<row>", "<row>;<rows>"], "<row>": ["<field>", "<field>,<row>"],
          "<field>": ["a", "b"]}
G_D34 = {"<start>": ["<d>"], "<d>": ["3", "4"]}
# nested list-like structures (two count atoms over an outer and an inner tree)
G_DOC = {"<start>": ["<doc>"], "<doc>": ["<header>;<body>"], "<header>": ["<hitems>"],
         "<hitems>": ["<h>", "<h><hitems>"], "<h>": ["h"], "<body>": ["<bitems>"],
         "<bitems>": ["<b>", "<b><bitems>"], "<b>": ["b"]}
# nested elements id(content)id: match expressions reaching two derivation levels deep
G_ELEM = {"<start>": ["<doc>"], "<doc>": ["<elem>"], "<elem>": ["<open><content><close>"], "<open>": ["<id>("],
          "<close>": [")<id>"], "<content>": ["<elem>", "<text>"], "<id>": ["a", "b", "c", "d"], "<text>": ["x", "y"]}
GRAMMARS = {"assgn": G_ASSGN, "num": G_NUM, "lrec": G_LREC, "block": G_BLOCK, "eps": G_EPS, "rows": G_ROWS,
            "doc": G_DOC, "elem": G_ELEM, "d34": G_D34}
PROBE_ONLY = {"d34"}     # used by fixed probes only (the generated stream does not draw from it)
# nonterminals deriving only numerals (str.to.int may be applied to these, as the spec requires)
NUMERIC = {"assgn": ["<digit>"], "num": ["<num>", "<digit>"], "lrec": [], "block": [], "eps": ["<n>"], "rows": [], "doc": [], "elem": []}
# alternative start symbols (start_symbol=...)
ALT_START = {"assgn": ["<stmt>", "<assgn>"], "num": ["<pair>", "<num>"], "lrec": ["<as>"], "block": ["<block>", "<items>"],
             "eps": ["<list>"], "rows": ["<rows>", "<row>"], "doc": ["<doc>", "<header>"],
             "elem": ["<elem>", "<elem>", "<doc>"]}
# literals per nonterminal (mostly derivable, some not)
LITS = {
    "assgn": {"<var>": ["a", "b", "c", "d"], "<rhs>": ["a", "1", "c", "2"], "<digit>": ["0", "1", "2", "7"],
              "<assgn>": ["a=b", "b=1", "c=c", "a=9"], "<stmt>": ["a=b", "a=1;b=a", "c=2;c=2;a=a"]},
    "num": {"<num>": ["0", "7", "12", "007", "x"], "<digit>": ["0", "5", "9"], "<pair>": ["1,2", "10,0"]},
    "lrec": {"<b>": ["x", "y", "z", "w"], "<as>": ["x", "xy", "zzz", "yx"]},
    "block": {"<id>": ["p", "q", "r"], "<item>": ["p", "(q)", "q"], "<items>": ["p", "pq", "q(p)"],
              "<block>": ["(p)", "(pq)", "((q))"]},
    "eps": {"<item>": ["a", "b", "7", "42"], "<n>": ["7", "42", "8"], "<list>": ["", "a", "ab", "a7"]},
    "rows": {"<field>": ["a", "b", "c"], "<row>": ["a", "a,b", "b,b,a"], "<rows>": ["a", "a;b", "a,b;b"]},
    "doc": {"<hitems>": ["h", "hh", "hhh"], "<bitems>": ["b", "bb"], "<header>": ["h", "hh"], "<body>": ["b", "bbb"],
            "<doc>": ["h;b", "hh;bb"]},
    "elem": {"<id>": ["a", "b", "d", "e"], "<text>": ["x", "y", "z"], "<content>": ["x", "a(y)a"],
             "<elem>": ["a(x)a", "b(a(y)a)b"], "<open>": ["a(", "c("], "<close>": [")a", ")d"]},
}
MEXPRS = {
    "assgn": [("<assgn>", [("bind", "l", "<var>"), "=", ("bind", "r", "<rhs>")]),
              ("<assgn>", ["<var>=", ("bind", "r", "<rhs>")]),
              ("<stmt>", [("bind", "h", "<assgn>"), ";", ("bind", "s", "<stmt>")]),
              ("<stmt>", [("bind", "h", "<assgn>"), [";", "<stmt>"]]),
              ("<rhs>", [("bind", "d", "<digit>")])],
    "num": [("<pair>", [("bind", "l", "<num>"), ",", ("bind", "r", "<num>")]),
            ("<num>", [("bind", "d", "<digit>"), ("bind", "n", "<num>")]),
            ("<num>", [("bind", "d", "<digit>"), ["<num>"]])],
    "lrec": [("<as>", [("bind", "r", "<as>"), ("bind", "e", "<b>")]),
             ("<as>", [("bind", "e", "<b>")])],
    "block": [("<block>", ["(", ("bind", "s", "<items>"), ")"]),
              ("<items>", [("bind", "h", "<item>"), ("bind", "r", "<items>")]),
              ("<item>", [("bind", "b", "<block>")])],
    "eps": [("<list>", [("bind", "h", "<item>"), ("bind", "r", "<list>")]),
            ("<item>", [("bind", "k", "<n>")])],
    "rows": [("<row>", [("bind", "f", "<field>"), ",", ("bind", "r", "<row>")]),
             ("<rows>", [("bind", "h", "<row>"), ";", ("bind", "t", "<rows>")])],
    "doc": [("<doc>", [("bind", "hd", "<header>"), ";", ("bind", "bd", "<body>")]),
            ("<hitems>", [("bind", "x", "<h>"), ("bind", "r", "<hitems>")])],
    # two levels deep: <elem> -> <open> -> <id> "(" ... ")" <id> <- <close>
    "elem": [("<elem>", [("bind", "o", "<id>"), "(", "<content>", ")", ("bind", "c", "<id>")]),
             ("<elem>", [("bind", "o", "<id>"), "(", ("bind", "ct", "<content>"), ")", "<id>"]),
             ("<elem>", [("bind", "p", "<open>"), ("bind", "ct", "<content>"), ("bind", "q", "<close>")])],
}
# match expressions that reach two derivation levels deep in the older grammars
MEXPRS["assgn"].append(("<stmt>", [("bind", "l", "<var>"), "=", ("bind", "r", "<rhs>")]))
MEXPRS["block"].append(("<block>", ["(", ("bind", "h", "<item>"), ("bind", "r", "<items>"), ")"]))
PRED2 = ["before", "after", "inside", "same_position", "different_position", "direct_child", "consecutive"]
OPS = ["EQ", "GE", "LE", "GT", "LT"]
CMPS = [("CEq", "="), ("CLt", "<"), ("CLe", "<="), ("CGt", ">"), ("CGe", ">=")]


def is_nt(s):
    return len(s) > 1 and s[0] == "<" and s[-1] == ">"


def nonterminals(g):
    return [k for k in g if k != "<start>"]


def reach(g, a):
    from isla.helpers import canonical
    cg = canonical(g)
    seen, todo = set(), [a]
    while todo:
        x = todo.pop()
        for alt in cg[x]:
            for s in alt:
                if s in cg and s not in seen:
                    seen.add(s)
                    todo.append(s)
    return seen


# --------------------------------------------------------------------------
# constraint generator (own AST; biased towards satisfiable, solvable constraints)
#   atoms  ("streq", neg, term, term) ("len", (Cmp, op), term, n) ("toint", (Cmp, op), term, n)
#          ("toint2", (Cmp, op), term, term) ("sp", name, [args]) ("count", var, nt, "k")
#   term   ("var", (name, type)) | ("lit", s);  sp args ("var", v) | ("str", s)
#   ("not", f) ("and", [f..]) ("or", [f..]) ("forall"|"exists", (name, type), in_var, mexpr|None, body)
# --------------------------------------------------------------------------
def gen_atom(rng, gname, g, scope, root_type):
    nts = nonterminals(g)
    v = rng.choice(scope[1:] if len(scope) > 1 and rng.random() < 0.85 else scope)
    lits = LITS[gname].get(v[1]) or ["x"]
    r = rng.random()
    numeric = [x for x in scope if x[1] in NUMERIC[gname]]
    if r < 0.28:
        same = [w for w in scope if w != v and w[1] == v[1]]
        if same and rng.random() < 0.4:
            return ("streq", rng.random() < 0.3, ("var", v), ("var", rng.choice(same)))
        return ("streq", rng.random() < 0.3, ("var", v), ("lit", rng.choice(lits)))
    if r < 0.40:
        return ("len", rng.choice(CMPS), ("var", v), rng.randint(0, 5))
    if r < 0.58 and numeric:
        x = rng.choice(numeric)
        if len(numeric) > 1 and rng.random() < 0.35:
            y = rng.choice([w for w in numeric if w != x])
            return ("toint2", rng.choice(CMPS), ("var", x), ("var", y))
        return ("toint", rng.choice(CMPS), ("var", x), rng.choice([0, 1, 2, 5, 7, 12, 42, 100]))
    if r < 0.78 and len(scope) > 1:
        w = rng.choice(scope)
        return ("sp", rng.choice(PRED2), [("var", v), ("var", w)])
    if r < 0.86:
        w = rng.choice(scope)
        return ("sp", "nth", [("str", str(rng.randint(1, 3))), ("var", v), ("var", w)])
    if r < 0.91 and len(scope) > 1:
        w = rng.choice(scope)
        return ("sp", "level", [("str", rng.choice(OPS)), ("str", rng.choice(nts)), ("var", v), ("var", w)])
    if r < 0.97:
        below = sorted(reach(g, v[1])) or nts
        if rng.random() < 0.4:      # negated count (the solver must AVOID the number), targets 1-4
            return ("not", ("count", v, rng.choice(below), str(rng.randint(1, 4))))
        return ("count", v, rng.choice(below), str(rng.randint(0, 3)))
    return ("streq", False, ("var", v), ("lit", rng.choice(lits)))


def gen_body(rng, gname, g, scope, depth, root_type):
    r = rng.random()
    if depth <= 0 or r < 0.5:
        return gen_atom(rng, gname, g, scope, root_type)
    if r < 0.58:
        return ("not", gen_body(rng, gname, g, scope, depth - 1, root_type))
    if r < 0.80:
        return ("and", [gen_body(rng, gname, g, scope, depth - 1, root_type) for _ in range(rng.randint(2, 3))])
    return ("or", [gen_body(rng, gname, g, scope, depth - 1, root_type) for _ in range(rng.randint(2, 3))])


def gen_formula(rng, gname, g, scope, qdepth, counter, root_type):
    if qdepth <= 0:
        return gen_body(rng, gname, g, scope, rng.randint(0, 2), root_type)
    r = rng.random()
    if r < 0.10:
        return (rng.choice(["and", "or"]),
                [gen_formula(rng, gname, g, scope, qdepth - 1, counter, root_type) for _ in range(2)])
    if r < 0.14:
        return ("not", gen_formula(rng, gname, g, scope, qdepth - 1, counter, root_type))
    kind = "forall" if rng.random() < 0.55 else "exists"
    in_var = rng.choice(scope) if rng.random() < 0.4 else scope[0]
    below = sorted(reach(g, in_var[1]))
    if not below:
        in_var = scope[0]
        below = sorted(reach(g, in_var[1]))
    counter[0] += 1
    suffix = str(counter[0])
    mex = [m for m in MEXPRS[gname] if m[0] in below]
    if mex and rng.random() < 0.3:
        ty, elems = rng.choice(mex)
        elems2, bound = [], []
        for e in elems:
            if isinstance(e, tuple):
                elems2.append(("bind", e[1] + suffix, e[2]))
                bound.append((e[1] + suffix, e[2]))
            else:
                elems2.append(e)
        name = "m" + suffix
        return (kind, (name, ty), in_var, elems2,
                gen_formula(rng, gname, g, scope + [(name, ty)] + bound, qdepth - 1, counter, root_type))
    ty = rng.choice(below)
    name = "v" + suffix
    return (kind, (name, ty), in_var, None,
            gen_formula(rng, gname, g, scope + [(name, ty)], qdepth - 1, counter, root_type))


def conjuncts(ast):
    return list(ast[1]) if ast[0] == "and" else [ast]


def has_mexpr(f):
    k = f[0]
    if k in ("forall", "exists"):
        return f[3] is not None or has_mexpr(f[4])
    if k == "not":
        return has_mexpr(f[1])
    if k in ("and", "or"):
        return any(has_mexpr(x) for x in f[1])
    return False


def kinds_of(f, acc=None):
    """feature set of a constraint (histogram)"""
    acc = set() if acc is None else acc
    k = f[0]
    if k in ("forall", "exists"):
        acc.add(k + ("+mexpr" if f[3] is not None else ""))
        kinds_of(f[4], acc)
    elif k == "not":
        acc.add("not")
        kinds_of(f[1], acc)
    elif k in ("and", "or"):
        acc.add(k)
        for x in f[1]:
            kinds_of(x, acc)
    elif k == "sp":
        acc.add("sp:" + f[1])
    elif k in ("forallint", "existsint"):
        acc.add(k)
        kinds_of(f[2], acc)
    else:
        acc.add(k)
    return acc


def has_numq(ast):
    """numeric quantifiers: outside satb's decided fragment (no_numq); the constraint of such an
    instance is judged by spec_sem.py (bounded search over numerals), the tree by Coq"""
    return bool({"forallint", "existsint"} & kinds_of(ast))


# --------------------------------------------------------------------------
# own AST -> isla objects (direct construction) / concrete syntax (own printer)
# --------------------------------------------------------------------------
def mk_var(nt):
    from isla import language as L
    name, ty = nt
    return L.Constant(name, ty) if name == "start" else L.BoundVariable(name, ty)


def mk_bind(mexpr):
    from isla import language as L
    return L.BindExpression(*[L.BoundVariable(e[1], e[2]) if isinstance(e, tuple) else e for e in mexpr])


def build(f):
    import z3
    from isla import language as L
    from isla.z3_helpers import z3_eq
    from isla.isla_predicates import STANDARD_STRUCTURAL_PREDICATES, COUNT_PREDICATE
    SP = {p.name: p for p in STANDARD_STRUCTURAL_PREDICATES}
    zt = lambda t: z3.String(t[1][0]) if t[0] == "var" else z3.StringVal(t[1])
    cmpz = lambda op, a, b: {"=": z3_eq(a, b), "<": a < b, "<=": a <= b, ">": a > b, ">=": a >= b}[op]
    k = f[0]
    if k == "streq":
        _, neg, a, b = f
        e = z3_eq(zt(a), zt(b))
        e = z3.Not(e) if neg else e
        vs = []
        for t in (a, b):
            if t[0] == "var" and mk_var(t[1]) not in vs:
                vs.append(mk_var(t[1]))
        return L.SMTFormula(e, *vs)
    if k == "len":
        _, (_, op), a, n = f
        return L.SMTFormula(cmpz(op, z3.Length(zt(a)), z3.IntVal(n)), mk_var(a[1]))
    if k == "toint":
        _, (_, op), a, n = f
        return L.SMTFormula(cmpz(op, z3.StrToInt(zt(a)), z3.IntVal(n)), mk_var(a[1]))
    if k == "toint2":
        _, (_, op), a, b = f
        return L.SMTFormula(cmpz(op, z3.StrToInt(zt(a)), z3.StrToInt(zt(b))), mk_var(a[1]), mk_var(b[1]))
    if k == "sp":
        return L.StructuralPredicateFormula(SP[f[1]], *[mk_var(a[1]) if a[0] == "var" else a[1] for a in f[2]])
    if k == "count":
        return L.SemanticPredicateFormula(COUNT_PREDICATE, mk_var(f[1]), f[2], f[3])
    if k == "not":
        return L.NegatedFormula(build(f[1]))
    if k == "and":
        return L.ConjunctiveFormula(*[build(x) for x in f[1]])
    if k == "or":
        return L.DisjunctiveFormula(*[build(x) for x in f[1]])
    if k in ("forallint", "existsint"):
        cls = L.ForallIntFormula if k == "forallint" else L.ExistsIntFormula
        return cls(L.BoundVariable(f[1], L.Variable.NUMERIC_NTYPE), build(f[2]))
    if k == "countv":      # count(tree var, "<nt>", numeric variable)
        return L.SemanticPredicateFormula(COUNT_PREDICATE, mk_var(f[1]), f[2],
                                          L.BoundVariable(f[3], L.Variable.NUMERIC_NTYPE))
    if k in ("forall", "exists"):
        _, bv, in_var, mexpr, body = f
        cls = L.ForallFormula if k == "forall" else L.ExistsFormula
        return cls(mk_var(bv), mk_var(in_var), build(body), None if mexpr is None else mk_bind(mexpr))
    raise ValueError(k)


def smt_lit(s):
    return '"' + s.replace('"', '""') + '"'


def unparse(f):
    """own printer to ISLa concrete syntax"""
    tt = lambda t: t[1][0] if t[0] == "var" else smt_lit(t[1])
    k = f[0]
    if k == "streq":
        _, neg, a, b = f
        s = f"(= {tt(a)} {tt(b)})"
        return f"(not {s})" if neg else s
    if k == "len":
        return f"({f[1][1]} (str.len {tt(f[2])}) {f[3]})"
    if k == "toint":
        return f"({f[1][1]} (str.to.int {tt(f[2])}) {f[3]})"
    if k == "toint2":
        return f"({f[1][1]} (str.to.int {tt(f[2])}) (str.to.int {tt(f[3])}))"
    if k == "sp":
        return f[1] + "(" + ", ".join(a[1][0] if a[0] == "var" else '"' + a[1] + '"' for a in f[2]) + ")"
    if k == "count":
        return f'count({f[1][0]}, "{f[2]}", "{f[3]}")'
    if k == "countv":
        return f'count({f[1][0]}, "{f[2]}", {f[3]})'
    if k in ("forallint", "existsint"):
        return f"{k[:-3]} int {f[1]}: ({unparse(f[2])})"
    if k == "not":
        return "not (" + unparse(f[1]) + ")"
    if k in ("and", "or"):
        return "(" + f" {k} ".join("(" + unparse(x) + ")" for x in f[1]) + ")"
    if k in ("forall", "exists"):
        _, bv, in_var, mexpr, body = f
        me = ""
        if mexpr is not None:
            def el(e):
                if isinstance(e, tuple):
                    return "{" + e[2] + " " + e[1] + "}"
                if isinstance(e, list):
                    return "[" + "".join(e) + "]"
                return e
            me = '="' + "".join(el(e) for e in mexpr).replace('"', '\\"') + '"'
        return f"{k} {bv[1]} {bv[0]}{me} in {in_var[0]}: ({unparse(body)})"
    raise ValueError(k)


# --------------------------------------------------------------------------
# own AST -> Gallina (formula satom)
# --------------------------------------------------------------------------
def g_var(name, ty, kind=None):
    kind = kind or ("VConst" if name == "start" else "VBound")
    return f"(MkVar {kind} {g_str(name)} {g_str(ty)})"


def g_isla_var(v):
    from isla import language as L
    kind = "VConst" if isinstance(v, L.Constant) else "VDummy" if isinstance(v, L.DummyVariable) else "VBound"
    return g_var(v.name, v.n_type, kind)


def g_term(t):
    return f"(SVar {g_var(*t[1])})" if t[0] == "var" else f"(SLit {g_str(t[1])})"


def g_formula(f, grammar):
    k = f[0]
    if k == "streq":
        return f"(FSmt (SStr {g_bool(f[1])} {g_term(f[2])} {g_term(f[3])}))"
    if k == "len":
        return f"(FSmt (SLen {f[1][0]} {g_term(f[2])} {g_Z(f[3])}))"
    if k == "toint":
        return f"(FSmt (SToInt {f[1][0]} {g_term(f[2])} {g_Z(f[3])}))"
    if k == "toint2":
        return f"(FSmt (SToInt2 {f[1][0]} {g_term(f[2])} {g_term(f[3])}))"
    if k == "sp":
        args = [f"(PVar {g_var(*a[1])})" if a[0] == "var" else f"(PStr {g_str(a[1])})" for a in f[2]]
        return f"(FSPred {g_str(f[1])} {g_list(args)})"
    if k == "count":
        return f"(FSemPred {g_str('count')} [PVar {g_var(*f[1])}; PStr {g_str(f[2])}; PStr {g_str(f[3])}])"
    if k == "not":
        return f"(FNot {g_formula(f[1], grammar)})"
    if k in ("and", "or"):
        return f"({'FAnd' if k == 'and' else 'FOr'} {g_list([g_formula(x, grammar) for x in f[1]])})"
    if k in ("forall", "exists"):
        _, bv, in_var, mexpr, body = f
        m = "None"
        if mexpr is not None:
            be = mk_bind(mexpr)
            elems = []
            for e in be.bound_elements:
                elems.extend(e if isinstance(e, list) else [e])
            trees = be.to_tree_prefix(bv[1], grammar)
            gt = g_list(trees, lambda tp: "(" + g_tree(tp[0]) + ", " +
                        g_list(list(tp[1].items()), lambda vp: "(" + g_isla_var(vp[0]) + ", " + g_path(vp[1]) + ")") + ")")
            m = f"(Some (MkMexpr {g_list(elems, g_isla_var)} {gt}))"
        c = "FForall" if k == "forall" else "FExists"
        return f"({c} {g_var(*bv)} (InVar {g_var(*in_var)}) {m} {g_formula(body, grammar)})"
    raise ValueError(k)


# --------------------------------------------------------------------------
# one solver instance (runs in a child process)
# --------------------------------------------------------------------------
def effective_grammar(gname, start_symbol):
    """the reference grammar the solver works with: with start_symbol, <start> ::= start_symbol
    and unreachable nonterminals deleted (ISLaSolver.__init__)"""
    g = {k: list(v) for k, v in GRAMMARS[gname].items()}
    if start_symbol is not None:
        g["<start>"] = [start_symbol]
        keep = {"<start>", start_symbol} | reach(g, start_symbol)
        g = {k: v for k, v in g.items() if k in keep}
    return g


class BudgetExceeded(BaseException):
    pass


def _on_budget(signum, frame):
    raise BudgetExceeded()


def solve_instance(job):
    """job: dict(gname, ast, how, settings, seed, max_solutions, budget).  Returns dict.
    budget = user-CPU seconds of this process (ITIMER_VIRTUAL), so that a loaded machine changes
    neither the number of solver steps nor, as far as the solver allows, its outputs."""
    import z3  # noqa
    from isla.solver import ISLaSolver
    random.seed(job["seed"])
    g = GRAMMARS[job["gname"]]
    st = job["settings"]
    ast = job["ast"]
    out = {"solutions": [], "end": None, "seconds": 0.0}
    solver, sol_parents = None, []
    t0 = os.times().user
    signal.signal(signal.SIGVTALRM, _on_budget)
    signal.setitimer(signal.ITIMER_VIRTUAL, job["budget"])
    try:
        try:
            formula = unparse(ast) if job["how"] == "concrete" else build(ast)
            kw = dict(max_number_free_instantiations=st["free"], max_number_smt_instantiations=st["smt"],
                      enable_optimized_z3_queries=st["opt"], enforce_unique_trees_in_queue=st["unique"],
                      tree_insertion_methods=st["methods"], timeout_seconds=60)
            if st.get("unsat"):
                kw["activate_unsat_support"] = True
            if st["start_symbol"] is not None:
                kw["start_symbol"] = st["start_symbol"]
            if job.get("trace"):
                kw["debug"] = True      # fills solver.state_tree (trace-conformance stream)
            solver = ISLaSolver(g, formula, **kw)
        except BudgetExceeded:
            raise
        except BaseException as e:  # noqa
            out["end"] = "init-crash:" + type(e).__name__ + ":" + str(e)[:200]
            return out
        while len(out["solutions"]) < job["max_solutions"]:
            try:
                t = solver.solve()
                if job.get("trace"):
                    # solve() returns pending solutions BEFORE it polls the next state, so
                    # current_state is the state whose processing produced this tree
                    sol_parents.append((solver.current_state, t))
            except StopIteration:
                out["end"] = "stop"
                break
            except TimeoutError:
                out["end"] = "timeout"
                break
            except BudgetExceeded:
                raise
            except BaseException as e:  # noqa
                out["end"] = "crash:" + type(e).__name__ + ":" + str(e)[:200]
                break
            out["solutions"].append(tree_json(t))
        if out["end"] is None:
            out["end"] = "max"
    except BudgetExceeded:
        out["end"] = "budget"
    finally:
        signal.setitimer(signal.ITIMER_VIRTUAL, 0)
        out["seconds"] = os.times().user - t0
    if job.get("trace") and solver is not None:
        try:
            out["trace"] = extract_trace(solver, sol_parents, job.get("max_edges", 60))
        except BaseException as e:  # noqa
            out["trace"] = {"error": type(e).__name__ + ":" + str(e)[:200], "edges": [], "edges_total": 0,
                            "solutions": 0, "solutions_chain_complete": 0}
    return out


# --------------------------------------------------------------------------
# trace conformance: edges of the debug state tree (ISLaSolver(debug=True).state_tree)
# --------------------------------------------------------------------------
def extract_trace(solver, sol_parents, max_edges):
    """edges (parent state -> enqueued successor) recorded by state_is_valid_or_enqueue, plus one
    edge (state being processed -> returned tree) per solution.  At most max_edges edges: first the
    chains initial state -> ... -> solution, then the remaining edges in recording order."""
    st = solver.state_tree
    root = solver.state_tree_root
    parent, order = {}, []
    for p, chs in st.items():
        for c in chs:
            order.append((p, c))
            if c not in parent and c is not p:
                parent[c] = p
    picked, seen = [], set()

    def add(p_tree, c_tree, pc, cc, kind):
        key = (id(p_tree), id(c_tree), kind)
        if key in seen:
            return True
        if len(picked) >= max_edges:
            return False
        seen.add(key)
        picked.append({"p": tree_json(p_tree), "c": tree_json(c_tree), "pc": str(pc)[:300], "cc": str(cc)[:300],
                       "edge": kind})
        return True

    n_complete = 0
    for (ps, sol) in sol_parents:
        chain, x, visited = [], ps, set()
        while x is not None and x in parent and id(x) not in visited:
            visited.add(id(x))
            chain.append((parent[x], x))
            x = parent[x]
        reaches_root = x is not None and (x is root or x == root)
        ok = True
        for (p, c) in reversed(chain):
            ok = add(p.tree, c.tree, p.constraint, c.constraint, "state") and ok
        if ps is not None:
            ok = add(ps.tree, sol, ps.constraint, "true (returned solution)", "solution") and ok
        else:
            ok = False
        n_complete += bool(ok and reaches_root)
    for (p, c) in order:
        if len(picked) >= max_edges:
            break
        add(p.tree, c.tree, p.constraint, c.constraint, "state")
    return {"edges": picked, "edges_total": len(order) + len(sol_parents), "solutions": len(sol_parents),
            "solutions_chain_complete": n_complete}


def _js_compl(a, b, ids=True):
    """Python mirror of TraceConf.complb (ids=True) / complb_ni (ids=False) on tree_json values"""
    if a[2] is None:
        return b[0] == a[0]
    if b[2] is None or b[0] != a[0] or (ids and b[1] != a[1]) or len(a[2]) != len(b[2]):
        return False
    return all(_js_compl(x, y, ids) for x, y in zip(a[2], b[2]))


def _js_nodes(a, acc):
    acc.add((a[1], a[0]))
    for c in a[2] or ():
        _js_nodes(c, acc)
    return acc


def _js_hint(a, b):
    """the path down to which a and b agree except for one child (labels of that child equal)"""
    p = []
    while a[2] is not None and b[2] is not None and a[0] == b[0] and a[1] == b[1] and len(a[2]) == len(b[2]):
        diff = [i for i, (x, y) in enumerate(zip(a[2], b[2])) if x != y]
        if len(diff) != 1 or a[2][diff[0]][0] != b[2][diff[0]][0]:
            break
        p.append(diff[0])
        a, b = a[2][diff[0]], b[2][diff[0]]
    return p


EDGE_KINDS = {0: "nonconforming", 1: "equal tree", 2: "completion (ids kept)", 3: "completion up to node ids",
              4: "insertion", 5: "subtree replaced in place, nodes lost (outside the modelled rules)"}


def edge_kind_py(a, b):
    """predicted value of TraceConf.edge_kind (grammar validity of b is judged in Coq only) and the
    hint path for kind 4"""
    if a[0] != b[0]:
        return 0, []
    if _js_compl(a, b):
        return (1 if a == b else 2), []
    if _js_compl(a, b, ids=False):
        return 3, []
    # at the hint both trees agree except for the subtree below it, whose root label is the same
    # (TraceConf.insert_atb holds by construction): insertion when every (id, label) survives,
    # otherwise kind 5 = a subtree was REPLACED (nodes lost) — a step outside the modelled rules
    # (seen: SMT answer substituted by id for an already expanded node after a CONTEXT_ADDITION
    # insertion); only an invalid tree (judged in Coq) or a changed root label is kind 0
    if _js_nodes(a, set()) <= _js_nodes(b, set()):
        return 4, _js_hint(a, b)
    return 5, _js_hint(a, b)


def _child(job, conn):
    try:
        import resource
        lim = int(job["budget"] * 4) + 10
        resource.setrlimit(resource.RLIMIT_CPU, (lim, lim + 5))   # hard stop for a hanging Z3 call
        conn.send(solve_instance(job))
    except BaseException as e:  # noqa
        try:
            conn.send({"solutions": [], "end": "worker-crash:" + type(e).__name__, "seconds": 0.0})
        except Exception:
            pass
    finally:
        conn.close()


WALL_KILL = 240     # wall seconds after which a child is killed whatever it is doing


def run_jobs(jobs, nproc):
    """run jobs in forked children, at most nproc at a time; returns results in job order"""
    ctx = mp.get_context("fork")
    results = [None] * len(jobs)
    pending = list(range(len(jobs)))[::-1]
    live = {}
    while pending or live:
        while pending and len(live) < nproc:
            i = pending.pop()
            pc, cc = ctx.Pipe(duplex=False)
            p = ctx.Process(target=_child, args=(jobs[i], cc))
            p.start()
            cc.close()
            live[i] = (p, pc, time.time())
        for i in list(live):
            p, pc, t0 = live[i]
            if pc.poll(0.01):
                try:
                    results[i] = pc.recv()
                except EOFError:
                    results[i] = {"solutions": [], "end": "worker-died", "seconds": time.time() - t0}
                p.join(1)
                if p.is_alive():
                    p.kill()
                del live[i]
            elif not p.is_alive():
                results[i] = {"solutions": [], "end": "worker-died", "seconds": time.time() - t0}
                del live[i]
            elif time.time() - t0 > WALL_KILL:
                p.kill()
                results[i] = {"solutions": [], "end": "hard-timeout", "seconds": time.time() - t0}
                del live[i]
    return results


# --------------------------------------------------------------------------
# instance generation
# --------------------------------------------------------------------------
def gen_exists_and(rng, gname, g, root_type, counter):
    S = ("start", root_type)
    below = sorted(reach(g, root_type))
    with_lits = [t for t in below if LITS[gname].get(t)]

    def simple(kind):
        counter[0] += 1
        ty = rng.choice(with_lits or below)
        v = ("v" + str(counter[0]), ty)
        lits = (LITS[gname].get(ty) or ["x"])[:3]       # the first literals are derivable
        if rng.random() < 0.7:
            body = ("streq", False, ("var", v), ("lit", rng.choice(lits)))
        else:
            body = ("len", rng.choice(CMPS), ("var", v), rng.randint(1, 3))
        return (kind, v, S, None, body)

    parts = [simple("exists")]
    r = rng.random()
    if r < 0.7:
        parts.append(simple("forall"))
    elif r < 0.85:
        parts.append(("len", rng.choice(CMPS), ("var", S), rng.randint(1, 6)))
    else:
        parts += [simple("forall"), simple("exists")]
    rng.shuffle(parts)
    return ("and", parts)


# (outer type, needle counted in it, inner type, needle counted in it)
NESTED = {"doc": [("<doc>", "<b>", "<header>", "<h>"), ("<doc>", "<h>", "<body>", "<b>"), ("<doc>", "<b>", "<hitems>", "<h>")],
          "rows": [("<rows>", "<row>", "<row>", "<field>"), ("<rows>", "<field>", "<row>", "<field>")],
          "block": [("<block>", "<id>", "<items>", "<item>")],
          "eps": [("<list>", "<item>", "<list>", "<n>")]}


def gen_nested_counts(rng, gname, root_type, g):
    S = ("start", root_type)
    outer_t, n1, inner_t, n2 = rng.choice(NESTED[gname])
    if outer_t not in g or inner_t not in g:
        outer_t, n1, inner_t, n2 = NESTED[gname][0]
    o, i = ("o1", outer_t), ("i2", inner_t)
    parts = [("count", o, n1, str(rng.randint(1, 3))),
             ("forall", i, o, None, ("count", i, n2, str(rng.randint(1, 3))))]
    rng.shuffle(parts)
    return ("forall", o, S, None, ("and", parts))


def gen_root_mexpr(rng, gname, ty, elems, counter):
    S = ("start", ty)
    counter[0] += 1
    sfx = str(counter[0])
    elems2, bound = [], []
    for e in elems:
        if isinstance(e, tuple):
            elems2.append(("bind", e[1] + sfx, e[2]))
            bound.append((e[1] + sfx, e[2]))
        else:
            elems2.append(e)
    v = rng.choice(bound)
    same = [w for w in bound if w != v and w[1] == v[1]]
    if same and rng.random() < 0.6:
        body = ("streq", rng.random() < 0.25, ("var", v), ("var", rng.choice(same)))
    else:
        lits = (LITS[gname].get(v[1]) or ["x"])[:3]
        body = ("streq", rng.random() < 0.25, ("var", v), ("lit", rng.choice(lits)))
    kind = "forall" if rng.random() < 0.8 else "exists"
    return (kind, ("m" + sfx, ty), S, elems2, body)


def gen_instance(rng, idx, budget, max_solutions):
    gname = rng.choice([x for x in GRAMMARS if x not in PROBE_ONLY])
    g = GRAMMARS[gname]
    start_symbol = rng.choice(ALT_START[gname]) if rng.random() < 0.2 else None
    root_type = start_symbol or "<start>"
    geff = effective_grammar(gname, start_symbol)
    counter = [0]
    ast = gen_formula(rng, gname, geff, [("start", root_type)], rng.randint(1, 2), counter, root_type)
    if rng.random() < 0.15:
        ast = ("and", [ast, gen_formula(rng, gname, geff, [("start", root_type)], 1, counter, root_type)])
    conj_template = rng.random() < 0.2
    if conj_template:
        # conjunction of a tree-existential with a universal / SMT conjunct over derivable literals
        # (the shape for which the nested unsat check of activate_unsat_support solves a sub-problem)
        ast = gen_exists_and(rng, gname, geff, root_type, counter)
    tmpl = rng.random()
    if tmpl < 0.08 and gname in NESTED:
        # two positive count atoms over NESTED quantified trees under universal quantifiers
        ast = gen_nested_counts(rng, gname, root_type, geff)
    elif tmpl < 0.18:
        # the requested start symbol IS the quantified type and the match expression reaches below it:
        # the root of the solution has to be matched itself
        cands = [m for m in MEXPRS[gname] if m[0] in GRAMMARS[gname] and m[0] != "<start>"]
        if cands:
            ty, elems = rng.choice(cands)
            start_symbol, root_type = ty, ty
            geff = effective_grammar(gname, start_symbol)
            ast = gen_root_mexpr(rng, gname, ty, elems, counter)
    settings = {"free": rng.choice([1, 2, 5, 10]), "smt": rng.choice([1, 2, 5, 10]),
                "opt": rng.random() < 0.5, "unique": rng.random() < 0.5,
                "methods": rng.choice([0, 1, 2, 3, 4, 5, 6, 7, 7, 7]), "start_symbol": start_symbol,
                "unsat": False}
    if rng.random() < (0.7 if conj_template else 0.25):
        # activate_unsat_support: tree_insertion_methods None (-> 0, the documented pairing) in 70 %,
        # instantiation limits 2-3 so that several solutions are pending at a time
        settings.update({"unsat": True, "free": rng.choice([2, 3]), "smt": rng.choice([2, 3]),
                         "methods": None if rng.random() < 0.7 else settings["methods"]})
    how = "concrete" if rng.random() < 0.4 else "direct"
    return {"idx": idx, "gname": gname, "ast": ast, "how": how, "settings": settings,
            "seed": rng.randrange(2 ** 31), "budget": budget, "max_solutions": max_solutions}


# fixed instances that probe the expected weak spot: structural predicates instantiated early
# (instantiate_structural_predicates evaluates them on trees with open leaves)
def probe_instances(budget, max_solutions):
    S = ("start", "<start>")
    probes = []
    b = ("x1", "<b>")
    for k in ("1", "2", "3"):
        for q in ("exists", "forall"):
            body = ("and", [("sp", "nth", [("str", k), ("var", b), ("var", S)]), ("streq", False, ("var", b), ("lit", "z"))]) \
                if q == "exists" else \
                ("or", [("not", ("sp", "nth", [("str", k), ("var", b), ("var", S)])), ("streq", False, ("var", b), ("lit", "z"))])
            probes.append(("lrec", (q, b, S, None, body)))
    a = ("x1", "<assgn>")
    probes.append(("assgn", ("exists", a, S, None,
                             ("and", [("sp", "nth", [("str", "2"), ("var", a), ("var", S)]),
                                      ("streq", False, ("var", a), ("lit", "c=c"))]))))
    probes.append(("assgn", ("forall", a, S, None,
                             ("or", [("sp", "nth", [("str", "1"), ("var", a), ("var", S)]),
                                     ("streq", False, ("var", a), ("lit", "a=1"))]))))
    i1, i2 = ("x1", "<id>"), ("x2", "<id>")
    probes.append(("block", ("exists", i1, S, None, ("exists", i2, S, None,
                   ("and", [("sp", "consecutive", [("var", i1), ("var", i2)]),
                            ("streq", False, ("var", i1), ("lit", "q")), ("streq", True, ("var", i2), ("lit", "q"))])))))
    probes.append(("block", ("exists", i1, S, None, ("exists", i2, S, None,
                   ("and", [("sp", "level", [("str", "GT"), ("str", "<block>"), ("var", i1), ("var", i2)]),
                            ("streq", False, ("var", i1), ("lit", "q"))])))))
    it = ("x1", "<item>")
    probes.append(("eps", ("and", [("count", S, "<item>", "3"),
                                   ("forall", it, S, None, ("streq", True, ("var", it), ("lit", "a")))])))
    n1, n2 = ("x1", "<num>"), ("x2", "<num>")
    probes.append(("num", ("exists", n1, S, None, ("exists", n2, S, None,
                   ("and", [("sp", "before", [("var", n1), ("var", n2)]),
                            ("toint2", ("CGt", ">"), ("var", n1), ("var", n2)),
                            ("toint", ("CGe", ">="), ("var", n2), 12)])))))
    # universal quantifiers over nodes that appear SIMULTANEOUSLY (one expand_tree step creates
    # several <digit> / <var> nodes): every match has to be instantiated, not only the first
    dg, vr = ("x1", "<digit>"), ("x1", "<var>")
    probes.append(("num", ("forall", dg, S, None, ("streq", False, ("var", dg), ("lit", "5")))))
    probes.append(("assgn", ("forall", vr, S, None, ("streq", False, ("var", vr), ("lit", "a")))))
    out = []
    for j, (gname, ast) in enumerate(probes):
        for methods, free in ((7, 5), (0, 2), (3, 10)):
            out.append({"idx": f"p{j}.{methods}", "gname": gname, "ast": ast, "how": "direct" if j % 2 else "concrete",
                        "settings": {"free": free, "smt": 5, "opt": True, "unique": True, "methods": methods,
                                     "start_symbol": None},
                        "seed": 1000 + j, "budget": budget, "max_solutions": max_solutions})
    # activate_unsat_support: the nested solve() of process_new_state works on the existential
    # conjunct alone; its solutions must not leak into the outer solution stream
    dg, vr, nm = ("x1", "<digit>"), ("x2", "<var>"), ("x2", "<num>")
    unsat_probes = [
        ("assgn", ("and", [("exists", dg, S, None, ("streq", False, ("var", dg), ("lit", "1"))),
                           ("forall", vr, S, None, ("streq", False, ("var", vr), ("lit", "a")))])),
        ("assgn", ("and", [("forall", vr, S, None, ("streq", False, ("var", vr), ("lit", "b"))),
                           ("exists", dg, S, None, ("streq", False, ("var", dg), ("lit", "2")))])),
        ("num", ("and", [("exists", dg, S, None, ("streq", False, ("var", dg), ("lit", "7"))),
                         ("forall", nm, S, None, ("len", ("CLe", "<="), ("var", nm), 2))])),
    ]
    for j, (gname, ast) in enumerate(unsat_probes):
        for lim, methods in ((2, None), (3, None), (3, 7)):
            out.append({"idx": f"u{j}.{lim}.{methods}", "gname": gname, "ast": ast, "how": "concrete" if j % 2 else "direct",
                        "settings": {"free": lim, "smt": lim, "opt": True, "unique": True, "methods": methods,
                                     "start_symbol": None, "unsat": True},
                        "seed": 2000 + j, "budget": budget * 2, "max_solutions": max(max_solutions, 15)})
    # negated count under a universal quantifier on list-like recursive structures: the solver has to
    # AVOID the number (count(..., negate=True) picks another target); >= 10 solutions wanted
    rw, rs, ls, bk = ("x1", "<row>"), ("x1", "<rows>"), ("x1", "<list>"), ("x1", "<block>")
    neg_probes = []
    for k in ("2", "3", "4"):
        neg_probes.append(("rows", ("forall", rw, S, None, ("not", ("count", rw, "<field>", k)))))
    neg_probes.append(("rows", ("forall", rs, S, None, ("not", ("count", rs, "<row>", "3")))))
    neg_probes.append(("rows", ("forall", rs, S, None, ("not", ("count", rs, "<row>", "1")))))
    neg_probes.append(("eps", ("forall", ls, S, None, ("not", ("count", ls, "<item>", "3")))))
    neg_probes.append(("block", ("forall", bk, S, None, ("not", ("count", bk, "<id>", "2")))))
    neg_probes.append(("block", ("forall", bk, S, None, ("not", ("count", bk, "<id>", "3")))))
    neg_probes.append(("rows", ("forall", rs, S, None, ("not", ("count", rs, "<row>", "2")))))
    neg_probes.append(("rows", ("forall", rs, S, None, ("not", ("count", rs, "<row>", "4")))))
    az = ("x1", "<as>")
    neg_probes.append(("lrec", ("forall", az, S, None, ("not", ("count", az, "<b>", "3")))))
    for j, (gname, ast) in enumerate(neg_probes):
        for free in ((5, 10) if gname == "rows" else (10,)):
            out.append({"idx": f"n{j}.{free}", "gname": gname, "ast": ast, "how": "concrete" if j % 2 else "direct",
                        "settings": {"free": free, "smt": free, "opt": True, "unique": True, "methods": 7,
                                     "start_symbol": None, "unsat": False},
                        "seed": 3000 + j, "budget": budget * 3, "max_solutions": 20})
    # two positive count atoms over NESTED trees under universal quantifiers (both become ready in one
    # step of eliminate_all_ready_semantic_predicate_formulas; substitutions must be propagated)
    dc, hd, bd, hi = ("d", "<doc>"), ("hd", "<header>"), ("bd", "<body>"), ("hi", "<hitems>")
    rws, rw1 = ("rs", "<rows>"), ("rw", "<row>")
    nest_probes = [
        ("doc", ("forall", dc, S, None, ("and", [("count", dc, "<b>", "3"),
                                                 ("forall", hd, dc, None, ("count", hd, "<h>", "2"))]))),
        ("doc", ("forall", dc, S, None, ("and", [("forall", bd, dc, None, ("count", bd, "<b>", "2")),
                                                 ("count", dc, "<h>", "3")]))),
        ("doc", ("forall", dc, S, None, ("and", [("count", dc, "<b>", "1"),
                                                 ("forall", hi, dc, None, ("count", hi, "<h>", "1"))]))),
        ("doc", ("and", [("forall", dc, S, None, ("count", dc, "<b>", "2")),
                         ("forall", hd, S, None, ("count", hd, "<h>", "3"))])),
    ]
    for j, (gname, ast) in enumerate(nest_probes):
        for free in (5, 1):
            out.append({"idx": f"c{j}.{free}", "gname": gname, "ast": ast, "how": "concrete" if j % 2 else "direct",
                        "settings": {"free": free, "smt": 5, "opt": True, "unique": free == 5, "methods": 7,
                                     "start_symbol": None, "unsat": False},
                        "seed": 5000 + j, "budget": budget * 2, "max_solutions": 20})
    # requested start symbol = quantified type, match expression two derivation levels deep: the ROOT
    # of the solution has to be matched (formula built directly: the constant is typed with the start symbol)
    el, st1 = ("e", "<elem>"), ("s", "<stmt>")
    root_probes = [
        ("elem", "<elem>", ("forall", el, ("start", "<elem>"),
                            [("bind", "o", "<id>"), "(", "<content>", ")", ("bind", "c", "<id>")],
                            ("streq", False, ("var", ("o", "<id>")), ("var", ("c", "<id>"))))),
        ("elem", "<elem>", ("forall", el, ("start", "<elem>"),
                            [("bind", "o", "<id>"), "(", "<content>", ")", "<id>"],
                            ("streq", False, ("var", ("o", "<id>")), ("lit", "b")))),
        ("elem", "<doc>", ("forall", el, ("start", "<doc>"),
                           [("bind", "o", "<id>"), "(", "<content>", ")", ("bind", "c", "<id>")],
                           ("streq", False, ("var", ("o", "<id>")), ("var", ("c", "<id>"))))),
        ("assgn", "<stmt>", ("forall", st1, ("start", "<stmt>"),
                             [("bind", "l", "<var>"), "=", ("bind", "r", "<rhs>")],
                             ("streq", False, ("var", ("l", "<var>")), ("lit", "a")))),
    ]
    for j, (gname, ssym, ast) in enumerate(root_probes):
        for how in (("direct", "concrete") if j == 0 else ("direct",)):
            out.append({"idx": f"r{j}.{how}", "gname": gname, "ast": ast, "how": how,
                        "settings": {"free": 5, "smt": 5, "opt": True, "unique": True, "methods": 7,
                                     "start_symbol": ssym, "unsat": False},
                        "seed": 6000 + j, "budget": budget * 2, "max_solutions": 20})
    # numeric quantifiers (outside satb: the constraint is judged by spec_sem.py, numerals < tree size + 3)
    dd, rr = ("x", "<d>"), ("r", "<rows>")
    ivar = lambda n: ("var", (n, "NUM"))
    num_probes = [
        # the recorded defect K_forall_int (unsatisfiable; solve() returns 4, 4, 3, 3)
        ("d34", ("forallint", "i", ("or", [("toint", ("CLt", "<"), ivar("i"), 2),
                                           ("exists", dd, S, None, ("toint2", ("CEq", "="), ("var", dd), ivar("i")))]))),
        # exists int: must be SOUND
        ("rows", ("existsint", "n", ("and", [("countv", S, "<field>", "n"), ("toint", ("CEq", "="), ivar("n"), 3)]))),
        ("rows", ("existsint", "n", ("and", [("countv", S, "<row>", "n"), ("toint", ("CGe", ">="), ivar("n"), 2)]))),
        ("rows", ("forall", rr, S, None,
                  ("existsint", "n", ("and", [("countv", rr, "<row>", "n"), ("toint", ("CLe", "<="), ivar("n"), 2)])))),
    ]
    for j, (gname, ast) in enumerate(num_probes):
        out.append({"idx": f"q{j}", "gname": gname, "ast": ast, "how": "concrete",
                    "settings": {"free": 5, "smt": 5, "opt": True, "unique": j % 2 == 1, "methods": 7,
                                 "start_symbol": None, "unsat": False},
                    "seed": 4000 + j, "budget": budget * 2, "max_solutions": 12})
    return out


# --------------------------------------------------------------------------
# oracles
# --------------------------------------------------------------------------
IMPORTS = "State"
OK_DEF = ("fun c : grammar * str * var * cform * tree => let '(g, s, cst, f, t) := c in sol_ok g s cst f t")
FAIL_BITS = {1: "shape", 2: "not a derivation tree of the grammar", 4: "open leaf", 8: "root label",
             16: "constraint not satisfied (specification semantics)", 32: "numeric quantifier (undecided)"}


def root_of(job):
    return job["settings"]["start_symbol"] or "<start>"


def instance_defs(k, job):
    from isla.helpers import canonical
    st = job["settings"]["start_symbol"]
    geff = effective_grammar(job["gname"], st)
    cg = canonical(geff)
    root = root_of(job)
    return (f"Definition G{k} : grammar := {g_grammar(cg)}.\n"
            f"Definition S{k} : str := {g_str(root)}.\n"
            f"Definition C{k} : var := {g_var('start', root)}.\n"
            f"Definition F{k} : cform := "
            + ("FSmt (SBool true)" if has_numq(job["ast"]) else g_formula(job["ast"], geff)) + ".\n")


def py_spec(job, tree):
    """second oracle: harness/spec_sem.py (Z3 decides ground atoms); plus grammar validity through
    isla's own graph (NOT the verdict: only cross-checked against Coq)"""
    import spec_sem
    geff = effective_grammar(job["gname"], job["settings"]["start_symbol"])
    try:
        return bool(spec_sem.sat(build(job["ast"]), tree, geff, bound=max(12, len(tree.paths()) + 3)))
    except Exception as e:  # noqa
        return "undefined:" + type(e).__name__


def mentions_nth(ast):
    return "sp:nth" in kinds_of(ast)


# known-finding classes: Python mirrors of the Coq guards K_nth / K_count / K_consecutive /
# K_const_type (Solver/Rules.v) + the divergence kind of each entry
def isla_evaluate_true(job, tree):
    """ISLa's OWN evaluator on the returned tree (used only to recognise K_consecutive: the solver
    is consistent with ISLa's consecutive(), which departs from the documented meaning — C04)"""
    try:
        from isla.evaluator import evaluate
        geff = effective_grammar(job["gname"], job["settings"]["start_symbol"])
        return evaluate(build(job["ast"]), tree, geff).is_true()
    except Exception:  # noqa
        return False


def count_exists_pos(f, pol=True, inex=False):
    """Python mirror of Rules.K_count: some count atom occurs with POSITIVE polarity in the scope of an
    existential quantifier (exists with positive / forall with negative polarity) — the recorded defect.
    Negated count atoms and count atoms under universal quantifiers only are NOT in the class."""
    k = f[0]
    if k == "count":
        return pol and inex
    if k == "not":
        return count_exists_pos(f[1], not pol, inex)
    if k in ("and", "or"):
        return any(count_exists_pos(x, pol, inex) for x in f[1])
    if k in ("forall", "exists"):
        ex = pol if k == "exists" else not pol
        return count_exists_pos(f[4], pol, inex or ex)
    return False


def neg_count_recursive(f, g, pol=True):
    """Python mirror of KClasses.K_neg_count: some count atom occurs with NEGATIVE polarity and its needle
    nonterminal is recursive (reachable from itself in the grammar; reachability is not reflexive).
    Negated count atoms with a non-recursive needle and positive count atoms are NOT in the class."""
    k = f[0]
    if k in ("count", "countv"):
        return (not pol) and f[2] in g and f[2] in reach(g, f[2])
    if k == "not":
        return neg_count_recursive(f[1], g, not pol)
    if k in ("and", "or"):
        return any(neg_count_recursive(x, g, pol) for x in f[1])
    if k in ("forall", "exists"):
        return neg_count_recursive(f[4], g, pol)
    if k in ("forallint", "existsint"):
        return neg_count_recursive(f[2], g, pol)
    return False


def class_of(job, tree, code, spec_fails, known_by_class):
    """class of an open known finding that explains this failing tree, or None.
    code = sol_check bit mask; spec_fails = spec_sem.py also says the constraint is violated."""
    kinds = kinds_of(job["ast"])
    if has_numq(job["ast"]):
        # numeric quantifiers: Coq judged the tree only (code 0), spec_sem.py the constraint.
        # K_forall_int = the constraint contains a `forall int` quantifier (Coq: KClasses.K_forall_int);
        # a violated constraint with `exists int` only is in no class and alarms.
        if code == 0 and spec_fails and "forallint" in kinds and "K_forall_int" in known_by_class:
            return "K_forall_int"
        return None
    if code == 16 and spec_fails:
        if "sp:nth" in kinds and "K_nth" in known_by_class:
            return "K_nth"
        if count_exists_pos(job["ast"]) and "K_count" in known_by_class:
            return "K_count"
        # negated count whose needle is a RECURSIVE nonterminal (open finding
        # negated-count-recursive-needle; Coq: KClasses.K_neg_count over the effective grammar)
        if "K_neg_count" in known_by_class and neg_count_recursive(
                job["ast"], effective_grammar(job["gname"], job["settings"]["start_symbol"])):
            return "K_neg_count"
        # consecutive(): ISLa's predicate itself is wrong when the common prefix of the two nodes is
        # not the root (C04 finding consecutive-relative-paths, open).  Two manifestations, both seen:
        # the final tree satisfies ISLa's evaluator but not the documented meaning, or the wrong
        # predicate was true on the open tree at instantiation time and is false (also for ISLa's
        # evaluator) on the final tree — the buggy predicate, unlike the specified one
        # (C01_stable_pred2), is not stable under expansion.
        if "sp:consecutive" in kinds and "K_consecutive" in known_by_class:
            return "K_consecutive"
    if code == 8 and "K_const_type" in known_by_class:
        # start_symbol requested, formula given as text: its constant is typed <start> by the parser;
        # everything holds except that the root is <start> (with the single child start_symbol)
        if job["settings"]["start_symbol"] is not None and job["how"] == "concrete" and tree.value == "<start>" \
                and len(tree.children or ()) == 1 and tree.children[0].value == job["settings"]["start_symbol"]:
            return "K_const_type"
    return None


def mentions_nth(ast):
    return "sp:nth" in kinds_of(ast)


def job_public(job):
    """replayable description of an instance"""
    return {"grammar": job["gname"], "grammar_rules": GRAMMARS[job["gname"]], "constraint": unparse(job["ast"]),
            "ast": job["ast"], "how": job["how"], "settings": job["settings"], "seed": job["seed"],
            "budget_cpu_s": job["budget"], "max_solutions": job["max_solutions"]}


def coq_code(job, tree_lit):
    out = lib.coq_eval("c01d", IMPORTS, f"sol_check G0 S0 C0 F0 ({tree_lit})", extra_defs=instance_defs(0, job))
    import re
    m = re.search(r"=\s*(\d+)%N", out)
    return int(m.group(1)) if m else None


OK16_DEF = ("fun c : grammar * str * var * cform * tree => let '(g, s, cst, f, t) := c in "
            "N.eqb (sol_check g s cst f t) 16")


def check_batch(tag, jobs, results, ok_def=None, only=None):
    """all returned trees of all instances (or only the (job_i, sol_i) in `only`) -> Coq.
    Returns (failures [(job_i, sol_i)], n_trees, seconds)"""
    ok_def = ok_def or OK_DEF
    from isla.derivation_tree import DerivationTree  # noqa
    shards, smeta = [], []
    cur_defs, cur_cases, cur_meta, cur_size = "", [], [], 0
    k = 0
    for ji, (job, res) in enumerate(zip(jobs, results)):
        if not res["solutions"] or (only is not None and not any(x[0] == ji for x in only)):
            continue
        defs = instance_defs(k, job)
        cases = []
        for si, tj in enumerate(res["solutions"]):
            if only is not None and (ji, si) not in only:
                continue
            lit = g_tree(tree_from_json(tj))
            cases.append(f"(G{k}, S{k}, C{k}, F{k}, {lit})")
            cur_meta.append((ji, si))
        cur_defs += defs
        cur_cases += cases
        cur_size += len(defs) + sum(len(c) for c in cases)
        k += 1
        if cur_size > 250_000 or k % 8 == 0:
            shards.append((cur_defs, cur_cases))
            smeta.append(cur_meta)
            cur_defs, cur_cases, cur_meta, cur_size = "", [], [], 0
    if cur_cases:
        shards.append((cur_defs, cur_cases))
        smeta.append(cur_meta)
    if not shards:
        return [], 0, 0.0
    bad, dt = lib.coq_run_shards(tag, IMPORTS, ok_def, shards)
    return [smeta[a][b] for a, b in bad], sum(len(m) for m in smeta), dt


TRACE_IMPORTS = "TraceConf"
TRACE_OK = ("fun c : grammar * tree * path * tree * N => let '(g, t, p, t1, k) := c in "
            "N.eqb (edge_kind g t p t1) k")


def trace_defs(k, job, trees):
    from isla.helpers import canonical
    geff = effective_grammar(job["gname"], job["settings"]["start_symbol"])
    out = f"Definition TG{k} : grammar := {g_grammar(canonical(geff))}.\n"
    for n, tj in enumerate(trees):
        out += f"Definition TT{k}_{n} : tree := {g_tree(tree_from_json(tj))}.\n"
    return out


def trace_probes(max_edges):
    """five fixed instances that make every edge kind appear in every run: SMT answers for partially
    expanded trees (completion up to node ids), tree insertion into partially expanded hosts"""
    S = ("start", "<start>")
    d, e, i1, i2 = ("d", "<digit>"), ("e", "<digit>"), ("x1", "<id>"), ("x2", "<id>")
    blk, a, v = ("b", "<block>"), ("a", "<assgn>"), ("v", "<var>")

    def st(**kw):
        return dict({"free": 10, "smt": 10, "opt": True, "unique": False, "methods": 7, "start_symbol": None,
                     "unsat": False}, **kw)
    cases = [
        ("block", ("forall", blk, S, None, ("streq", False, ("var", blk), ("lit", "(p)"))), st()),
        ("num", ("exists", d, S, None, ("streq", False, ("var", d), ("lit", "9"))), st()),
        ("block", ("exists", i1, S, None, ("exists", i2, S, None,
                   ("and", [("streq", False, ("var", i1), ("lit", "q")), ("streq", True, ("var", i2), ("lit", "q"))]))), st()),
        ("assgn", ("and", [("exists", a, S, None, ("streq", False, ("var", a), ("lit", "c=c"))),
                           ("forall", v, S, None, ("streq", False, ("var", v), ("lit", "c")))]), st(free=2, smt=2)),
        ("num", ("exists", d, S, None, ("exists", e, S, None,
                 ("and", [("streq", False, ("var", d), ("lit", "9")), ("sp", "before", [("var", d), ("var", e)]),
                          ("streq", False, ("var", e), ("lit", "5"))]))), st(methods=3)),
    ]
    return [{"idx": f"t{k}", "gname": g, "ast": ast, "how": "direct", "settings": sett, "seed": 7 + k, "budget": 3.0,
             "max_solutions": 8, "trace": True, "max_edges": max_edges} for k, (g, ast, sett) in enumerate(cases)]


def trace_stage(run, jobs, results, nproc, known_by_class):
    """TRACE CONFORMANCE: a sample of the instances is run again with ISLaSolver(debug=True); every
    recorded edge (parent state -> successor state, state -> returned tree) is classified INSIDE COQ by
    TraceConf.edge_kind, whose soundness theorem (Props/C01.v C01_trace_edge_sound) turns a non-zero
    kind into the tree part of a rule of the abstract system (completion: refinement step given
    the constraint part; insertion: the tree guards of r_insert + C13 inserted_lossy)."""
    thorough = run.tier == "thorough"
    n_trace = int(os.environ.get("VERIF_C01_TRACE_N", 200 if thorough else 40))
    max_edges = int(os.environ.get("VERIF_C01_TRACE_EDGES", 60))
    rng = random.Random(run.seed + 1)
    # activate_unsat_support is excluded: the nested solve() of the unsat check overwrites
    # current_state and does not restore it, so debug mode files the outer successors under a state
    # of the nested sub-problem (an artefact of the recording, not of the solver)
    elig = [ji for ji, (j, r) in enumerate(zip(jobs, results))
            if not j["settings"].get("unsat") and not r["end"].startswith(("init-crash", "worker", "hard"))]
    # a third of the sample: candidates for tree insertion (tree-existential, insertion methods on);
    # of the rest two thirds with solutions in the main pass
    ins = [ji for ji in elig if {"exists", "exists+mexpr"} & kinds_of(jobs[ji]["ast"])
           and jobs[ji]["settings"]["methods"] not in (0, None)]
    rng.shuffle(ins)
    chosen = ins[:n_trace // 3]
    with_sol = [ji for ji in elig if results[ji]["solutions"] and ji not in chosen]
    without = [ji for ji in elig if not results[ji]["solutions"] and ji not in chosen]
    rng.shuffle(with_sol)
    rng.shuffle(without)
    rest = n_trace - len(chosen)
    n_with = min(len(with_sol), (2 * rest) // 3)
    chosen = sorted(chosen + with_sol[:n_with] + without[:rest - n_with])
    tjobs = trace_probes(max_edges) + \
        [dict(jobs[ji], trace=True, budget=1.5, max_solutions=8, max_edges=max_edges) for ji in chosen]
    t0 = time.time()
    tres = run_jobs(tjobs, nproc)
    info = {"instances": len(tjobs), "solver_wall_seconds": round(time.time() - t0, 1)}
    shards, smeta = [], []
    cur_defs, cur_cases, cur_meta, cur_size, k = "", [], [], 0, 0
    pred = {}
    hist = {v: 0 for v in EDGE_KINDS.values()}
    hint_depth, n_sol_edges, n_stutter, total_rec, n_sols, n_chain = {}, 0, 0, 0, 0, 0
    repl_depth, repl_examples = {}, []
    with_edges = 0
    for ti, (job, res) in enumerate(zip(tjobs, tres)):
        tr = res.get("trace") or {"edges": [], "edges_total": 0, "solutions": 0, "solutions_chain_complete": 0}
        if tr.get("error"):
            info.setdefault("extraction_errors", []).append(tr["error"])
        total_rec += tr["edges_total"]
        n_sols += tr["solutions"]
        n_chain += tr["solutions_chain_complete"]
        if not tr["edges"]:
            continue
        with_edges += 1
        table, index, cases = [], {}, []
        for ei, e in enumerate(tr["edges"]):
            kd, hint = edge_kind_py(e["p"], e["c"])
            pred[(ti, ei)] = (kd, hint)
            ids = []
            for tj in (e["p"], e["c"]):
                key = json.dumps(tj)
                if key not in index:
                    index[key] = len(table)
                    table.append(tj)
                ids.append(index[key])
            cases.append(f"(TG{k}, TT{k}_{ids[0]}, {g_path(hint)}, TT{k}_{ids[1]}, {kd}%N)")
            cur_meta.append((ti, ei))
            hist[EDGE_KINDS[kd]] += 1
            n_sol_edges += e["edge"] == "solution"
            if kd == 1 and e["edge"] == "state" and e["pc"] == e["cc"]:
                n_stutter += 1
            if kd == 4:
                hint_depth[str(len(hint))] = hint_depth.get(str(len(hint)), 0) + 1
            if kd == 5:
                repl_depth[str(len(hint))] = repl_depth.get(str(len(hint)), 0) + 1
                if len(repl_examples) < 3:
                    repl_examples.append({"grammar": job["gname"], "constraint": unparse(job["ast"]),
                                          "settings": job["settings"], "seed": job["seed"],
                                          "parent": str(tree_from_json(e["p"])), "child": str(tree_from_json(e["c"])),
                                          "parent_constraint": e["pc"], "child_constraint": e["cc"]})
            run.count(("trace", ti, ei, json.dumps(e["p"]) + json.dumps(e["c"])), kd in (2, 3, 4))
        defs = trace_defs(k, job, table)
        cur_defs += defs
        cur_cases += cases
        cur_size += len(defs)
        k += 1
        if cur_size > 200_000 or k % 6 == 0:
            shards.append((cur_defs, cur_cases))
            smeta.append(cur_meta)
            cur_defs, cur_cases, cur_meta, cur_size = "", [], [], 0
    if cur_cases:
        shards.append((cur_defs, cur_cases))
        smeta.append(cur_meta)
    info.update({"instances_with_edges": with_edges, "edges_recorded_total": total_rec,
                 "edges_checked": sum(len(m) for m in smeta), "kinds": hist,
                 "edges_state_to_returned_tree": n_sol_edges, "returned_trees": n_sols,
                 "returned_trees_with_fully_checked_chain_from_initial_state": n_chain,
                 "insertion_hint_depth": hint_depth,
                 "edges_outside_modelled_rules": hist[EDGE_KINDS[5]],
                 "edges_outside_modelled_rules_hint_depth": repl_depth,
                 "edges_outside_modelled_rules_examples": repl_examples,
                 "equal_tree_edges_with_identical_constraint_text": n_stutter,
                 "max_edges_per_instance": max_edges,
                 "note": "edge = (state polled by solve(), successor enqueued by state_is_valid_or_enqueue) as recorded in "
                         "ISLaSolver(debug=True).state_tree, plus (state being processed, tree returned by solve()); "
                         "instances with activate_unsat_support are excluded (debug mode does not restore current_state "
                         "after the nested solve()). Every edge is evaluated in Coq by TraceConf.edge_kind (the Python "
                         "prediction only organises the evidence: a disagreement is reported). Kinds: equal tree / "
                         "completion with ids kept (Rules.compl) / completion up to node ids (SMT answer substituted for "
                         "a partially expanded tree: inner nodes are re-parsed with fresh ids) / insertion (every (id, label) "
                         "of the old tree occurs in the new one and the new tree is the old one with one subtree replaced, "
                         "root label kept) / subtree replaced in place with nodes lost (kind 5, INFORMATIONAL: a step outside the "
                         "modelled completion and insertion rules — seen when, after a CONTEXT_ADDITION insertion, the constraint "
                         "still refers to the open leaf of the inserted pattern while the node with that id is already expanded and "
                         "SMT elimination substitutes its answer by id; proved for it: grammar-valid tree, same root label, position "
                         "of the replacement; counted as edges_outside_modelled_rules). Only an invalid successor tree or a changed "
                         "root label is non-conforming. The constraint part of an edge is not checked."})
    run.cov["trace_conformance"] = info
    if not shards:
        return
    try:
        bad, dt = lib.coq_run_shards("c01t", TRACE_IMPORTS, TRACE_OK, shards)
    except RuntimeError as e:
        run.violation({"kind": "correspondence-not-evaluable", "obligation": "Solver/TraceConf.v edge_kind cases",
                       "error": str(e)[-2500:]}, found_input=False)
        return
    info["coq_seconds"] = round(dt, 1)
    disagree = {smeta[a][b] for a, b in bad}
    suspects = sorted(disagree | {x for x, (kd, _) in pred.items() if kd == 0})
    n_known, n_bad, reported = 0, 0, False
    for (ti, ei) in suspects:
        job, e = tjobs[ti], tres[ti]["trace"]["edges"][ei]
        kd, hint = pred[(ti, ei)]
        actual = kd
        if (ti, ei) in disagree:
            tabs = [e["p"], e["c"]]
            txt = lib.coq_eval("c01te", TRACE_IMPORTS, f"edge_kind TG0 TT0_0 {g_path(hint)} TT0_1",
                               extra_defs=trace_defs(0, job, tabs))
            import re
            m = re.search(r"=\s*(\d+)%N", txt)
            actual = int(m.group(1)) if m else None
        if actual not in (0, None):
            if not reported:
                reported = True
                run.violation({"kind": "harness prediction of the edge kind disagrees with Coq (edge conforms)",
                               "predicted": kd, "coq": actual, "edge": e, "instance": job_public(job),
                               "obligation": "correspondence harness/c01.py edge_kind_py <-> TraceConf.edge_kind"},
                              found_input=False)
            continue
        st = job["settings"]
        c = e["c"]
        if "K_const_type" in known_by_class and st["start_symbol"] is not None and job["how"] == "concrete" \
                and c[0] == "<start>" and e["p"][0] == st["start_symbol"]:
            # the root label changes: the constant of a textual formula is typed <start> (open finding)
            n_known += 1
            run.known(known_by_class["K_const_type"]["what"])
            continue
        n_bad += 1
        if not reported:
            reported = True
            run.violation({"kind": "solver step does not conform to the abstract rule system: the successor's tree is "
                                   "not a derivation tree of the grammar or its root label changed",
                           "witness": dict(job_public(job), trace_edge=e, edge_index=ei, coq_edge_kind=actual,
                                           budget_cpu_s=job["budget"], max_solutions=8),
                           "parent_tree": str(tree_from_json(e["p"])), "child_tree": str(tree_from_json(e["c"])),
                           "parent_constraint": e["pc"], "child_constraint": e["cc"],
                           "theorem": "Props/C01.v C01_trace_edge_sound (edge_okb = true -> edge_spec) — check failed",
                           "how_to_replay": "./check C01 --replay <this file>"})
    info["edges_in_known_class_K_const_type"] = n_known
    info["nonconforming_edges"] = n_bad
    print(f"[C01] trace conformance: instances={len(tjobs)} edges={info['edges_checked']} kinds={hist} "
          f"coq={info['coq_seconds']}s", flush=True)


def minimise(job, nproc):
    """drop conjuncts of a top-level conjunction / of the quantifier body while the solver still
    returns a tree violating the (reduced) constraint, judged by spec_sem; returns the smallest job"""
    def violating(j):
        r = run_jobs([j], 1)[0]
        for si, tj in enumerate(r["solutions"]):
            if py_spec(j, tree_from_json(tj)) is False:
                return si, tj
        return None

    def variants(ast):
        if ast[0] == "and":
            for i in range(len(ast[1])):
                rest = ast[1][:i] + ast[1][i + 1:]
                yield rest[0] if len(rest) == 1 else ("and", rest)
        if ast[0] in ("forall", "exists"):
            for b in variants(ast[4]):
                yield (ast[0], ast[1], ast[2], ast[3], b)

    best = job
    changed = True
    rounds = 0
    while changed and rounds < 6:
        changed = False
        rounds += 1
        for v in variants(best["ast"]):
            try:
                unparse(v)
            except Exception:
                continue
            cand = dict(best, ast=v)
            if violating(cand) is not None:
                best, changed = cand, True
                break
    return best


def known_entries():
    """open entries for C01: harness/meta/C01.findings.json is the committed source from which
    known_findings.json is generated (never written at check time)"""
    p = os.path.join(lib.VERIF, "harness", "meta", "C01.findings.json")
    es = json.load(open(p)) if os.path.exists(p) else lib.known_findings("C01")
    return [e for e in es if e.get("property") == "C01" and e.get("status") == "open"]


def witness_job(w, budget, max_solutions):
    return {"idx": "known", "gname": w["grammar"], "ast": json.loads(json.dumps(w["ast"]), object_hook=None),
            "how": w.get("how", "concrete"), "settings": w["settings"], "seed": w["seed"],
            "budget": budget, "max_solutions": max_solutions}


def detuple(x):
    """JSON round trip turns tuples into lists; the generators/printers only index, so lists are fine,
    except `isinstance(e, tuple)` tests in match expressions: restore ("bind", n, t) triples"""
    if isinstance(x, list):
        if len(x) == 3 and x[0] == "bind":
            return ("bind", x[1], x[2])
        return [detuple(y) for y in x]
    return x


def run(run):
    rng = random.Random(run.seed)
    thorough = run.tier == "thorough"
    n_inst = int(os.environ.get("VERIF_C01_N", 3000 if thorough else 150))
    budget = 2.0
    max_sol = 10
    nproc = max(2, min(lib.NPROC, (os.cpu_count() or 4)) - 2)
    run.cov["rule"] = (
        "solver instances = (grammar in {assignment language, numeral pairs, left-recursive list, nested blocks, "
        "epsilon list, rows of fields, header/body documents, nested elements id(content)id}, templates "
        "(8% two count atoms over nested quantified trees under universal quantifiers; 10% requested start "
        "symbol = quantified type with a match expression reaching below it), constraint generated AST-first: 1-2 tree quantifiers (forall/exists, in start or an outer "
        "variable, 30% with a match expression incl. optional parts) over reachable nonterminals, conjunction/"
        "disjunction/negation of quantified formulas, bodies = not/and/or (n-ary) over string (in)equality var/"
        "literal and var/var, str.len and str.to.int comparisons (str.to.int only on numeral-deriving "
        "nonterminals), all 9 structural predicates, count; settings: max_number_free_instantiations in "
        "{1,2,5,10}, max_number_smt_instantiations in {1,2,5,10}, enable_optimized_z3_queries on/off, "
        "enforce_unique_trees_in_queue on/off, tree_insertion_methods in 0..7, start_symbol in 20%; formula "
        "passed as object (direct construction) or as concrete syntax (own printer)); plus fixed probe "
        "instances for early instantiation of nth/consecutive/level/count, universals over simultaneously "
        "created nodes, activate_unsat_support=True on conjunctions of a tree-existential with a universal/SMT "
        "conjunct (limits 2-3; also 25% of the generated instances, 70% of the generated exists-and-forall "
        "conjunctions), negated count under universal quantifiers on list-like grammars (targets 1-4, up to "
        "20 solutions, 6 s), two count atoms over nested trees, start_symbol = quantified type with two-level "
        "match expressions, numeric quantifiers. Each instance: random.seed(seed), "
        "solve() called until 10 solutions / StopIteration / 1.5 s user-CPU (probes: 2-6 s, up to 20). EVERY returned tree is checked in "
        "Coq (sol_check: shape_ok, wf_treeb, closedb, root label, satb of the original constraint) and by "
        "spec_sem.py; every prefix of the solution sequence is thereby checked. non-trivial = the instance "
        "returned at least one tree and its constraint is not satisfied by every tree the fuzzer produces "
        "for the grammar (judged on 6 fuzzed trees by spec_sem). TRACE CONFORMANCE stream: 40 (quick) / 200 "
        "(thorough) of these instances (1/3 tree-existentials with insertion methods on, of the rest 2/3 with solutions, "
        "none with activate_unsat_support) are run again with "
        "debug=True (1.5 s user-CPU, up to 8 solutions), plus 5 fixed trace probes (3 s) that make every edge kind appear; up to 60 edges per instance of solver.state_tree (first the "
        "chains initial state -> ... -> returned tree, then recording order) are evaluated in Coq by "
        "TraceConf.edge_kind; a trace edge is non-trivial when the tree changed (completion / insertion)")
    proof_ok = run.proof_stage()

    import z3  # noqa  (imported before forking so that children do not pay the import)
    from isla.solver import ISLaSolver  # noqa
    from isla.fuzzer import GrammarFuzzer
    from isla.derivation_tree import DerivationTree

    known = known_entries()
    known_by_class = {e["class"]: e for e in known}

    jobs = probe_instances(budget, max_sol)
    for e in known:
        w = e.get("witness") or {}
        if "ast" in w:
            j = witness_job(w, budget * 2, max_sol)
            j["ast"] = detuple(j["ast"])
            j["idx"] = "known:" + e["key"]
            jobs.append(j)
    n_fixed = len(jobs)
    # generated instances get 1.5 s (most of them are hopeless and only burn their budget); probes 2-6 s
    jobs += [gen_instance(rng, i, budget * 0.75, max_sol) for i in range(n_inst)]
    t0 = time.time()
    results = run_jobs(jobs, nproc)
    run.cov["solver_wall_seconds"] = round(time.time() - t0, 1)

    hist_end, hist_kind, hist_set = {}, {}, {"methods": {}, "free": {}, "smt": {}, "opt": {}, "unique": {},
                                             "start_symbol": {}, "how": {}, "grammar": {}, "unsat_support": {}}
    n_sol = 0
    for job, res in zip(jobs, results):
        e = res["end"].split(":")[0]
        hist_end[e] = hist_end.get(e, 0) + 1
        if e in ("crash", "init-crash"):
            c = ":".join(res["end"].split(":")[:2])
            hist_end[c] = hist_end.get(c, 0) + 1
        if res["solutions"]:
            n_sol += len(res["solutions"])
            for kd in kinds_of(job["ast"]):
                hist_kind[kd] = hist_kind.get(kd, 0) + 1
            st = job["settings"]
            for key in ("methods", "free", "smt", "opt", "unique"):
                hist_set[key][str(st[key])] = hist_set[key].get(str(st[key]), 0) + 1
            hist_set["unsat_support"][str(bool(st.get("unsat")))] = hist_set["unsat_support"].get(str(bool(st.get("unsat"))), 0) + 1
            hist_set["start_symbol"][str(st["start_symbol"])] = hist_set["start_symbol"].get(str(st["start_symbol"]), 0) + 1
            hist_set["how"][job["how"]] = hist_set["how"].get(job["how"], 0) + 1
            hist_set["grammar"][job["gname"]] = hist_set["grammar"].get(job["gname"], 0) + 1
    run.cov["instances"] = len(jobs)
    run.cov["instances_with_solutions"] = sum(1 for r in results if r["solutions"])
    run.cov["trees_checked"] = n_sol
    run.cov["solver_outcomes"] = hist_end
    run.cov["constraint_features_of_solved_instances"] = hist_kind
    run.cov["settings_of_solved_instances"] = hist_set
    run.cov["crashes_note"] = "solver crashes / timeouts are counted here and belong to C02"

    # ---- non-triviality: is the constraint violated by some fuzzed tree? ----
    nontrivial = {}
    for ji, (job, res) in enumerate(zip(jobs, results)):
        if not res["solutions"]:
            continue
        geff = effective_grammar(job["gname"], job["settings"]["start_symbol"])
        random.seed(job["seed"])
        fz = GrammarFuzzer(geff, max_nonterminals=12)
        nt = False
        for _ in range(6):
            try:
                t = fz.expand_tree(DerivationTree(root_of(job), None))
                if py_spec(job, t) is False:
                    nt = True
                    break
            except Exception:
                break
        nontrivial[ji] = nt
    run.cov["nontrivial_instances"] = sum(nontrivial.values())

    # ---- oracle 1: Coq ----
    coq_fail = set()
    try:
        fails, ntrees, dt = check_batch("c01", jobs, results)
        coq_fail = set(fails)
        run.cov["coq_seconds"] = round(dt, 1)
    except RuntimeError as e:
        run.violation({"kind": "correspondence-not-evaluable", "obligation": "Solver/State.v sol_check cases",
                       "error": str(e)[-2500:]}, found_input=False)
        fails = []

    # ---- oracle 2: spec_sem.py, cross-check ----
    py_fail, py_undef = set(), 0
    for ji, (job, res) in enumerate(zip(jobs, results)):
        for si, tj in enumerate(res["solutions"]):
            t = tree_from_json(tj)
            v = py_spec(job, t)
            run.count((ji, si, str(t)), nontrivial.get(ji, False))
            if v is False:
                py_fail.add((ji, si))
            elif v is not True:
                py_undef += 1
            if len(run.cov["samples"]) < 6 and si == 0 and ji >= n_fixed and nontrivial.get(ji):
                run.sample({"grammar": job["gname"], "constraint": unparse(job["ast"]), "settings": job["settings"],
                            "solutions": [str(tree_from_json(x)) for x in res["solutions"][:4]], "end": res["end"]})
    run.cov["spec_sem_undefined"] = py_undef
    # trees that fail in Coq for a reason other than bit 16 are not visible to spec_sem; trees that
    # fail bit 16 must fail in spec_sem too and vice versa
    # (instances with numeric quantifiers are judged by spec_sem only: Coq gets the trivial constraint)
    disagree = [x for x in (py_fail - coq_fail) if not has_numq(jobs[x[0]]["ast"])]
    run.cov["disagreements_checked"] = len(coq_fail | py_fail)

    # ---- classification ----
    by_job = {}
    for (ji, si) in sorted(coq_fail | py_fail):
        by_job.setdefault(ji, []).append(si)
    unknown = []
    known_hits = {}
    # one more parallel Coq pass over the first failing tree of every failing instance: is the
    # failure code exactly 16 (only the constraint is violated)?
    firsts = {(ji, sis[0]) for ji, sis in by_job.items() if (ji, sis[0]) in coq_fail}
    not16 = set(firsts)
    if firsts:
        try:
            n16, _, _ = check_batch("c01k", jobs, results, ok_def=OK16_DEF, only=firsts)
            not16 = set(n16)
        except RuntimeError:
            pass
    for ji, sis in by_job.items():
        job, res = jobs[ji], results[ji]
        si = sis[0]
        lit = g_tree(tree_from_json(res["solutions"][si]))
        if (ji, si) not in coq_fail:
            code = 0
        elif (ji, si) not in not16:
            code = 16
        else:
            code = coq_code(job, lit) if len(unknown) < 5 else None
        entry = {"job": job, "solution_index": si, "tree": res["solutions"][si],
                 "string": str(tree_from_json(res["solutions"][si])), "code": code,
                 "failed": [v for b, v in FAIL_BITS.items() if code and code & b]
                           + (["constraint not satisfied (spec_sem.py; instance with numeric quantifiers)"]
                              if has_numq(job["ast"]) and (ji, si) in py_fail else []),
                 "spec_sem": (ji, si) not in py_fail, "all_failing_indices": sis,
                 "solutions": [str(tree_from_json(x)) for x in res["solutions"]]}
        cls = class_of(job, tree_from_json(res["solutions"][si]), code, (ji, si) in py_fail, known_by_class)
        if cls is not None:
            entry["class"] = cls
            known_hits[ji] = entry
        else:
            unknown.append(entry)
    if known_hits:
        hits = {}
        for e in known_hits.values():
            hits[e["class"]] = hits.get(e["class"], 0) + 1
            run.known(known_by_class[e["class"]]["what"])
        run.cov["known_class_hits"] = hits
        run.cov["known_examples"] = [{"class": e["class"], "constraint": unparse(e["job"]["ast"]), "string": e["string"],
                                      "settings": e["job"]["settings"]} for e in list(known_hits.values())[:4]]
    for e in known:
        if e["class"] not in {x["class"] for x in known_hits.values()}:
            run.cov.setdefault("known_not_reproduced", []).append(
                e["class"] + ": no returned tree violated such a constraint in this run")
    if unknown:
        unknown.sort(key=lambda e: len(unparse(e["job"]["ast"])) + len(e["string"]))
        w = unknown[0]
        job = w["job"]
        if w["code"] in (16, 0):
            try:
                job = minimise(job, nproc)
            except Exception:
                pass
        run.violation({"kind": "ISLaSolver.solve() returned a tree that is not a valid solution",
                       "witness": dict(job_public(job), solution_index=w["solution_index"], tree=w["tree"],
                                       string=w["string"]),
                       "original_instance": job_public(w["job"]),
                       "failed_checks": w["failed"], "sol_check_code": w["code"], "spec_sem_verdict": w["spec_sem"],
                       "solutions_of_instance": w["solutions"], "failing_instances": len(unknown),
                       "other_failing": [{"constraint": unparse(e["job"]["ast"]), "grammar": e["job"]["gname"],
                                          "string": e["string"], "code": e["code"], "spec_sem": e["spec_sem"],
                                          "settings": e["job"]["settings"], "seed": e["job"]["seed"]}
                                         for e in unknown[1:12]],
                       "theorem": "Props/C01.v C01_checked_solution_valid (sol_check = 0 -> valid solution) — check failed",
                       "how_to_replay": "./check C01 --replay <this file>"})
    elif disagree:
        ji, si = disagree[0]
        run.violation({"kind": "the two oracles disagree (spec_sem.py says unsatisfied, Coq satb says satisfied)",
                       "instance": job_public(jobs[ji]), "tree": results[ji]["solutions"][si],
                       "obligation": "correspondence satb (Semantics.v) <-> spec_sem.py"}, found_input=False)
    # ---- trace conformance (debug state tree edges against the tree part of the rule system) ----
    try:
        trace_stage(run, jobs, results, nproc, known_by_class)
    except Exception as e:  # noqa
        run.violation({"kind": "trace-conformance stage crashed", "error": type(e).__name__ + ": " + str(e)[:500],
                       "obligation": "harness/c01.py trace_stage"}, found_input=False)
    n_checked = run.cov["trees_checked"]
    print(f"[C01] instances={len(jobs)} with_solutions={run.cov['instances_with_solutions']} trees={n_checked} "
          f"nontrivial_instances={run.cov['nontrivial_instances']} outcomes={hist_end} known_hits={len(known_hits)}",
          flush=True)
    if run.cov["instances_with_solutions"] < len(jobs) * 0.05:
        run.violation({"kind": "generator too weak: fewer than 5% of the instances produced a solution "
                               "(machine overloaded or solver broken)",
                       "outcomes": hist_end, "obligation": "harness/c01.py generators"}, found_input=False)
    if not proof_ok:
        run.violation({"kind": "proof obligation failed", "problems": run.proof_problems,
                       "obligation": "Props/C01.v"}, found_input=False)
    numq_jobs = [ji for ji, j in enumerate(jobs) if has_numq(j["ast"])]
    run.cov["numeric_quantifier_instances"] = {
        "instances": len(numq_jobs),
        "trees": sum(len(results[ji]["solutions"]) for ji in numq_jobs),
        "note": "satb decides no numeric quantifiers (no_numq): for these instances Coq checks shape, grammar "
                "validity, closedness and root label of every tree (sol_check with the trivial constraint) and the "
                "constraint is judged by harness/spec_sem.py with numerals 0..tree size+2 (a bounded SEARCH: a "
                "falsified `forall int` / a satisfied `exists int` verdict is definite)"}
    run.cov["trusted_base"] = lib.TRUSTED_BASE_COMMON + [
        "constraints with numeric quantifiers (4 fixed probes) are judged by spec_sem.py, not by satb in Coq",
        "C01 theorems are about an ABSTRACT transition system (Solver/Rules.v, RulesMore.v, RulesMore3.v) "
        "over-approximating ISLaSolver.solve(); the tie to /repo is (1) the runtime verified check of outputs and "
        "(2) the trace-conformance stream: the TREE part of every sampled edge of ISLaSolver(debug=True).state_tree "
        "is checked in Coq against the rules (TraceConf.edge_kind, sound by C01_trace_edge_sound); the CONSTRAINT "
        "part of a step (which conjuncts are added/dropped) is not replayed against the rules",
        "match-expression prefix trees (BindExpression.to_tree_prefix) are inputs of the specification",
        "SMT atoms restricted to the decided family satom (string (in)equality, str.len, str.to.int comparisons)",
        "budget per instance is user-CPU time; which trees are returned may vary with Z3's internal wall-clock "
        "timeouts, every returned tree is checked",
    ]


def replay(path):
    d = json.load(open(path))
    w = d.get("witness")
    if not w:
        print("replay file names an obligation, not an input:", d.get("obligation"))
        return 1
    import z3  # noqa
    job = {"idx": "replay", "gname": w["grammar"], "ast": detuple(w["ast"]), "how": w["how"],
           "settings": w["settings"], "seed": w["seed"], "budget": w.get("budget_cpu_s", 2.0) * 3,
           "max_solutions": w.get("max_solutions", 10)}
    if "trace_edge" in w:
        # trace-conformance witness: the recorded edge is re-evaluated in Coq, then the instance is run
        # again with debug=True and every edge of its state tree is classified
        import re
        e = w["trace_edge"]
        kd, hint = edge_kind_py(e["p"], e["c"])
        txt = lib.coq_eval("c01te", TRACE_IMPORTS, f"edge_kind TG0 TT0_0 {g_path(hint)} TT0_1",
                           extra_defs=trace_defs(0, job, [e["p"], e["c"]]))
        m = re.search(r"=\s*(\d+)%N", txt)
        ck = int(m.group(1)) if m else None
        print("recorded edge:", str(tree_from_json(e["p"])), "->", str(tree_from_json(e["c"])),
              "| edge_kind (Coq) =", ck, EDGE_KINDS.get(ck))
        res = solve_instance(dict(job, trace=True, budget=w.get("budget_cpu_s", 1.0) * 3, max_edges=10 ** 6))
        bad = 0
        for e2 in (res.get("trace") or {}).get("edges", []):
            k2, _ = edge_kind_py(e2["p"], e2["c"])
            if k2 == 0:
                bad += 1
                print("non-conforming edge:", str(tree_from_json(e2["p"])), "->", str(tree_from_json(e2["c"])))
        print("end:", res["end"], "non-conforming edges in the re-run (Python mirror of edge_kind):", bad)
        return 1 if (ck == 0 or bad) else 0
    res = solve_instance(job)
    bad = 0
    for si, tj in enumerate(res["solutions"]):
        t = tree_from_json(tj)
        code = coq_code(job, g_tree(t))
        print(si, repr(str(t)), "sol_check =", code, [v for b, v in FAIL_BITS.items() if code and code & b])
        bad += bool(code)
    print("end:", res["end"], "violating trees:", bad)
    return 1 if bad else 0



if __name__ == "__main__":
    # development aid: python c01.py <n> <seed>  — solving statistics only
    n, seed = int(sys.argv[1]), int(sys.argv[2])
    rng = random.Random(seed)
    jobs = probe_instances(2.0, 10) + [gen_instance(rng, i, 2.0, 10) for i in range(n)]
    t0 = time.time()
    res = run_jobs(jobs, 12)
    print("wall", round(time.time() - t0, 1))
    ends = {}
    for j, r in zip(jobs, res):
        e = r["end"].split(":")[0] + ("+" if r["solutions"] else "-")
        ends[e] = ends.get(e, 0) + 1
        print(j["idx"], j["gname"], j["settings"]["methods"], len(r["solutions"]), r["end"][:80], round(r["seconds"], 1), unparse(j["ast"])[:150])
    print(ends)
