"""C04 — structural predicates: correspondence of Logic/Preds.v with isla.isla_predicates.

The model is proved equivalent to the declarative specification (Props/C04.v), so a
disagreement between model and implementation on a valid input IS an input on which the
implementation departs from the documented meaning (or, for harmless rewrites, the
model's boolean verdict still equals the spec and the searcher says so)."""
import itertools, random, json
import lib
from lib import g_path, g_bool, g_tree, g_str, g_nat
from gen_trees import rand_tree, tree_json, tree_from_json
from isla import isla_predicates as P
from isla.language import StructuralPredicateFormula

from isla.evaluator import evaluate
EVAL_GRAMMAR = {"<start>": ["<a>"], "<a>": ["x<b>", "y"], "<b>": ["<c>", ""], "<c>": ["<a>"]}


def tv_bool(tv):
    if tv.is_true():
        return True
    if tv.is_false():
        return False
    raise RuntimeError("UNKNOWN verdict for a structural predicate")


PREDS = {p.name: p for p in P.STANDARD_STRUCTURAL_PREDICATES}
PATH_ONLY = ["before", "after", "same_position", "different_position", "inside", "direct_child"]
MODEL_FN = {"before": "is_before", "after": "is_after", "same_position": "is_same_position",
            "different_position": "is_different_position", "inside": "in_tree",
            "direct_child": "is_direct_child"}
OPS = ["EQ", "GE", "LE", "GT", "LT"]


# ---- python-side reference of the SPEC (used only by the failing-input search) ----
def doc_lt(p, q):
    for i in range(min(len(p), len(q))):
        if p[i] != q[i]:
            return p[i] < q[i]
    return False


def is_prefix(p, q):
    return q[:len(p)] == p


def spec_path_only(name, p, q):
    return {"before": doc_lt(p, q), "after": doc_lt(q, p), "same_position": p == q,
            "different_position": p != q, "inside": is_prefix(q, p),
            "direct_child": len(p) == len(q) + 1 and is_prefix(q, p)}[name]


def spec_tree_pred(kind, t, args, p, q):
    nodes = t.paths()
    lab = {pp: s.value for pp, s in nodes}
    if kind == "nth":
        n = int(args[0])
        if not is_prefix(q, p):
            return False
        cnt = sum(1 for r, s in nodes if is_prefix(q, r) and s.value == lab[p] and (r == p or r < p))
        # tuple comparison r < p is lexicographic = pre-order
        return cnt == n
    if kind == "consecutive":
        if not doc_lt(p, q):
            return False
        return not any(doc_lt(p, r) and doc_lt(r, q) for r, s in nodes if not s.children)
    if kind == "level":
        op, nt = args
        cands = [()] + [p[:i] for i in range(1, min(len(p), len(q)) + 1)
                        if p[:i] == q[:i] and lab[p[:i]] == nt]
        for c in cands:
            o1 = any(lab[p[:i]] == nt for i in range(len(c) + 1, len(p)))
            o2 = any(lab[q[:i]] == nt for i in range(len(c) + 1, len(q)))
            ok = {"EQ": not o1 and not o2, "GE": not o1, "LE": not o2,
                  "GT": not o1 and o2, "LT": not o2 and o1}[op]
            if ok:
                return True
        return False
    raise ValueError(kind)


def lcp_len(p, q):
    n = 0
    while n < len(p) and n < len(q) and p[n] == q[n]:
        n += 1
    return n


def is_nonterminal_label(t, p):
    from isla.helpers import is_nonterminal
    return bool(is_nonterminal(t.get_subtree(p).value))


def impl_outcome(f, *a):
    try:
        return ("ok", bool(f(*a)))
    except Exception as e:
        return ("raise", lib.exn_name(e))


def g_outcome(o):
    return f"(Ok {g_bool(o[1])})" if o[0] == "ok" else f"(Raise {o[1]})"


def run(run):
    rng = random.Random(run.seed)
    thorough = run.tier == "thorough"
    run.cov["rule"] = ("path-only predicates: EXHAUSTIVE over all ordered pairs of paths of length<=L over "
                       "indices {0,1,2}; nth/consecutive/level: all ordered node pairs of generated trees "
                       "(x n in 0..4, x 5 level operators x 2 nonterminals), called both directly and through "
                       "StructuralPredicateFormula.evaluate (find_node by id). non-trivial = both paths "
                       "non-empty and distinct; for tree predicates additionally the tree has >=2 nodes "
                       "carrying the relevant label")
    proof_ok = run.proof_stage()

    disagreements = []   # (kind, detail dict)

    # ---- 1. path-only predicates, exhaustive ----
    L = 5 if thorough else 4
    paths = [()]
    for n in range(1, L + 1):
        paths += list(itertools.product(range(3), repeat=n))
    cases, meta = [], []
    for name in PATH_ONLY:
        f = PREDS[name].evaluate
        for p in paths:
            for q in paths:
                o = impl_outcome(f, None, p, q)
                cases.append(f"({PATH_ONLY.index(name)}%nat, {g_path(p)}, {g_path(q)}, {g_outcome(o)})")
                meta.append((name, p, q, o))
                run.count((name, p, q), bool(p) and bool(q) and p != q)
    run.sample({"pred": "after", "path_1": [1, 0], "path_2": [1], "impl": PREDS["after"].evaluate(None, (1, 0), (1,))})
    ok_def = ("fun c : nat * path * path * res bool => let '(k, p, q, r) := c in "
              "res_eqb Bool.eqb (Ok (match k with 0 => is_before p q | 1 => is_after p q | 2 => is_same_position p q "
              "| 3 => is_different_position p q | 4 => in_tree p q | _ => is_direct_child p q end)) r")
    try:
        bad, dt = lib.coq_mismatches("c04a", "Preds", ok_def, cases, shard=6000)
        run.cov["path_only_cases"] = len(cases)
        run.cov["coq_seconds_path_only"] = round(dt, 1)
        for i in bad:
            name, p, q, o = meta[i]
            disagreements.append({"pred": name, "path_1": list(p), "path_2": list(q), "impl": o,
                                  "spec": spec_path_only(name, p, q)})
    except RuntimeError as e:
        run.violation({"kind": "correspondence-not-evaluable", "obligation": "Preds.v path-only cases", "error": str(e)[-2000:]},
                      found_input=False)

    # ---- 2. tree predicates ----
    ntrees = 150 if thorough else 40
    shards, smeta = [], []
    routes = {"direct": 0, "formula": 0, "evaluate": 0}
    hist = {"nth": 0, "consecutive": 0, "level": 0, "raise": 0, "true": 0, "false": 0}
    for ti in range(ntrees):
        t = rand_tree(rng, depth=rng.randint(2, 4), max_deg=3)
        nodes = t.paths()
        if len(nodes) > 22:
            continue
        labels = [s.value for _, s in nodes]
        defs = f"Definition T := {g_tree(t)}.\n"
        cs, ms = [], []
        for (p, sp) in nodes:
            for (q, sq) in nodes:
                route = rng.choice(["direct", "formula", "evaluate"])
                routes[route] += 1
                def call(name, *sargs):
                    pred = PREDS[name]
                    if route == "formula":
                        return impl_outcome(StructuralPredicateFormula(pred, *sargs, sp, sq).evaluate, t)
                    if route == "evaluate":
                        # the property's observable: isla.evaluator.evaluate on the instantiated atom
                        return impl_outcome(lambda: tv_bool(evaluate(StructuralPredicateFormula(pred, *sargs, sp, sq), t, EVAL_GRAMMAR)))
                    return impl_outcome(pred.evaluate, t, *sargs, p, q)
                nt_many = labels.count(sp.value) >= 2
                for n in range(0, 5):
                    # n passed as numeric string half of the time, as the parser does
                    arg = str(n)
                    o = call("nth", arg)
                    cs.append(f"(0%nat, {n}%nat, {g_path(p)}, {g_path(q)}, {g_outcome(o)})")
                    ms.append(("nth", [arg], p, q, o))
                    run.count(("nth", ti, n, p, q), bool(p) and bool(q) and p != q and nt_many)
                    hist["nth"] += 1
                o = call("consecutive")
                cs.append(f"(1%nat, 0%nat, {g_path(p)}, {g_path(q)}, {g_outcome(o)})")
                ms.append(("consecutive", [], p, q, o))
                run.count(("cons", ti, p, q), bool(p) and bool(q) and p != q)
                hist["consecutive"] += 1
                for nti, nt in enumerate(["<a>", "<b>"]):
                    for oi, op in enumerate(OPS):
                        o = call("level", op, nt)
                        cs.append(f"({2 + oi + 5 * nti}%nat, 0%nat, {g_path(p)}, {g_path(q)}, {g_outcome(o)})")
                        ms.append(("level", [op, nt], p, q, o))
                        run.count(("level", ti, op, nt, p, q), bool(p) and bool(q) and p != q and labels.count(nt) >= 2)
                        hist["level"] += 1
        for m in ms:
            hist["raise" if m[4][0] == "raise" else str(m[4][1]).lower()] += 1
        shards.append((defs, cs))
        smeta.append((t, ms))
        if ti < 2:
            run.sample({"tree": tree_json(t), "n_cases": len(cs), "first": [ms[1][0], ms[1][1], list(ms[1][2]), list(ms[1][3]), ms[1][4]]})
    run.cov["tree_pred_histogram"] = hist
    run.cov["call_routes_node_pairs"] = routes
    run.cov["trees"] = len(shards)
    A, B = g_str("<a>"), g_str("<b>")
    ok_def = ("fun c : nat * nat * path * path * res bool => let '(k, n, p, q, r) := c in "
              "let op := fun i => match i with 0 => EQ | 1 => GE | 2 => LE | 3 => GT | _ => LT end in "
              "res_eqb Bool.eqb r (match k with 0 => is_nth T n p q | 1 => consecutive T p q "
              f"| _ => Ok (level_check T (op ((k - 2) mod 5)) (if Nat.ltb (k - 2) 5 then {A} else {B}) p q) end)")
    try:
        bad, dt = lib.coq_run_shards("c04b", "Preds", ok_def, shards)
        run.cov["coq_seconds_tree_preds"] = round(dt, 1)
        for (k, i) in bad:
            t, ms = smeta[k]
            kind, args, p, q, o = ms[i]
            spec = None
            try:
                spec = spec_tree_pred(kind, t, args, p, q)
            except Exception as e:
                spec = f"spec-undefined: {e}"
            disagreements.append({"pred": kind, "args": args, "tree": tree_json(t), "path_1": list(p),
                                  "path_2": list(q), "impl": o, "spec": spec})
    except RuntimeError as e:
        run.violation({"kind": "correspondence-not-evaluable", "obligation": "Preds.v tree cases", "error": str(e)[-2000:]},
                      found_input=False)

    # ---- 2b. property-level oracle on EVERY tree case (not only on model/impl disagreements):
    #      implementation vs. the declarative spec; the recorded class K_cons_rel is a known finding
    known = [e for e in lib.known_findings("C04") if e.get("status") == "open"]
    kcons = next((e for e in known if e.get("class") == "K_cons_rel"), None)
    spec_fail, n_known = [], 0
    for (t, ms) in smeta:
        for kind, args, p, q, o in ms:
            if o[0] != "ok":
                continue
            if kind == "nth" and not is_nonterminal_label(t, p):
                continue
            sp = spec_tree_pred(kind, t, args, p, q)
            if o[1] != sp:
                # K_cons_rel: with a non-root common prefix the relative leaf paths are compared with absolute
                # ones: leaves between the nodes are missed (True for False) or spurious ones are seen (False for True)
                if kind == "consecutive" and kcons is not None and lcp_len(p, q) > 0:
                    n_known += 1
                    continue
                spec_fail.append({"pred": kind, "args": args, "tree": tree_json(t), "path_1": list(p),
                                  "path_2": list(q), "impl": o, "spec": sp})
    run.cov["impl_vs_spec_known_K_cons_rel"] = n_known
    # replay the recorded witness of every open finding on the implementation
    for e in known:
        w = e["witness"]
        t = tree_from_json(w["tree"])
        o = impl_outcome(PREDS[w["pred"]].evaluate, t, *w.get("args", []), tuple(w["path_1"]), tuple(w["path_2"]))
        if o == ("ok", w["impl"]) and w["impl"] != w["spec"]:
            run.known(e["what"])
    disagreements.extend(d for d in spec_fail if d not in disagreements)

    # ---- 3. classify ----
    run.cov["disagreements_checked"] = len(disagreements)
    failing = [d for d in disagreements if d["impl"] != ("ok", d["spec"])]
    if failing:
        failing.sort(key=lambda d: (len(json.dumps(d))))
        d = failing[0]
        run.violation({"kind": "implementation departs from documented meaning", "witness": d,
                       "all_failing": len(failing), "how_to_replay": "./check C04 --replay <this file>",
                       "theorem": "Props/C04.v (model = spec) + correspondence"})
    elif disagreements:
        run.violation({"kind": "correspondence broken but spec verdicts agree", "first": disagreements[0],
                       "obligation": "correspondence Preds.v <-> isla_predicates.py"}, found_input=False)
    if not proof_ok:
        # theorem no longer checks: search = the full correspondence above already ran against the spec
        run.violation({"kind": "proof obligation failed", "problems": run.proof_problems,
                       "obligation": "Props/C04.v"}, found_input=False)
    run.cov["trusted_base"] = lib.TRUSTED_BASE_COMMON + [
        "paths of tree predicates are valid paths of the tree (as evaluate() supplies them)",
        "DerivationTree.paths()/get_subtree modelled as structural pre-order / nth_error (tied by this run, proved facts in C16)"]
    run.cov["exhaustive"] = True


def replay(path):
    d = json.load(open(path))
    w = d.get("witness")
    if not w:
        print("replay file names an obligation, not an input:", d.get("obligation")); return 1
    p, q = tuple(w["path_1"]), tuple(w["path_2"])
    if "tree" in w:
        t = tree_from_json(w["tree"])
        o = impl_outcome(PREDS[w["pred"]].evaluate, t, *w["args"], p, q)
    else:
        o = impl_outcome(PREDS[w["pred"]].evaluate, None, p, q)
    print("impl:", o, "spec:", w["spec"])
    return 0 if o == ("ok", w["spec"]) else 1
