#!/bin/bash
# confirm_seed.sh <PROP> <seed-out-dir> <name>
# Confirms a seeded change in a scratch worktree: patch applies; demo exits 0 without / 1 with the change;
# the pinned suite's stable tests all still pass with the change. Stores it under /verif/seeded/<name>/.
PROP=$1; SRC=$2; NAME=$3
WT=/tmp/confirm-$NAME
OUT=/verif/seeded/$NAME
mkdir -p $OUT
git -C /repo worktree remove --force $WT >/dev/null 2>&1
git -C /repo worktree add -f $WT HEAD >/dev/null 2>&1 || { echo "worktree failed"; exit 2; }
cd $WT
export PYTHONHASHSEED=0 PYTHONPATH=$WT/src
timeout 600 /venv/bin/python -W ignore $SRC/demo.py > $OUT/demo_unchanged.log 2>&1; A=$?
git apply $SRC/patch.diff 2>/dev/null || git apply -3 $SRC/patch.diff || { echo "patch does not apply"; git -C /repo worktree remove --force $WT; exit 2; }
timeout 600 /venv/bin/python -W ignore $SRC/demo.py > $OUT/demo_changed.log 2>&1; B=$?
timeout 3000 /venv/bin/python -m pytest -q -p no:cacheprovider --timeout=900 --continue-on-collection-errors --deselect tests/test_solver.py::TestSolver::test_mutate_assignment --junitxml=$OUT/suite.xml > $OUT/suite.log 2>&1
python3 /verif/harness/suite_cmp.py $OUT/suite.xml > $OUT/suite_cmp.txt 2>&1; C=$?
if [ $C -ne 0 ]; then
  # stable tests that did not pass: re-run each alone (up to 3 times); load-dependent Z3 timeouts make a few solver tests flaky
  C=0
  for t in $(grep "NOT PASSING" $OUT/suite_cmp.txt | awk '{print $3}'); do
    f=$(echo $t | sed 's/^tests\.\([a-z_0-9]*\)\.\(.*\)$/tests\/\1.py::\2/')
    ok=1
    for k in 1 2 3; do
      if timeout 1500 /venv/bin/python -m pytest -q -p no:cacheprovider --timeout=900 "$f" > /dev/null 2>&1; then ok=0; break; fi
    done
    echo "  rerun-alone $f -> $([ $ok -eq 0 ] && echo passes || echo STILL-FAILS)" >> $OUT/suite_cmp.txt
    [ $ok -ne 0 ] && C=1
  done
fi
cp $SRC/patch.diff $SRC/demo.py $OUT/
[ -f $SRC/meta.json ] && cp $SRC/meta.json $OUT/meta_agent.json
# run our check against the changed tree (evidence written by this run is NOT kept: it is re-generated on /repo later)
if [ -f /verif/harness/$(echo $PROP | tr A-Z a-z).py ]; then
  (cd /verif && VERIF_REPO=$WT timeout 3600 ./check $PROP --tier quick > $OUT/check.log 2>&1; echo "check_exit=$?" >> $OUT/check.log)
  grep -E "^VIOLATION|^KNOWN-FINDING|check_exit|^\[$PROP\]" $OUT/check.log > $OUT/check_summary.txt
  mkdir -p $OUT/replays; for r in $(grep -o "replay=[^ ]*" $OUT/check.log | cut -d= -f2); do cp $r $OUT/replays/ 2>/dev/null; done
  tail -c 4000 $OUT/check.log > $OUT/check_tail.log; rm -f $OUT/check.log
fi
tail -c 3000 $OUT/suite.log > $OUT/suite_tail.log; rm -f $OUT/suite.log $OUT/suite.xml
cd /; git -C /repo worktree remove --force $WT
echo "demo_unchanged_exit=$A demo_changed_exit=$B suite_stable_missing_exit=$C" | tee $OUT/confirm.txt
