"""C17 — serialised trees and constraints round-trip without damaging the original.

Correspondence of Codec/TreeJson.v (object model of DerivationTree: slots, to_json/from_json/pickle)
and Codec/SmtEscape.v (string literals through SMTFormula.__getstate__/__setstate__ and Z3) with the
implementation, plus a direct evaluation of the PROPERTY on every generated input:

  * tree part: random operation histories (<= 8 ops at random nodes) over real DerivationTree objects,
    outcome by outcome and final slot state against the model; property oracle = the same history
    with the serialisations removed must give the same answers, serialisations must not raise, the
    decoded tree must equal the original (structure, ids, string).
  * SMT part: Z3's as_string / literal lexing against the model, literals through real pickle of
    SMTFormula objects; property oracle = Z3's own AST identity loaded.formula.eq(original.formula).
  * CLI part: derivation_tree_to_json -> get_input_string (the code path of `isla check`/`isla parse`).

The model has a flag fx per defect family (False = code as pinned, True = proposed fix applied).  The
flag is NOT chosen per case: it is determined once, by replaying the recorded witnesses of the open
known findings, and every case must then agree with the model under that flag."""
import io
import json
import pickle
import random
from argparse import Namespace

import z3

import lib
from lib import g_str, g_path, g_tree, g_bool
from isla.derivation_tree import DerivationTree as T
from isla import language as L
from isla.z3_helpers import z3_eq, smt_expr_to_str
from isla import cli
from grammar_graph import gg

GRAMMAR = {
    "<start>": ["<a>"],
    "<a>": ["<b><a>", "<b>", "<c>;<b>"],
    "<b>": ["x", "y<c>", "é\"\\", "\n<d>"],
    "<c>": ["", "0<c>", "<d>"],
    "<d>": ["\U0001F600", "<b>"],
}
PFX = "_DerivationTree"
KEYS = ["__value", "__children", "_id", "__len", "__hash", "__structural_hash", "__k_paths",
        "__concrete_k_paths", "__is_open"]
KEYNAME = {k: (k if k == "_id" else PFX + k) for k in KEYS}
KEYCODE = {KEYNAME[k]: i for i, k in enumerate(KEYS)}
OPS = ["str", "len", "hash", "shash", "is_open", "kp", "ckp", "to_json", "pickle"]
SERIAL = ("to_json", "pickle")


# --------------------------------------------------------------------------- trees
def split_alt(alt):
    import re
    return [s for s in re.split(r"(<[^<> ]*>)", alt) if s]


def gen_struct(rng, sym, depth, budget):
    """structure (label, None | [children]) derived from GRAMMAR; open leaves when out of budget"""
    if sym not in GRAMMAR:
        return (sym, [])
    if depth <= 0 or budget[0] <= 0 or rng.random() < 0.12:
        return (sym, None)
    alt = rng.choice(GRAMMAR[sym])
    parts = split_alt(alt)
    budget[0] -= max(1, len(parts))
    if not parts:
        return (sym, [("", [])] if rng.random() < 0.5 else [])
    return (sym, [gen_struct(rng, p, depth - 1, budget) for p in parts])


def assign_ids(rng, st, ids):
    lbl, ch = st
    kids = None if ch is None else [assign_ids(rng, c, ids) for c in ch]
    return (lbl, ids.pop(), kids)


BIG_IDS = [2 ** 31, 2 ** 53 + 1, 2 ** 63 - 1, 2 ** 63, 2 ** 64, 10 ** 25]


def id_pool(rng, profile):
    """profile 0: distinct small ids; 1: id 0 present (as in the first tree of a fresh process);
    2: very large ids present; 3: both"""
    ids = list(range(1, 60)); rng.shuffle(ids)
    extra = ([0] if profile in (1, 3) else []) + (rng.sample(BIG_IDS, 3) if profile in (2, 3) else [])
    # the extra ids are popped first: root / early nodes get them
    tail = ids[:40]
    for e in extra:
        tail.insert(rng.randint(max(0, len(tail) - 4), len(tail)), e)
    return tail


def set_id(st, path, i):
    lbl, _id, ch = st
    if not path:
        return (lbl, i, ch)
    return (lbl, _id, [set_id(c, path[1:], i) if k == path[0] else c for k, c in enumerate(ch)])


def st_at(st, path):
    for k in path:
        st = st[2][k]
    return st


def shape(st):
    return (st[0], None if st[2] is None else [shape(c) for c in st[2]])


def duplicate_ids(rng, st):
    """give two STRUCTURALLY DIFFERENT nodes the same id (what sharing a node and its replace_path
    successor in one tree produces); returns (st, True) when such a pair exists"""
    paths = list(all_paths(st)); rng.shuffle(paths)
    for p in paths:
        for q in paths:
            if p != q and shape(st_at(st, p)) != shape(st_at(st, q)):
                return set_id(st, q, st_at(st, p)[1]), True
    return st, False


def st_of(t):
    return (t.value, t.id, None if t.children is None else [st_of(c) for c in t.children])


def corpus_structs():
    """fixed cases that must pass: witnesses of the fixed findings, node id 0, a node together with its
    replace_path successor (same ids, different structure) in one tree"""
    out = []
    out.append((w_struct(W_TOJSON_MUT["tree"]), w_ops(W_TOJSON_MUT["ops"])))
    out.append((w_struct(W_TOJSON_CHILD["tree"]), w_ops(W_TOJSON_CHILD["ops"])))
    full = [((), ("to_json", 0)), ((), ("pickle", 0)), ((), ("str", 0)), ((), ("kp", 2)), ((), ("to_json", 0))]
    out.append((("<start>", 0, None), full))
    out.append((("<start>", 7, [("<a>", 0, None)]), full + [((0,), ("pickle", 0))]))
    out.append((("<start>", 0, [("<a>", 10 ** 25, [("<b>", 2 ** 64, [("x", 2 ** 63, [])])])]), full))
    # x := 1 ; x := 2 in miniature: b2 = b1.replace_path(...) keeps b1's id, both below one root
    b1 = T("<b>", [T("y", [], id=31), T("<c>", [T("0", [], id=33), T("<c>", [], id=34)], id=32)], id=30)
    b2 = b1.replace_path((1,), T("<c>", [T("", [], id=36)], id=35))
    assert b2.id == b1.id and str(b1) != str(b2)
    t = T("<start>", [T("<a>", [b1, T("<a>", [b2], id=41)], id=40)], id=42)
    out.append((st_of(t), full + [((0, 1), ("to_json", 0)), ((0, 0), ("pickle", 0))]))
    return out


def build(st):
    lbl, i, ch = st
    return T(lbl, None if ch is None else [build(c) for c in ch], id=i)


def count_nodes(st):
    return 1 + sum(count_nodes(c) for c in (st[2] or []))


def node_at(t, p):
    for i in p:
        t = t.children[i]
    return t


def all_paths(st, pre=()):
    yield pre
    for i, c in enumerate(st[2] or []):
        yield from all_paths(c, pre + (i,))


# --------------------------------------------------------------------------- flat renderings (= f_* of TreeJson.v)
def f_str(s):
    return [len(s)] + [ord(c) for c in s]


def f_optz(v):
    return [0] if v is None else [1, v]


def canon_hash(v, refv):
    return None if v is None else (1 if v == refv else 0)


_KP_MEMO = {}


def ref_kp(graph, ref, k, pot):
    """reference k-path set of a pristine copy (memoised on the id-free structure)"""
    key = (repr(ref.to_parse_tree()), k, pot)
    if key not in _KP_MEMO:
        _KP_MEMO[key] = graph.k_paths_in_tree(ref, k, include_potential_paths=pot, include_terminals=False)
    return _KP_MEMO[key]


def f_dict(d, graph, ref, pot):
    if d is None:
        return [-1]
    out = [len(d)]
    for k, v in d.items():
        out += [int(k), 1 if v == ref_kp(graph, ref, int(k), pot) else 0]
    return out


def f_obj(x, ref, graph):
    d = x.__dict__
    ch = d[PFX + "__children"]
    out = f_str(d[PFX + "__value"]) + [d["_id"], 1 if ch is None else 0]
    out += f_optz(d[PFX + "__len"])
    out += f_optz(canon_hash(d[PFX + "__hash"], hash(ref)))
    out += f_optz(canon_hash(d[PFX + "__structural_hash"], ref.structural_hash()))
    o = d[PFX + "__is_open"]
    out += f_optz(None if o is None else int(bool(o)))
    out += f_dict(d.get(PFX + "__k_paths"), graph, ref, True)
    out += f_dict(d.get(PFX + "__concrete_k_paths"), graph, ref, False)
    out.append(len(ch or ()))
    for c, rc in zip(ch or (), ref.children or ()):
        out += f_obj(c, rc, graph)
    return out


def f_json(j, ref):
    """JSON value produced by to_json (parsed by json.loads), keys in the model's canonical order,
    hash integers canonicalised against the pristine copy `ref`"""
    if not isinstance(j, dict):
        raise ValueError("not an object")
    items = sorted(j.items(), key=lambda kv: KEYCODE[kv[0]])
    out = [5, len(items)]
    for k, v in items:
        code = KEYCODE[k]
        out.append(code)
        if code == 0:
            out += [3] + f_str(v)
        elif code == 1:
            if v is None:
                out += [0]
            else:
                out += [4, len(v)]
                for c, rc in zip(v, ref.children):
                    out += f_json(c, rc)
        elif code in (2, 3):
            out += [0] if v is None else [2, v]
        elif code == 4:
            out += [0] if v is None else [2, canon_hash(v, hash(ref))]
        elif code == 5:
            out += [0] if v is None else [2, canon_hash(v, ref.structural_hash())]
        elif code in (6, 7):
            if v != {}:
                raise ValueError("non-empty k-path dict in JSON")
            out += [5, 0]
        else:
            out += [0] if v is None else [1, int(v)]
    return out


def g_zlist(l):
    return "[" + ";".join(str(v) if v >= 0 else f"({v})" for v in l) + "]%Z" if l else "(@nil Z)"


def g_out(o):
    return f"(Ok {g_zlist(o[1])})" if o[0] == "ok" else f"(Raise {o[1]})"


def g_op(p, op):
    kind, k = op
    g = {"str": "OStr", "len": "OLen", "hash": "OHash", "shash": "OSHash", "is_open": "OIsOpen",
         "to_json": "OToJson", "pickle": "OPickle"}.get(kind)
    if g is None:
        g = f"(OKPaths {g_bool(kind == 'kp')} {k}%N)"
    return f"({g_path(p)}, {g})"


# --------------------------------------------------------------------------- running a history on the implementation
def exec_history(graph, st, ops, want_flat=True):
    """returns (outcomes, final flat state, plain answers for the property oracle)"""
    t, ref = build(st), build(st)
    outs, plain = [], []
    for p, (kind, k) in ops:
        node, rnode = node_at(t, p), node_at(ref, p)
        try:
            if kind == "str":
                v = str(node); o = [10] + f_str(v); pl = v
            elif kind == "len":
                v = len(node); o = [11, v]; pl = v
            elif kind == "hash":
                v = hash(node); o = [12, canon_hash(v, hash(rnode))]; pl = v
            elif kind == "shash":
                v = node.structural_hash(); o = [12, canon_hash(v, rnode.structural_hash())]; pl = v
            elif kind == "is_open":
                v = node.is_open(); o = [13, int(bool(v))]; pl = bool(v)
            elif kind in ("kp", "ckp"):
                pot = kind == "kp"
                v = node.k_paths(graph, k, include_potential_paths=pot)
                o = [14, 1 if v == ref_kp(graph, rnode, k, pot) else 0]; pl = frozenset(map(repr, v))
            elif kind == "to_json":
                js = node.to_json()
                o = [15] + (f_json(json.loads(js), rnode) if want_flat else []); pl = ("json", js)
            else:
                y = pickle.loads(pickle.dumps(node))
                o = [16] + (f_obj(y, rnode, graph) if want_flat else []); pl = ("loaded", y)
            outs.append(("ok", o)); plain.append(("ok", pl))
        except Exception as e:  # the outcome is the observable
            outs.append(("raise", lib.exn_name(e))); plain.append(("raise", type(e).__name__))
    return outs, (f_obj(t, ref, graph) if want_flat else None), plain, t


def walk(t, limit=10 ** 6):
    """pre-order (path, node) list through .children only: no lru_cache'd method, no hashing, no __eq__;
    iterative and bounded (a broken decoder can produce cyclic objects): None when more than `limit` nodes"""
    out, stack = [], [((), t)]
    while stack:
        p, n = stack.pop()
        out.append((p, n))
        if len(out) > limit:
            return None
        ch = n.children or ()
        for i in range(len(ch) - 1, -1, -1):
            stack.append((p + (i,), ch[i]))
    return out


def same_tree(a, b):
    """decoded tree a against a pristine copy b of the original: node by node labels, ids (type int), open
    flags and arity; same string; find_node answers the same for every id (id 0 included); a == b"""
    nb = walk(b)
    na = walk(a, limit=len(nb))
    if na is None or [p for p, _ in na] != [p for p, _ in nb]:
        return False
    for (_, x), (_, y) in zip(na, nb):
        if (x.value, x.id, x.children is None) != (y.value, y.id, y.children is None) or type(x.id) is not int:
            return False
    if str(a) != str(b) or not (a == b):
        return False
    for i in {n.id for _, n in nb}:
        first = next(p for p, n in nb if n.id == i)
        if a.find_node(i) != first:
            return False
    return True


def property_at(graph, st, ops):
    """PROPERTY on the implementation, no model involved.  Returns list of failure descriptions."""
    fails = []
    _, _, with_ser, t = exec_history(graph, st, ops, want_flat=False)
    stripped = [(p, o) for p, o in ops if o[0] not in SERIAL]
    _, _, without, _ = exec_history(graph, st, stripped, want_flat=False)
    obs = [a for (p, o), a in zip(ops, with_ser) if o[0] not in SERIAL]
    if obs != without:
        i = next(i for i, (x, y) in enumerate(zip(obs, without)) if x != y)
        fails.append({"what": "answer changed by an interleaved serialisation", "observation_index": i,
                      "with": repr(obs[i])[:200], "without": repr(without[i])[:200]})
    for (p, o), a in zip(ops, with_ser):
        if o[0] in SERIAL:
            if a[0] == "raise":
                fails.append({"what": f"{o[0]} raised {a[1]}", "at": list(p)})
            elif o[0] == "pickle":
                if not same_tree(a[1][1], build(st) if not p else node_at(build(st), p)):
                    fails.append({"what": "pickle round trip changed the tree", "at": list(p)})
            else:
                y = T.from_json(a[1][1])
                if not same_tree(y, node_at(build(st), p)):
                    fails.append({"what": "JSON round trip changed the tree", "at": list(p)})
    return fails


def K_tojson(ops):
    return any(o[0] in ("kp", "ckp") for _, o in ops) and any(o[0] in SERIAL for _, o in ops)


# --------------------------------------------------------------------------- SMT literals
def mk_strval(cps):
    """Z3 string value with exactly these characters (every char as \\u{..}: no python-side guessing)"""
    return z3.StringVal("".join("\\u{%x}" % c for c in cps))


def decode_as_string(a):
    """inverse of Z3_get_lstring's rendering (harness-side, checked against str.to_code on a sample)"""
    out, i = [], 0
    while i < len(a):
        if a.startswith("\\u{", i):
            j = a.index("}", i)
            out.append(int(a[i + 3:j] or "0", 16)); i = j + 1
        else:
            out.append(ord(a[i])); i += 1
    return out


NASTY = [34, 92, 117, 123, 125, 48, 0, 10, 32, 97, 65, 102, 127, 128, 228, 255, 256, 0x5c, 0x2028,
         0x1F600, 0x2FFFF, 53, 99]


def rand_cps(rng, maxlen=7):
    n = rng.randint(0, maxlen)
    return [rng.choice(NASTY) if rng.random() < 0.85 else rng.randrange(0, 0x30000) for _ in range(n)]


def K_smt_quote(cps):
    return 34 in cps


def K_smt_latin1(cps):
    return any(128 <= c <= 255 for c in cps)


XCONST = L.Constant("x", "<a>")
XV = XCONST.to_smt()


def smt_contexts(lit, rng):
    k = rng.randrange(6)
    if k == 0:
        return z3_eq(XV, lit)
    if k == 1:
        return z3.PrefixOf(lit, XV)
    if k == 2:
        return z3.InRe(XV, z3.Star(z3.Re(lit)))
    if k == 3:
        return z3.And(z3.Length(XV) > 2, z3_eq(z3.Concat(XV, lit), XV))
    if k == 4:
        return z3.Not(z3.Contains(XV, lit))
    return z3_eq(z3.IndexOf(XV, lit, z3.IntVal(0)), z3.IntVal(-1))


def string_values(e, acc):
    if z3.is_string_value(e):
        acc.append(e)
    for c in e.children():
        string_values(c, acc)
    return acc


def smt_pickle(formula):
    """('ok', [literal char lists], same_ast) | ('raise', name)"""
    f = L.SMTFormula(formula, XCONST)
    try:
        g = pickle.loads(pickle.dumps(f))
    except Exception as e:
        return ("raise", lib.exn_name(e), type(e).__name__)
    return ("ok", [decode_as_string(v.as_string()) for v in string_values(g.formula, [])], g.formula.eq(formula))


def ref_isla_literal(cps):
    """spec-side reference of the ISLa unparser's rendering of a literal (Z3's as_string, quote as
    backslash-quote, NUL as \\u{0}); independent of smt_expr_to_str"""
    a = mk_strval(cps).as_string()
    return ('"' + a.replace('"', '\\"') + '"').replace("\\u{}", "\\u{0}")


def literal_segment(text):
    """the quoted literal inside the unparse text of a formula with exactly one string literal"""
    i, j = text.find('"'), text.rfind('"')
    return text[i:j + 1] if 0 <= i < j else None


def smt_mixed_history(cps, rng):
    """unparse / str and pickle in random order on a formula object and on a second formula sharing the
    literal.  Returns (ops, failures, last unparse literal text)"""
    lit = mk_strval(cps)
    objs = [L.SMTFormula(smt_contexts(lit, rng), XCONST), L.SMTFormula(smt_contexts(lit, rng), XCONST)]
    ref = ref_isla_literal(cps)
    first = rng.choice(["unparse", "pickle"])
    ops = [(first, 0)] + [(rng.choice(["unparse", "str", "pickle"]), rng.randrange(2)) for _ in range(rng.randint(1, 4))]
    if not any(k == "pickle" for k, _ in ops):
        ops.append(("pickle", rng.randrange(2)))
    if not any(k != "pickle" for k, _ in ops):
        ops.append(("unparse", rng.randrange(2)))
    fails, seen, last = [], {}, None
    for n, (kind, w) in enumerate(ops):
        f = objs[w]
        try:
            if kind == "pickle":
                g = pickle.loads(pickle.dumps(f))
                if not g.formula.eq(f.formula):
                    fails.append({"op": n, "what": "loaded formula differs from the original",
                                  "loaded": L.unparse_isla(g)[:120]})
            else:
                text = L.unparse_isla(f) if kind == "unparse" else smt_expr_to_str(f.formula)
                seg = literal_segment(text)
                last = seg
                if seg != ref:
                    fails.append({"op": n, "what": "unparse text of the literal is not the ISLa rendering",
                                  "text": text[:120], "expected_literal": ref})
                if (w, kind) in seen and seen[(w, kind)] != text:
                    fails.append({"op": n, "what": "unparse text of the same formula changed", "before": seen[(w, kind)][:120],
                                  "after": text[:120]})
                seen[(w, kind)] = text
        except Exception as e:
            fails.append({"op": n, "what": f"{kind} raised {type(e).__name__}", "detail": str(e)[:100]})
    return ops, fails, last


def g_nlist(l):
    return "[" + ";".join(map(str, l)) + "]%N" if l else "(@nil N)"


def g_res_nlist(o):
    return f"(Ok {g_nlist(o[1])})" if o[0] == "ok" else f"(Raise {o[1]})"


# --------------------------------------------------------------------------- witnesses of the known findings
W_TOJSON_MUT = {"tree": ["<start>", 2, [["<a>", 1, None]]], "ops": [[[], "to_json", 0], [[], "kp", 2]]}
W_TOJSON_CHILD = {"tree": ["<start>", 2, [["<a>", 1, None]]], "ops": [[[0], "kp", 2], [[], "to_json", 0]]}
W_SMT_QUOTE = {"literal": [97, 34, 98]}
W_SMT_LATIN1 = {"literal": [228]}


def w_struct(j):
    return (j[0], j[1], None if j[2] is None else [w_struct(c) for c in j[2]])


def w_ops(l):
    return [(tuple(p), (kind, k)) for p, kind, k in l]


def replay_tree_witness(graph, w):
    return property_at(graph, w_struct(w["tree"]), w_ops(w["ops"]))


def replay_smt_witness(w):
    r = smt_pickle(z3_eq(XV, mk_strval(w["literal"])))
    return r[0] == "raise" or not r[2]


# --------------------------------------------------------------------------- main
def run(run):
    rng = random.Random(run.seed)
    thorough = run.tier == "thorough"
    graph = gg.GrammarGraph.from_grammar(GRAMMAR)
    run.cov["rule"] = (
        "trees: random derivations of a 5-nonterminal grammar (terminals with quote, backslash, non-ASCII, "
        "astral, newline, epsilon in both shapes; open leaves), 2-14 nodes; explicit ids: distinct small ids, id 0 "
        "present, ids >= 2^63 present, and (30%) two structurally different nodes sharing one id; fixed corpus = witnesses "
        "of the fixed findings, id-0 trees, a node with its replace_path successor in one tree; histories of "
        "1-8 operations {str,len,hash,structural_hash,is_open,k_paths(k,potential),to_json,pickle round trip} at "
        "random nodes; non-trivial = history has a cache computation before a serialisation. SMT: literals of "
        "0-7 characters from a nasty pool (quote, backslash, u, braces, NUL, newline, 0x80-0xFF, >0xFF, astral) in "
        "6 operator contexts through real pickle; non-trivial = literal has a character that is escaped on either "
        "side; plus histories mixing unparse_isla / smt_expr_to_str and pickle in both orders on a formula and on a "
        "second formula sharing the literal. CLI: derivation_tree_to_json (plain/pretty) -> get_input_string.")
    proof_ok = run.proof_stage()
    entries = lib.known_findings("C17")
    if not entries:   # known_findings.json not regenerated yet: same committed data, never written at check time
        import os
        fp = os.path.join(lib.VERIF, "harness", "meta", "C17.findings.json")
        entries = json.load(open(fp)) if os.path.exists(fp) else []
    known = {e["key"]: e for e in entries if e.get("status") == "open"}

    # ---- 0. all four C17 findings are FIXED in /repo (f2241d6, 0897eb7): the repaired model is forced.
    #         The old witnesses are corpus cases that must pass; a regression is a VIOLATION. ----
    fx_tree = fx_smt = True
    regress = {"tojson-mutates": bool(replay_tree_witness(graph, W_TOJSON_MUT)),
               "tojson-child-cache": bool(replay_tree_witness(graph, W_TOJSON_CHILD)),
               "smt-quote": replay_smt_witness(W_SMT_QUOTE), "smt-latin1": replay_smt_witness(W_SMT_LATIN1)}
    run.cov["mode"] = {"model_flag_tree": fx_tree, "model_flag_smt": fx_smt, "fixed_witness_regressed": regress}
    for key, here in regress.items():
        if here and key in known:           # only if a coordinator re-opens an entry
            run.known(known[key]["what"])
    unknown_present = [k for k, here in regress.items() if here and k not in known]

    violations = []      # property failures not covered by an open finding
    disagreements = []   # model != implementation

    import time
    t_start = time.time()
    # ---- 1. operation histories ----
    n_hist = 3000 if thorough else 800
    cases, meta = [], []
    hist = {k: 0 for k in OPS}
    hist.update({"raise": 0, "ok": 0, "property_fail_known": 0})
    corpus = corpus_structs()
    idhist = {"has_id_0": 0, "has_id_ge_2^63": 0, "duplicate_ids_different_structure": 0,
              "id_0_and_serialised": 0, "duplicate_and_serialised": 0}
    for ci in range(n_hist):
        if ci < len(corpus):
            st, ops = corpus[ci]
            profile, dup = "corpus", False
        else:
            st0 = gen_struct(rng, "<start>", rng.randint(2, 5), [rng.randint(2, 9)])
            profile = rng.choice([0, 1, 1, 2, 3])
            st = assign_ids(rng, st0, id_pool(rng, profile))
            if count_nodes(st) > 14:
                continue
            dup = False
            if rng.random() < 0.3:
                st, dup = duplicate_ids(rng, st)
            paths = list(all_paths(st))
            ops = []
            for _ in range(rng.randint(1, 8)):
                p = () if rng.random() < 0.45 else rng.choice(paths)
                kind = rng.choices(OPS, weights=[2, 2, 2, 2, 2, 4, 2, 4, 3])[0]
                ops.append((p, (kind, rng.randint(1, 3) if kind in ("kp", "ckp") else 0)))
        all_ids = [n[1] for n in (st_at(st, p) for p in all_paths(st))]
        idhist["has_id_0"] += 0 in all_ids
        idhist["has_id_ge_2^63"] += any(i >= 2 ** 63 for i in all_ids)
        idhist["duplicate_ids_different_structure"] += bool(dup) or (profile == "corpus" and len(set(all_ids)) < len(all_ids))
        ser_root = any(o[0] in SERIAL for _, o in ops)
        idhist["id_0_and_serialised"] += (0 in all_ids) and ser_root
        idhist["duplicate_and_serialised"] += (len(set(all_ids)) < len(all_ids)) and ser_root
        outs, final, _, timpl = exec_history(graph, st, ops)
        tref = build(st)
        cases.append(f"({g_tree(tref)}, [{'; '.join(g_op(p, o) for p, o in ops)}], "
                     f"[{'; '.join(g_out(o) for o in outs)}], {g_zlist(final)})")
        meta.append((st, ops, outs))
        for _, o in ops:
            hist[o[0]] += 1
        for o in outs:
            hist[o[0]] += 1
        seen_cache = False
        nontrivial = False
        for _, o in ops:
            if o[0] in SERIAL and seen_cache:
                nontrivial = True
            if o[0] not in SERIAL:
                seen_cache = True
        run.count(("hist", repr(st), repr(ops)), nontrivial)
        if ci < 2:
            run.sample({"tree": repr(st)[:300], "ops": [[list(p), o[0], o[1]] for p, o in ops],
                        "outcomes": [o if o[0] == "raise" else "ok" for o in outs]})
        # the property itself, on the implementation
        fails = property_at(graph, st, ops)
        if fails:
            if K_tojson(ops) and not fx_tree and ("tojson-mutates" in known or "tojson-child-cache" in known):
                hist["property_fail_known"] += 1
            else:
                violations.append({"kind": "serialisation damages or changes the tree", "tree": repr(st),
                                   "ops": [[list(p), o[0], o[1]] for p, o in ops], "failures": fails})
    run.cov["history_histogram"] = hist
    run.cov["id_histogram"] = idhist
    run.cov["python_seconds_histories"] = round(time.time() - t_start, 1)
    ok_def = ("fun c : tree * list (path * op) * list (res (list Z)) * list Z => let '(t, ops, outs, fin) := c in "
              f"case_ok (fun _ _ => 1%Z) (fun _ _ _ => 1%N) {g_bool(fx_tree)} t ops outs fin")
    try:
        bad, dt = lib.coq_mismatches("c17a", "Outcome Tree TreeJson", ok_def, cases, shard=64)
        run.cov["coq_seconds_histories"] = round(dt, 1)
        for i in bad:
            st, ops, outs = meta[i]
            disagreements.append({"part": "history", "tree": repr(st), "ops": [[list(p), o[0], o[1]] for p, o in ops],
                                  "impl_outcomes": [o if o[0] == "raise" else ["ok", o[1][:12]] for o in outs]})
    except RuntimeError as e:
        run.violation({"kind": "correspondence-not-evaluable", "obligation": "TreeJson.v histories",
                       "error": str(e)[-2000:]}, found_input=False)

    t_start = time.time()
    # ---- 2. Z3's as_string and literal lexing against the model ----
    cases = []
    cps_list = [[c] for c in list(range(0, 300)) + [0x2FFFF, 0x2FFFE, 0x1F600, 0xFFFF, 0x10000]]
    cps_list += [[92, c] for c in (117, 92, 85, 0, 34, 256)] + [[c, 92, 117] for c in (92, 0, 97)]
    cps_list += [rand_cps(rng) for _ in range(600 if thorough else 200)]
    for cps in cps_list:
        a = mk_strval(cps).as_string()
        cases.append(f"({g_nlist(cps)}, {g_nlist([ord(ch) for ch in a])})")
        run.count(("as_string", tuple(cps)), any(c == 0 or c > 255 or c == 92 for c in cps))
    try:
        bad, _ = lib.coq_mismatches("c17b", "Outcome Str SmtEscape",
                                    "fun c : str * str => str_eqb (z3_as_string (fst c)) (snd c)", cases, shard=100)
        for i in bad:
            disagreements.append({"part": "z3_as_string", "chars": cps_list[i],
                                  "z3": mk_strval(cps_list[i]).as_string()})
    except RuntimeError as e:
        run.violation({"kind": "correspondence-not-evaluable", "obligation": "SmtEscape.v z3_as_string",
                       "error": str(e)[-2000:]}, found_input=False)
    # to_code cross-check of the harness decoder (trusted-base reduction)
    for cps in cps_list[:40] + cps_list[-40:]:
        v = mk_strval(cps)
        via_z3 = [z3.simplify(z3.StrToCode(z3.SubString(v, i, 1))).as_long() for i in range(len(cps))]
        if via_z3 != cps or decode_as_string(v.as_string()) != cps:
            disagreements.append({"part": "harness decoder vs str.to_code", "chars": cps, "to_code": via_z3})

    LEX = ['"', '""', "\\", "u", "{", "}", "0", "4", "1", "a", "F", "g", "\\u{", "\\u", "\\u{41}", "\\u0041",
           "\\u{2ffff}", "\\u{30000}", "\\u{}", "\\u{000041}", "\\\"", "\n", " ", "ä", "\\x41", "\\u{e4}"]
    cases, texts = [], []
    for _ in range(900 if thorough else 300):
        body = "".join(rng.choice(LEX) for _ in range(rng.randint(0, 6)))
        text = '"' + body + '"'
        try:
            r = z3.parse_smt2_string(f"(assert (= x {text}))", decls={"x": XV})[0]
            ch = r.children()
            if len(ch) == 2 and z3.is_string_value(ch[1]) and r.decl().kind() == z3.Z3_OP_EQ:
                o = ("ok", decode_as_string(ch[1].as_string()))
            else:
                o = ("raise", "OtherErr")          # the text was not ONE literal
        except z3.Z3Exception:
            o = ("raise", "OtherErr")
        cases.append(f"({g_nlist([ord(c) for c in text])}, {g_res_nlist(o)})")
        texts.append((text, o))
        run.count(("lex", text), "\\u" in body or '"' in body)
    try:
        bad, _ = lib.coq_mismatches("c17c", "Outcome Str SmtEscape",
                                    "fun c : str * res str => res_eqb str_eqb (load_lit (fst c)) (snd c)",
                                    cases, shard=100)
        for i in bad:
            disagreements.append({"part": "load_lit (Z3 literal lexing)", "text": texts[i][0], "z3": texts[i][1]})
    except RuntimeError as e:
        run.violation({"kind": "correspondence-not-evaluable", "obligation": "SmtEscape.v load_lit",
                       "error": str(e)[-2000:]}, found_input=False)

    # ---- 3. literals through real pickle of SMTFormula ----
    cases, lits = [], []
    shist = {"ok_same": 0, "ok_changed": 0, "raise": 0, "known": 0}
    n_smt = 3000 if thorough else 700
    pool = [[34], [97, 34, 98], [228], [92], [92, 117], [0], [92, 117, 123, 125], [34, 34], [97, 92], [92, 34],
            [0x1F600, 34, 0], [128], [255, 256], []]
    for i in range(n_smt):
        cps = pool[i] if i < len(pool) else rand_cps(rng)
        f = smt_contexts(mk_strval(cps), rng)
        r = smt_pickle(f)
        if r[0] == "raise":
            o = ("raise", r[1]); shist["raise"] += 1
        else:
            o = ("ok", r[1][0] if len(r[1]) == 1 else [-1]); shist["ok_same" if r[2] else "ok_changed"] += 1
        if o[0] == "ok" and o[1] == [-1]:
            disagreements.append({"part": "smt pickle", "chars": cps, "note": "literal count changed", "impl": str(r)})
            continue
        cases.append(f"({g_nlist(cps)}, {g_res_nlist(o)})")
        lits.append((cps, o))
        run.count(("smt", tuple(cps)), any(c in (0, 34, 92) or c > 127 for c in cps))
        if i < 3:
            run.sample({"literal_chars": cps, "pickle_outcome": o[0], "same_formula": r[0] == "ok" and r[2]})
        prop_ok = r[0] == "ok" and r[2]
        if not prop_ok:
            cls = ("smt-quote" if K_smt_quote(cps) else None) or ("smt-latin1" if K_smt_latin1(cps) else None)
            if cls and not fx_smt and cls in known:
                shist["known"] += 1
            else:
                violations.append({"kind": "SMT formula does not survive pickling", "literal_chars": cps,
                                   "formula": str(f), "outcome": r[:2] if r[0] == "raise" else "different formula"})
    run.cov["smt_histogram"] = shist
    try:
        bad, _ = lib.coq_mismatches(
            "c17d", "Outcome Str SmtEscape",
            f"fun c : str * res str => res_eqb str_eqb (smt_pickle_lit {g_bool(fx_smt)} (fst c)) (snd c) && "
            f"str_eqb (isla_lit {g_bool(fx_smt)} (fst c)) ([34%N] ++ codec {g_bool(fx_smt)} (fst c) ++ [34%N])",
            cases, shard=125)
        for i in bad:
            disagreements.append({"part": "smt_pickle_lit", "chars": lits[i][0], "impl": lits[i][1]})
    except RuntimeError as e:
        run.violation({"kind": "correspondence-not-evaluable", "obligation": "SmtEscape.v smt_pickle_lit",
                       "error": str(e)[-2000:]}, found_input=False)
    # unparse / pickle in both orders on the same formula object and on a formula sharing the literal
    t_mixed = time.time()
    cases, mlits = [], []
    mhist = {"unparse_first": 0, "pickle_first": 0, "quote_or_latin1": 0}
    mpool = [[34], [228], [97, 34, 98], [75, 228, 115, 101], [0], [92, 34], [255, 34, 128]]
    for i in range(900 if thorough else 300):
        cps = mpool[i] if i < len(mpool) else rand_cps(rng)
        if i >= len(mpool) and rng.random() < 0.5:
            cps = cps + [rng.choice([34, 228, 128, 255])]
        ops, fails, last = smt_mixed_history(cps, rng)
        special = K_smt_quote(cps) or K_smt_latin1(cps)
        mhist["unparse_first" if ops[0][0] != "pickle" else "pickle_first"] += 1
        mhist["quote_or_latin1"] += special
        run.count(("smt-mixed", tuple(cps), tuple(ops)), special)
        if fails:
            violations.append({"kind": "unparsing and pickling an SMT formula interfere", "literal_chars": cps,
                               "mixed_ops": [list(o) for o in ops], "failures": fails[:3]})
        if last is not None:
            cases.append(f"({g_nlist(cps)}, {g_nlist([ord(c) for c in last])})")
            mlits.append(cps)
    run.cov["smt_mixed_histogram"] = mhist
    run.cov["seconds_smt_mixed_python"] = round(time.time() - t_mixed, 1)
    try:
        bad, _ = lib.coq_mismatches("c17g", "Outcome Str SmtEscape",
                                    "fun c : str * str => str_eqb (isla_lit false (fst c)) (snd c)", cases, shard=150)
        for i in bad:
            disagreements.append({"part": "isla_lit false (ISLa unparser rendering after pickling)", "chars": mlits[i]})
    except RuntimeError as e:
        run.violation({"kind": "correspondence-not-evaluable", "obligation": "SmtEscape.v isla_lit false",
                       "error": str(e)[-2000:]}, found_input=False)
    # formulas with two literals: property only
    for _ in range(100):
        a, b = rand_cps(rng, 4), rand_cps(rng, 4)
        f = z3.And(smt_contexts(mk_strval(a), rng), smt_contexts(mk_strval(b), rng))
        r = smt_pickle(f)
        run.count(("smt2", tuple(a), tuple(b)), True)
        if not (r[0] == "ok" and r[2]):
            both = a + b
            cls = ("smt-quote" if K_smt_quote(both) else None) or ("smt-latin1" if K_smt_latin1(both) else None)
            if not (cls and not fx_smt and cls in known):
                violations.append({"kind": "SMT formula does not survive pickling", "literal_chars": [a, b],
                                   "formula": str(f)})

    run.cov["seconds_smt_part"] = round(time.time() - t_start, 1)
    t_start = time.time()
    # ---- 4. CLI JSON trees ----
    cases, cmeta = [], []
    stderr = io.StringIO()
    n_cli = 300 if thorough else 100
    for i in range(n_cli):
        st0 = gen_struct(rng, "<start>", rng.randint(2, 6), [rng.randint(2, 12)])
        ids = list(range(1, 200)); rng.shuffle(ids)
        st = assign_ids(rng, st0, ids)
        t = build(st)
        js = cli.derivation_tree_to_json(t, pretty_print=bool(i % 2))
        val = json.loads(js)
        try:
            res = cli.get_input_string("check", stderr, Namespace(input_string=js), {}, GRAMMAR, "true")
            back = res.unwrap()
            o = ("ok", back)
        except Exception as e:
            o = ("raise", lib.exn_name(e))
        cases.append(f"({g_tree(t)}, {g_cli_json(val)}, "
                     + (f"(Ok {g_tree(o[1], with_ids=False)})" if o[0] == "ok" else f"(Raise {o[1]})") + ")")
        cmeta.append((st, js))
        run.count(("cli", repr(st0)), count_nodes(st) >= 3)
        same = o[0] == "ok" and o[1].structurally_equal(t) and o[1].has_unique_ids() and str(o[1]) == str(t)
        if not same:
            violations.append({"kind": "CLI JSON tree is not read back as the same tree", "json": js,
                               "cli_tree": repr(st),
                               "outcome": o[1] if o[0] == "raise" else str(o[1])})
    ok_def = ("fun c : tree * json * res tree => let '(t, j, r) := c in "
              "zlist_eqb (f_json (cli_to_json t)) (f_json j) && "
              "match cli_from_json 200 j, r with Some (Ok t1), Ok t2 => zlist_eqb (f_tree t1) (f_tree t2) "
              "| Some (Raise e1), Raise e2 => exn_eqb e1 e2 | _, _ => false end")
    try:
        bad, _ = lib.coq_mismatches("c17f", "Tree Outcome TreeJson", ok_def, cases, shard=60)
        for i in bad:
            disagreements.append({"part": "cli json", "tree": repr(cmeta[i][0]), "json": cmeta[i][1]})
    except RuntimeError as e:
        run.violation({"kind": "correspondence-not-evaluable", "obligation": "TreeJson.v cli_to_json/cli_from_json",
                       "error": str(e)[-2000:]}, found_input=False)

    run.cov["seconds_cli_part"] = round(time.time() - t_start, 1)
    # ---- 5. verdicts ----
    run.cov["disagreements_checked"] = len(disagreements)
    for key in unknown_present:
        violations.append({"kind": f"defect {key} present and not recorded as an open finding",
                           "witness": {"tojson-mutates": W_TOJSON_MUT, "tojson-child-cache": W_TOJSON_CHILD,
                                       "smt-quote": W_SMT_QUOTE, "smt-latin1": W_SMT_LATIN1}[key]})
    if violations:
        violations.sort(key=lambda d: len(json.dumps(d, default=str)))
        run.violation({"kind": violations[0]["kind"], "witness": violations[0], "all_failing": len(violations),
                       "how_to_replay": "./check C17 --replay <this file>",
                       "theorem": "Props/C17.v + property evaluated on the implementation"})
    if disagreements:
        parts = {}
        for d in disagreements:
            parts[d["part"]] = parts.get(d["part"], 0) + 1
        run.cov["disagreement_parts"] = parts
        run.violation({"kind": "model and implementation disagree", "first": disagreements[0],
                       "parts": parts, "examples": [d for d in disagreements if d["part"] != disagreements[0]["part"]][:4],
                       "count": len(disagreements),
                       "obligation": "correspondence TreeJson.v/SmtEscape.v <-> derivation_tree.py, language.py, "
                                     "z3_helpers.smt_expr_to_str, cli.py"}, found_input=bool(violations))
    if not proof_ok:
        run.violation({"kind": "proof obligation failed", "problems": run.proof_problems,
                       "obligation": "Props/C17.v"}, found_input=False)
    run.cov["trusted_base"] = lib.TRUSTED_BASE_COMMON + [
        "json.dumps/json.loads/ijson, zlib, pickle framing, str.encode/decode('utf-8') are inverse pairs (JSON is an "
        "abstract value tree in the model)",
        "Python hash() and grammar_graph.k_paths_in_tree are deterministic functions of the tree within one process "
        "(Section variables H, KP; answers canonicalised against a pristine copy of the tree)",
        "Z3 4.11.2: Z3_get_lstring rendering and smt2 string-literal lexing as modelled in SmtEscape.v (tied by this run "
        "on every code point 0..299, boundary code points and random strings; harness decoder cross-checked with str.to_code)",
        "lru_cache sharing between equal trees and the global DerivationTree.next_id counter are not modelled",
    ]


def g_cli_json(v):
    if v is None:
        return "JNull"
    if isinstance(v, str):
        return f"(JStr {g_str(v)})"
    if isinstance(v, list):
        return "(JArr [" + "; ".join(g_cli_json(x) for x in v) + "])"
    raise ValueError(v)


def replay(path):
    d = json.load(open(path))
    w = d.get("witness")
    if not w:
        print("replay file names an obligation, not an input:", d.get("obligation")); return 1
    graph = gg.GrammarGraph.from_grammar(GRAMMAR)
    if "ops" in w:
        import ast
        st = ast.literal_eval(w["tree"]) if isinstance(w["tree"], str) else w_struct(w["tree"])
        fails = property_at(graph, st, w_ops(w["ops"]))
        print("property failures:", fails)
        return 1 if fails else 0
    if "mixed_ops" in w:
        class _R:                       # replays the recorded op order exactly
            def __init__(self, ops): self.ops = [tuple(o) for o in ops]
        cps = w["literal_chars"]
        lit = mk_strval(cps)
        objs = [L.SMTFormula(z3_eq(XV, lit), XCONST), L.SMTFormula(z3.PrefixOf(lit, XV), XCONST)]
        ref, bad = ref_isla_literal(cps), []
        for kind, k in w["mixed_ops"]:
            f = objs[k]
            try:
                if kind == "pickle":
                    if not pickle.loads(pickle.dumps(f)).formula.eq(f.formula):
                        bad.append((kind, k, "loaded formula differs"))
                elif literal_segment(L.unparse_isla(f) if kind == "unparse" else smt_expr_to_str(f.formula)) != ref:
                    bad.append((kind, k, "unparse text is not the ISLa rendering"))
            except Exception as e:
                bad.append((kind, k, type(e).__name__))
        print("failures:", bad)
        return 1 if bad else 0
    if "literal_chars" in w or "literal" in w:
        cps = w.get("literal_chars", w.get("literal"))
        if cps and isinstance(cps[0], list):
            f = z3.And(z3_eq(XV, mk_strval(cps[0])), z3_eq(XV, mk_strval(cps[1])))
        else:
            f = z3_eq(XV, mk_strval(cps))
        r = smt_pickle(f)
        print("pickle outcome:", r)
        return 0 if (r[0] == "ok" and r[2]) else 1
    if "json" in w:
        import ast
        t = build(ast.literal_eval(w["cli_tree"]))
        js = cli.derivation_tree_to_json(t)
        try:
            back = cli.get_input_string("check", io.StringIO(), Namespace(input_string=js), {}, GRAMMAR,
                                        "true").unwrap()
        except Exception as e:
            print("reading the JSON tree raised", type(e).__name__); return 1
        same = back.structurally_equal(t) and str(back) == str(t) and back.has_unique_ids()
        print("json written:", js, "| read back as the same tree:", same)
        return 0 if same else 1
    return 1
