"""C14, stream `int`: ISLaSolver.extract_model_value_int_var  <->  Grammar/IntValue.v `int_value`.

The method is called on real solvers (grammars with numeric nonterminals: plain, zero padded, fixed width,
signed, mandatory '+', non-regular, non-numeric) with a real Z3 model that binds the int variable to z.
z3.Solver.check / .model are wrapped by a spy, so Z3's answer to the query (not sat | values of __plus and
__padding) is observed and becomes the oracle answer (plus, k) of the model; `solver.parse` is wrapped by a
recorder, so the string handed to the SECOND parse is observed as well.  The model is asked to reproduce the outcome:
  * Z3's values satisfy the two shape constraints ("+"?, "0"*) and Coq checks  cand z plus k = recorded candidate
    (the code builds its candidate from Z3's answer exactly as the model does),
  * functional equality of the outcome (tree up to node ids / exception kind) with `int_value`,
  * independently, acceptance of every returned tree by `meets_int` (wf_treeb, closed, label, integer value = z),
  * the boolean guard `int_guard` of the theorems is evaluated (cases outside are compared but counted apart).
"not sat" of the Z3 query (unsat or unknown after its 300 ms timeout) is the oracle answer None, so a loaded
machine cannot make the comparison flaky."""
import json
import random
import re
import time

import z3

import lib
from lib import g_str, g_Z, g_nat, g_bool

from isla.solver import ISLaSolver
from isla import language
from isla.helpers import canonical
from isla.z3_helpers import z3_eq

IMPORTS = "IntValue IntValueFacts"

DIG = list("0123456789")
BASE = {
    "<digit>": DIG,
    "<lead>": list("123456789"),
    "<num>": ["<digit>", "<digit><num>"],
    "<digits>": ["", "<digit><digits>"],
    "<nat>": ["0", "<lead><digits>"],
    "<zeros>": ["", "0<zeros>"],
    "<osign>": ["", "+"],
    "<sign>": ["-", "+"],
    "<oosign>": ["", "+", "-"],
}
SIGNS = ["", "+", "-", "<osign>", "<sign>", "<oosign>"]
PADS = ["", "0", "00", "<zeros>"]
BODIES = ["<num>", "<nat>", "<digit>", "<digit><digit>", "<digit><digit><digit>", "<lead><digits>"]

# the docstring example of extract_model_value + hand-picked shapes
FIXED = [
    {"<start>": ["<int>"],
     "<int>": ["<sign>00<leaddigit><digits>"],
     "<sign>": ["-", "+"],
     "<digits>": ["", "<digit><digits>"],
     "<digit>": DIG,
     "<leaddigit>": list("123456789")},
    {"<start>": ["<num>", "<pad>", "<sg>", "<par>", "<two>", "<word>", "<plus>"],
     "<num>": ["<digit>", "<digit><num>"],
     "<digit>": DIG,
     "<pad>": ["<digit><digit><digit>"],
     "<sign>": ["-", "+"],
     "<sg>": ["<sign><num>", "<num>"],
     "<par>": ["(<par>)", "<num>x"],          # non-regular, no supported numeral in the language
     "<two>": ["<num><num>"],                 # ambiguous: first tree of the parser
     "<word>": ["a", "<word>b"],              # not numeric at all
     "<plus>": ["+<num>"]},                   # '+' mandatory
    # non-regular language WITH supported numerals (0^k 1 0^k): the regular expression of the Z3 query is an
    # under-approximation (bounded unwinding), so RuntimeError is raised although "00100" denotes 100
    {"<start>": ["<z>"], "<z>": ["0<z>0", "1"]},
]
FIXED_NTS = [["<int>", "<sign>", "<digits>"], None, ["<z>"]]
FIXED_INTS = [None, None, [1, 10, 100, 1000, -10]]


def rand_numeric_grammar(rng, n_vars):
    g = {"<start>": []}
    for i in range(n_vars):
        nt = f"<v{i}>"
        exp = rng.choice(SIGNS) + rng.choice(PADS) + rng.choice(BODIES)
        alts = [exp]
        if rng.random() < 0.25:      # a second alternative
            alts.append(rng.choice(SIGNS) + rng.choice(PADS) + rng.choice(BODIES))
        g[nt] = alts
        g["<start>"].append(nt)
    used = True
    while used:                       # add the base nonterminals that are referenced
        used = False
        for alts in list(g.values()):
            for a in alts:
                for m in re.findall(r"<[a-z0-9]+>", a):
                    if m not in g:
                        g[m] = BASE[m]; used = True
    return g


INTS = [0, 1, 5, 9, 10, 12, 99, 100, 123, 1234, 10 ** 20 + 7, -1, -5, -12, -100, -(10 ** 19)]
# quick tier: shorter big values (the Earley model's cost grows with the square of the length)
INTS_QUICK = [0, 1, 5, 9, 10, 12, 99, 100, 123, 1234, 10 ** 9 + 7, -1, -5, -12, -100, -(10 ** 8)]


class Recorder:
    """wraps solver.parse: logs (input, nonterminal, outcome kind)"""

    def __init__(self, solver):
        self.calls = []
        self.orig = solver.parse
        solver.parse = self

    def __call__(self, inp, nonterminal="<start>", *a, **kw):
        try:
            r = self.orig(inp, nonterminal, *a, **kw)
            self.calls.append((inp, nonterminal, "ok"))
            return r
        except BaseException as e:
            self.calls.append((inp, nonterminal, type(e).__name__))
            raise


def z3_model_for(name, n):
    s = z3.Solver()
    v = z3.Int(name)
    s.add(z3_eq(v, z3.IntVal(n)))
    assert s.check() == z3.sat
    return v, s.model()


class Z3Spy:
    """records the result of the last z3.Solver.check() and the last model handed out while active
    (the query of extract_model_value_int_var is the LAST check of the call; the checks made inside
    extract_regular_expression happen while the query is still being built)"""

    def __enter__(self):
        self.last_check, self.last_model = None, None
        self._check, self._model = z3.Solver.check, z3.Solver.model
        spy = self

        def check(slf, *a):
            spy.last_check = spy._check(slf, *a)
            return spy.last_check

        def model(slf):
            spy.last_model = spy._model(slf)
            return spy.last_model
        z3.Solver.check, z3.Solver.model = check, model
        return self

    def __exit__(self, *exc):
        z3.Solver.check, z3.Solver.model = self._check, self._model
        return False

    def answer(self):
        """('sat', plus_string, padding_string) | ('notsat',) | ('noquery',)"""
        if self.last_check is None:
            return ("noquery",)
        if self.last_check != z3.sat:
            return ("notsat", "unknown" if self.last_check == z3.unknown else "unsat")
        if self.last_model is None:
            return ("unreadable", "sat, but the model was never read")
        m = self.last_model
        try:
            return ("sat", m[z3.String("__plus")].as_string(), m[z3.String("__padding")].as_string())
        except Exception as e:
            return ("unreadable", repr(e)[:80])


def impl_int_value(solver, rec, nt, n):
    """-> (outcome, recorded parse calls, Z3 answer of the query)"""
    var = language.Variable("i", nt)
    v, model = z3_model_for("i_0", n)
    del rec.calls[:]
    with Z3Spy() as spy:
        try:
            t = solver.extract_model_value_int_var(None, var, model, {var: v}, set(), {var})
            out = ("ok", t)
        except Exception as e:           # the outcome is the observable
            out = ("raise", lib.exn_name(e), str(e)[:80])
    return out, list(rec.calls), spy.answer()


NUM_RE = re.compile(r"^[+-]?[0-9]+$")


def ref_intval(s):
    return int(s) if NUM_RE.match(s) else None


def derive_oracle(n, calls, ans):
    """oracle answer of the model = what Z3 really answered (observed by Z3Spy), cross-checked against the recorded
    parse calls: ('none'|'unused'|'some', plus, k, candidate handed to the second parse or None) or ('bad', why)"""
    if not calls:
        return ("bad", "no parse call")
    if calls[0][2] != "SyntaxError":                 # first parse returned (or raised something else): no query
        if len(calls) != 1 or ans[0] != "noquery":
            return ("bad", f"query/second parse after a first parse that did not raise SyntaxError: {calls} {ans}")
        return ("unused", False, 0, None)
    if ans[0] == "notsat":
        return ("none", False, 0, None) if len(calls) == 1 else ("bad", f"parse after a not-sat query: {calls}")
    if ans[0] != "sat":
        return ("bad", f"Z3 answer {ans}")
    plus, pad = ans[1], ans[2]
    if plus not in ("", "+") or set(pad) - {"0"}:
        return ("bad", f"Z3 model values outside the two shape constraints: {ans}")
    if len(calls) != 2:
        return ("bad", f"{len(calls)} parse calls after a sat query")
    return ("some", plus == "+", len(pad), calls[1][0])


class IntPacker:
    def __init__(self, size):
        self.size, self.shards, self.meta = size, [], []
        self._defs, self._seen, self._cases, self._meta = [], set(), [], []

    def add(self, defs, case, meta):
        for d in defs:
            if d not in self._seen:
                self._seen.add(d); self._defs.append(d)
        self._cases.append(case); self._meta.append(meta)
        if len(self._cases) >= self.size:
            self.flush()

    def flush(self):
        if self._cases:
            self.shards.append(("\n".join(self._defs), self._cases)); self.meta.append(self._meta)
        self._defs, self._seen, self._cases, self._meta = [], set(), [], []

    def run(self, tag, ok_def):
        self.flush()
        if not self.shards:
            return [], 0.0
        bad, dt = lib.coq_run_shards(tag, IMPORTS, ok_def, self.shards)
        return [self.meta[k][i] for k, i in bad], dt

    def __len__(self):
        return sum(len(c) for _, c in self.shards) + len(self._cases)


# mode 0: functional equality + candidate shape;  mode 1: acceptance of the returned tree (independent of the
# model);  mode 2: the theorem guard holds (counted, a False is not a disagreement: see handler)
OK_DEF = (
    "fun c : nat * grammar * str * Z * option (bool * nat) * option str * res tree => "
    "let '(mode, g, nt, z, o, cnd, r) := c in "
    "match mode with "
    "| 0 => (match o, cnd with Some (p, k), Some s => str_eqb (cand z p k) s | _, _ => true end) && "
    "       (match int_value true true (hfuel g) g (fun _ _ => o) nt z, r with "
    "        | Ok t, Ok t' => tree_eqb t t' | Raise e, Raise e' => exn_eqb e e' | _, _ => false end) "
    "| 1 => match r with Ok t => meets_int g nt z t | _ => true end "
    "| _ => int_guard g nt end")


def build(run, thorough, disagreements, c14):
    """runs the implementation, returns the Coq job (tag, obligation, packer, ok_def, handler)"""
    rng = random.Random(run.seed * 7919 + 14)
    t0 = time.time()
    grammars = list(FIXED)
    for _ in range(8 if thorough else 2):
        grammars.append(rand_numeric_grammar(rng, 8 if thorough else 6))
    pk = IntPacker(100)
    hist = {"ok_first_parse": 0, "ok_after_query": 0, "RuntimeErr": 0, "SyntaxErr": 0, "other_raise": 0,
            "query_unsat": 0, "query_unknown_timeout": 0}
    n_tree = 0
    repres = 0
    per_nt = len(INTS) if thorough else 9
    for gi, g in enumerate(grammars):
        try:
            solver = ISLaSolver(g)
        except Exception as e:       # not a numeric-value question
            run.cov.setdefault("int_grammars_rejected", []).append(str(e)[:80])
            continue
        rec = Recorder(solver)
        cg = canonical(g)
        gdef = f"Definition GI{gi} : grammar := {c14.g_grammar(cg)}."
        nts = [nt for nt in g if nt != "<start>" and nt not in BASE]
        if gi < len(FIXED):
            nts = FIXED_NTS[gi] or [nt for nt in g if nt != "<start>"]
        guard_done = set()
        for nt in nts:
            ints = INTS if thorough else (INTS_QUICK[:3] + rng.sample(INTS_QUICK[3:], per_nt - 3))
            if gi < len(FIXED) and FIXED_INTS[gi]:
                ints = FIXED_INTS[gi]
            for n in ints:
                out, calls, ans = impl_int_value(solver, rec, nt, n)
                orc = derive_oracle(n, calls, ans)
                if out[0] == "ok":
                    hist["ok_first_parse" if len(calls) == 1 else "ok_after_query"] += 1
                elif out[1] in ("RuntimeErr", "SyntaxErr"):
                    hist[out[1]] += 1
                else:
                    hist["other_raise"] += 1
                if ans[0] == "notsat":
                    hist["query_unknown_timeout" if ans[1] == "unknown" else "query_unsat"] += 1
                nontrivial = len(calls) == 2 or (out[0] == "raise")
                run.count(("int", gi, nt, n), nontrivial)
                meta = {"grammar": g, "nonterminal": nt, "z": n, "calls": calls,
                        "impl": [out[0], str(out[1]) if out[0] == "ok" else out[1]]}
                if orc[0] == "bad":
                    t = out[1] if out[0] == "ok" else None
                    disagreements.append(dict(meta, what="extract_model_value_int_var (candidate shape)", why=orc[1],
                                              spec_fail=t is not None and not ref_meets_int(c14, cg, nt, n, t)))
                    if t is not None:     # the verified acceptance test still sees the tree
                        n_tree += 1
                        wdef = f"Definition WI{n_tree} : tree := {c14.g_tree(t)}."
                        pk.add([gdef, wdef], f"(1, GI{gi}, {g_str(nt)}, {g_Z(n)}, (@None (bool * nat)), (@None str), "
                                             f"(Ok WI{n_tree}))", dict(meta, mode="acc", tree=t))
                    continue
                olit = f"(Some ({g_bool(orc[1])}, {g_nat(orc[2])}))" if orc[0] == "some" else "(@None (bool * nat))"
                clit = f"(Some {g_str(orc[3])})" if orc[0] == "some" else "(@None str)"
                if out[0] == "ok":
                    n_tree += 1
                    wdef = f"Definition WI{n_tree} : tree := {c14.g_tree(out[1])}."
                    rlit, defs = f"(Ok WI{n_tree})", [gdef, wdef]
                else:
                    rlit, defs = f"(Raise {out[1]})", [gdef]
                head = f"GI{gi}, {g_str(nt)}, {g_Z(n)}, {olit}, {clit}, {rlit}"
                pk.add(defs, f"(0, {head})", dict(meta, mode="eq", tree=out[1] if out[0] == "ok" else None))
                if out[0] == "ok":
                    pk.add(defs, f"(1, {head})", dict(meta, mode="acc", tree=out[1]))
                    if len(calls) == 2 and len(run.cov["samples"]) < 6:
                        run.sample({"grammar": g, "nonterminal": nt, "z": n, "candidate": calls[1][0],
                                    "result": str(out[1])})
                if nt not in guard_done:
                    guard_done.add(nt)
                    pk.add(defs, f"(2, {head})", dict(meta, mode="guard", tree=None))
                # premise `oracle_complete` of the completeness theorems, bounded (observation, never an alarm):
                # after a RuntimeError no candidate with padding <= 3 is accepted by the parser
                if out[0] == "raise" and out[1] == "RuntimeErr" and orc[0] == "none":
                    body = str(abs(n))
                    for sign in (["-"] if n < 0 else ["", "+"]):
                        for k in range(4):
                            try:
                                rec.orig(sign + "0" * k + body, nt, silent=True)
                                repres += 1
                                run.cov.setdefault("int_runtime_but_representable", []).append(
                                    {"nonterminal": nt, "expansion": g[nt], "z": n, "accepted": sign + "0" * k + body,
                                     "z3_query": ans[1] if len(ans) > 1 else ans[0]})
                                break
                            except SyntaxError:
                                pass
    run.cov["int_outcomes"] = hist
    run.cov["int_runtime_but_representable_count"] = repres
    if "int_runtime_but_representable" in run.cov:
        run.cov["int_runtime_but_representable"] = run.cov["int_runtime_but_representable"][:4]
    run.cov["python_seconds_int"] = round(time.time() - t0, 1)
    guard = {"inside": 0, "outside": 0}
    run.cov["int_theorem_guard"] = guard

    def handler(bad):
        n_guard = sum(1 for ms in pk.meta for m in ms if m["mode"] == "guard")
        out_guard = [m for m in bad if m["mode"] == "guard"]
        guard["inside"], guard["outside"] = n_guard - len(out_guard), len(out_guard)
        if out_guard:
            run.cov["int_guard_outside_examples"] = [(m["nonterminal"], m["grammar"][m["nonterminal"]])
                                                     for m in out_guard[:3]]
        for m in bad:
            if m["mode"] == "guard":
                continue
            t = m.pop("tree")
            fail = t is not None and not ref_meets_int(c14, canonical(m["grammar"]), m["nonterminal"], m["z"], t)
            what = ("extract_model_value_int_var (outcome)" if m["mode"] == "eq"
                    else "extract_model_value_int_var (returned tree rejected by meets_int)")
            d = dict(m, what=what, spec_fail=bool(fail))
            if t is not None:
                d["impl_tree"] = c14.tree_json(t)
            disagreements.append(d)
    return ("c14i", "IntValue.v int_value", pk, OK_DEF, handler)


def ref_meets_int(c14, cg, nt, n, t):
    """Python reference of the spec: valid closed derivation tree of nt whose string denotes n"""
    return bool(c14.ref_valid(cg, t) and c14.ref_closed(t) and t.value == nt and ref_intval(str(t)) == n)


def replay_int(c14, w):
    """re-run one recorded case on the implementation and evaluate the property"""
    g = w["grammar"]
    solver = ISLaSolver(g)
    rec = Recorder(solver)
    out, calls, _ = impl_int_value(solver, rec, w["nonterminal"], w["z"])
    if out[0] != "ok":
        print("impl: raised", out[1], "parse calls:", calls)
        return 0
    ok = ref_meets_int(c14, canonical(g), w["nonterminal"], w["z"], out[1])
    print("impl:", repr(str(out[1])), "parse calls:", calls, "meets target:", ok)
    return 0 if ok else 1
