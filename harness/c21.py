"""C21 — inputs generated for the bundled formalizations pass independent validity checks.

PROOF part 1 (CSV, coq/Formal/Csv.v, CsvFacts.v, Props/C21.v): the shipped CSV grammar and
column-count constraint imply that an independent CSV reader finds the same number of columns in
every record.
PROOF part 2 (XML tag balance, coq/Formal/Xml.v, XmlFacts.v, XmlValid.v): both shipped XML grammars +
xml_wellformedness_constraint imply (and are implied by) acceptance by an independent tag-stack
reader; its tie to /repo (transcription diff, evaluate verdicts, reference reader, xml.etree) is in
harness/c21_xml.py and runs after the XML search so that the solver outputs are fed through it too.
The CSV tie to /repo, evaluated on every run:
  T1  transcription diff: Csv.CSV = canonical(CSV_GRAMMAR), Csv.colno_src = csv_colno_property,
      and the parameters of the parsed CSV_COLNO_PROPERTY (element type, needle, lower bound);
  T2  on fuzzed / parsed / solver-produced trees t:  wf_treeb CSV t, closedb t, yield t = str(t),
      colno_satb t = evaluator.evaluate(CSV_COLNO_PROPERTY, t, CSV_GRAMMAR),
      csv_rows (str t) = Python csv.reader(delimiter=';') rows, and verdict true => csv_validb;
  T3  every ISLaSolver.solve() output for the shipped CSV formalization satisfies the premises of
      the theorem (wf, closed, colno_satb) and the conclusion (equal column counts by both readers).
SEARCH part (not proof): ISLaSolver outputs for the shipped XML, reST and simple-TAR
formalizations (for XML: namespace binding and attribute uniqueness are search only; tag balance is
proved) validated by independent checkers (xml.etree + own tag/namespace stack; docutils; a
byte-level TAR header reader).  Outputs are generated from scratch and from scaffolds (initial_tree):
XML trees with prefixed elements and open attribute slots at several depths, TAR archives with >= 2
entries (two of them textually identical with a stale checksum), each TAR scaffold solved twice in one
process; reST also with activate_unsat_support=True and 2/2 free/SMT instantiations."""
import csv as pycsv
import io
import json
import random
import time

import lib
from lib import g_str, g_tree, g_bool, g_grammar, g_list

from isla import language
from isla.derivation_tree import DerivationTree
from isla.evaluator import evaluate
from isla.fuzzer import GrammarFuzzer
from isla.helpers import canonical
from isla.parser import EarleyParser
from isla.solver import (ISLaSolver, CostSettings, CostWeightVector,
                         GrammarBasedBlackboxCostComputer)
from grammar_graph import gg
import z3
from returns.maybe import Some

import isla_formalizations.csv as csvf
import c21_xml
import c21_xmlns

OBL_TRANS = "transcription Formal/Csv.v (CSV, colno_src, colno_*) <-> isla_formalizations/csv.py"
OBL_EVAL = "correspondence Csv.colno_satb <-> evaluator.evaluate(CSV_COLNO_PROPERTY, tree, CSV_GRAMMAR)"
OBL_READER = "correspondence Csv.csv_rows <-> Python csv.reader(delimiter=';')"
OBL_TREE = "correspondence wf_treeb CSV / closedb / yield <-> trees produced by fuzzer, parser, solver"
OBL_THM = "Props/C21.v csv_valid instance (colno_satb t = true -> csv_validb (yield t) = true)"
DIAG_NAMES = ["wf_treeb CSV t, root <start>", "closedb t", "yield t = str(t)", "colno_satb t = evaluate verdict",
              "csv_rows = csv.reader rows", "verdict true -> csv_validb", "solver output -> colno_satb"]
DIAG_OBL = [OBL_TREE, OBL_TREE, OBL_TREE, OBL_EVAL, OBL_READER, OBL_THM, "ISLaSolver.solve() output "
            "does not satisfy the shipped constraint (premise of csv_valid)"]


# --------------------------------------------------------------------------
# independent checkers (Python side; the spec-side oracles of the search)
# --------------------------------------------------------------------------
def py_csv_rows(s):
    return [list(r) for r in pycsv.reader(io.StringIO(s, newline=""), delimiter=";")]


def csv_equal_columns(s):
    rows = py_csv_rows(s)
    return len({len(r) for r in rows}) <= 1, [len(r) for r in rows]


def check_xml(s):
    import re
    import xml.etree.ElementTree as ET
    try:
        ET.fromstring(s)   # expat: mismatched tag, unbound prefix, duplicate attribute, ...
    except Exception as e:
        return f"xml.etree: {e}"
    # independent of expat: tag balance, attribute uniqueness and namespace binding by a stack over
    # the raw text (attribute values of the shipped grammar contain neither '<', '>' nor a raw '"')
    stack, i = [], 0   # entries: (tag name, set of prefixes declared on that element)
    while i < len(s):
        if s[i] != "<":
            i += 1
            continue
        j = s.index(">", i)
        body = s[i + 1:j]
        i = j + 1
        if body.startswith("/"):
            if not stack or stack.pop()[0] != body[1:]:
                return f"close tag {body!r} does not match"
            continue
        selfclosing = body.endswith("/")
        if selfclosing:
            body = body[:-1]
        name, _, rest_ = body.partition(" ")
        attrs = re.findall(r'([^\s="]+)="([^"]*)"', rest_)
        names = [a for a, _ in attrs]
        if len(set(names)) != len(names):
            return f"attribute defined twice in <{name}>"
        declared = {a.split(":", 1)[1] for a in names if a.startswith("xmlns:")}
        scope = set(declared).union(*[d for _, d in stack]) if stack else set(declared)
        used = [name] + [a for a in names if not a.startswith("xmlns:")]
        for u in used:
            if ":" in u and u.split(":", 1)[0] not in scope | {"xml"}:
                return (f"prefix {u.split(':', 1)[0]!r} of {u!r} is not bound by an xmlns declaration on "
                        f"the element or an ancestor")
        if not selfclosing:
            stack.append((name, declared))
    return None if not stack else f"unclosed {[n for n, _ in stack]}"


def check_rest(s, tree):
    from docutils.core import publish_doctree
    from docutils import nodes
    try:
        doc = publish_doctree(s, settings_overrides={
            "input_encoding": "unicode", "report_level": 5, "halt_level": 5,
            "warning_stream": io.StringIO()})
    except Exception as e:
        return f"docutils raised {type(e).__name__}: {e}"
    msgs = [m for m in doc.findall(nodes.system_message) if m["level"] >= 2]
    if msgs:
        return "docutils: " + " | ".join(m.astext().replace("\n", " ")[:120] for m in msgs[:3])
    titles = len(tree.filter(lambda n: n.value == "<section-title>"))
    rendered = len(list(doc.findall(nodes.title))) + len(list(doc.findall(nodes.subtitle)))
    if titles != rendered:
        return f"{titles} section titles rendered to {rendered} headings"
    return None


def check_tar(s, min_entries=1):
    """simple_tar layout: name(100) checksum(8) typeflag(1) linkname(100) 'CONTENT', repeated"""
    b = s.encode("latin-1")
    entries, i = [], 0
    while i < len(b):
        e = b[i:i + 216]
        if len(e) != 216 or e[209:] != b"CONTENT":
            return f"entry at byte {i}: not 209 header bytes + CONTENT (fields not padded to width)"
        name, chk, flag, link = e[:100], e[100:108], e[108:109], e[109:209]
        for what, fld in (("file name", name), ("linked file name", link)):
            core = fld.rstrip(b"\x00")
            if b"\x00" in core:
                return f"{what} has NUL before its end"
        if not name.rstrip(b"\x00"):
            return "empty file name"
        if not (chk[6:] == b"\x00 " and all(48 <= c <= 55 for c in chk[:6])):
            return f"checksum field {chk!r} is not 6 octal digits NUL SPACE"
        want = sum(e[:100] + b" " * 8 + e[108:209])
        if int(chk[:6], 8) != want:
            return f"checksum {chk[:6]!r} != {oct(want)}"
        if flag not in (b"0", b"2"):
            return f"typeflag {flag!r}"
        entries.append((name.rstrip(b"\x00"), flag, link.rstrip(b"\x00")))
        i += 216
    if len(entries) < min_entries:
        return f"{len(entries)} entries, scaffold has {min_entries}"
    # The property names checksums and field encodings only.  A symbolic link whose target field is
    # all NUL satisfies the shipped link_constraint vacuously (the <nuls> alternative has no
    # <file_name_str> to quantify over); that is noted in design_notes/C21.md, not reported.
    for k, (name, flag, link) in enumerate(entries):
        if flag == b"2" and link and not any(j != k and n == link for j, (n, _, _) in enumerate(entries)):
            return f"symbolic link {name!r} -> {link!r}: no such entry"
    return None


# --------------------------------------------------------------------------
# CSV: transcription diff
# --------------------------------------------------------------------------
def colno_parameters():
    """(elem_type, needle, min) of the parsed CSV_COLNO_PROPERTY, or a text describing why the
    formula no longer has the transcribed shape"""
    f = csvf.CSV_COLNO_PROPERTY
    if not isinstance(f, language.ExistsIntFormula):
        return f"top-level is {type(f).__name__}, not ExistsIntFormula"
    num = f.bound_variable
    g = f.inner_formula
    if not isinstance(g, language.ForallFormula) or g.bind_expression is not None:
        return "inner formula is not a plain forall"
    if not (isinstance(g.in_variable, language.Constant) and g.in_variable.n_type == "<start>"):
        return "forall does not range over the start constant"
    elem = g.bound_variable
    h = g.inner_formula
    if not isinstance(h, language.ConjunctiveFormula) or len(h.args) != 2:
        return "body is not a binary conjunction"
    smt = [a for a in h.args if isinstance(a, language.SMTFormula)]
    sem = [a for a in h.args if isinstance(a, language.SemanticPredicateFormula)]
    if len(smt) != 1 or len(sem) != 1:
        return "body is not (SMT atom and semantic predicate)"
    e = smt[0].formula
    if not (z3.is_ge(e) and e.arg(0).decl().kind() == z3.Z3_OP_STR_TO_INT
            and str(e.arg(0).arg(0)) == num.name and z3.is_int_value(e.arg(1))):
        return f"SMT atom {e} is not str.to.int(num) >= k"
    p = sem[0]
    if p.predicate.name != "count" or len(p.args) != 3 or p.args[0] != elem or p.args[2] != num \
            or not isinstance(p.args[1], str):
        return f"semantic predicate {p} is not count(elem, needle, num)"
    return elem.n_type, p.args[1], e.arg(1).as_long()


def transcription_diff(run):
    params = colno_parameters()
    diffs = []
    if isinstance(params, str):
        diffs.append({"object": "CSV_COLNO_PROPERTY", "why": params})
        params = ("", "", 0)
    expr = ("(grammar_eqb CSV G, str_eqb colno_src SRC, str_eqb colno_elem_type ET, "
            "str_eqb colno_needle ND, Nat.eqb colno_min MN)")
    defs = (f"Definition G : grammar := {g_grammar(canonical(csvf.CSV_GRAMMAR))}.\n"
            f"Definition SRC : str := {g_str(csvf.csv_colno_property)}.\n"
            f"Definition ET : str := {g_str(params[0])}.\nDefinition ND : str := {g_str(params[1])}.\n"
            f"Definition MN : nat := {int(params[2])}%nat.\n")
    out = lib.coq_eval("c21t", "Csv", expr, extra_defs=defs)
    import re
    m = re.search(r"=\s*\(\s*(true|false)\s*,\s*(true|false)\s*,\s*(true|false)\s*,\s*(true|false)\s*,\s*(true|false)\s*\)", out)
    names = ["CSV_GRAMMAR", "csv_colno_property (source text)", "CSV_COLNO_PROPERTY element type",
             "CSV_COLNO_PROPERTY needle", "CSV_COLNO_PROPERTY lower bound"]
    if not m:
        diffs.append({"object": "transcription diff not evaluable", "why": out[-1500:]})
    else:
        for nm, v in zip(names, m.groups()):
            if v != "true":
                diffs.append({"object": nm, "why": "differs from the transcription in Formal/Csv.v"})
    run.cov["transcription"] = {"grammar_rules": len(csvf.CSV_GRAMMAR),
                                "alternatives": sum(len(v) for v in canonical(csvf.CSV_GRAMMAR).values()),
                                "parameters": list(params), "diffs": len(diffs)}
    return diffs


# --------------------------------------------------------------------------
# CSV: trees
# --------------------------------------------------------------------------
FIELD_POOL = ["a", "x1", " b ", "  c", '""', '";"', '"a;b"', '"\n"', '"x\ny;z"', '" "', '"\r\n"',
              "'", "1,5", '"\t;"', "-", '";;;"', '"\n\n"', "q"]


def gen_csv_string(rng):
    nrec = rng.randint(1, 5)
    equal = rng.random() < 0.6
    ncol = rng.randint(1, 4)
    lines = []
    for _ in range(nrec):
        n = ncol if equal else rng.randint(1, 4)
        lines.append(";".join(rng.choice(FIELD_POOL) for _ in range(n)) + "\n")
    return "".join(lines)


def clone_tree(n):
    """same structure, fresh node ids"""
    return DerivationTree(n.value, None if n.children is None else [clone_tree(c) for c in n.children])


def xml_scaffold(grammar, text):
    t = DerivationTree.from_parse_tree(next(EarleyParser(grammar).parse(text)))

    def go(n):
        if n.value == "<xml-attribute>" or n.children is None:
            return DerivationTree(n.value, None)
        return DerivationTree(n.value, [go(c) for c in n.children])
    return go(t)


def tar_archive(entries):
    def go(es):
        return DerivationTree("<entries>", [es[0]] if len(es) == 1 else [es[0], go(es[1:])])
    return DerivationTree("<start>", [go(entries)])


def tar_scaffold_trees(rng, grammar, formula, broken):
    """[two open entries; two closed entries with identical text whose checksum is stale; three entries:
    the identical pair + one open]"""
    out = [tar_archive([DerivationTree("<entry>", None), DerivationTree("<entry>", None)])]
    try:
        seed_global(rng)
        solver = ISLaSolver(grammar, formula, max_number_free_instantiations=1,
                            max_number_smt_instantiations=1, timeout_seconds=10)
        base = solutions(solver, 3, 10)
        entries = [o.filter(lambda n: n.value == "<entry>")[0][1] for o in base]
        for donor in entries[1:]:
            e = entries[0]
            p = e.filter(lambda n: n.value == "<checksum>")[0][0]
            d = donor.filter(lambda n: n.value == "<checksum>")[0][1]
            if str(d) != str(e.get_subtree(p)):
                stale = e.replace_path(p, clone_tree(d))
                out.append(tar_archive([clone_tree(stale), clone_tree(stale)]))
                out.append(tar_archive([clone_tree(stale), DerivationTree("<entry>", None), clone_tree(stale)]))
                break
    except Exception as e:  # noqa
        broken.append({"obligation": "building TAR scaffolds (ISLaSolver on simple_tar raised)",
                       "detail": repr(e)})
    return out


def seed_global(rng):
    s = rng.randrange(2 ** 31)
    random.seed(s)
    return s


def weight_vectors():
    return [
        None,  # solver defaults
        CostWeightVector(tree_closing_cost=9.5, constraint_cost=0, derivation_depth_penalty=6,
                         low_k_coverage_penalty=0, low_global_k_path_coverage_penalty=13),
        CostWeightVector(tree_closing_cost=7, constraint_cost=1.5, derivation_depth_penalty=2.5,
                         low_k_coverage_penalty=2, low_global_k_path_coverage_penalty=18),
        CostWeightVector(tree_closing_cost=1, constraint_cost=5, derivation_depth_penalty=1,
                         low_k_coverage_penalty=10, low_global_k_path_coverage_penalty=0),
    ]


def make_solver(grammar, formula, wv, k=3, **kw):
    if wv is not None:
        kw["cost_computer"] = GrammarBasedBlackboxCostComputer(
            CostSettings(wv, k=k), gg.GrammarGraph.from_grammar(grammar))
    return ISLaSolver(grammar, formula, **kw)


def solutions(solver, n, budget_s):
    out, t0 = [], time.time()
    for _ in range(n):
        if time.time() - t0 > budget_s:
            break
        try:
            out.append(solver.solve())
        except (StopIteration, TimeoutError):
            break
    return out


def tree_case(t, verdict, rows, from_solver):
    s = str(t)
    rows_l = g_list(rows, lambda r: g_list(r, g_str) if r else "(@nil str)") if rows else "(@nil (list str))"
    return f"({g_tree(t, with_ids=False)}, {g_str(s)}, {g_bool(verdict)}, {rows_l}, {g_bool(from_solver)})"


DIAG_DEF = """
Definition diag (c : tree * str * bool * list (list str) * bool) : list bool :=
  let '(t, s, ev, rows, sol) := c in
  [wf_treeb CSV t && str_eqb (lbl t) L_start; closedb t; str_eqb (yield t) s; Bool.eqb (colno_satb t) ev;
   rows_eqb (csv_rows s) rows; implb ev (csv_validb s); implb sol (colno_satb t)].
"""
OK_DEF = "fun c => forallb (fun b : bool => b) (diag c)"


def run(run):
    rng = random.Random(run.seed)
    thorough = run.tier == "thorough"
    run.cov["rule"] = (
        "CSV (proof + tie): trees from GrammarFuzzer(CSV_GRAMMAR), from EarleyParser on generated CSV "
        "texts (quoted fields containing ';' and line breaks, equal and unequal column counts) and from "
        "ISLaSolver(CSV_GRAMMAR, CSV_COLNO_PROPERTY).solve() under several seeds / cost vectors / "
        "instantiation bounds; each case = (tree, str(tree), evaluate verdict, csv.reader rows) compared "
        "inside Coq with wf_treeb/closedb/yield/colno_satb/csv_rows.  non-trivial = tree has >= 2 "
        "<csv-record> nodes (distinct by text).  XML tag balance (proof + tie): GrammarFuzzer trees of "
        "XML_GRAMMAR and XML_GRAMMAR_WITH_NAMESPACE_PREFIXES, EarleyParser trees of generated nested texts "
        "with attributes (values containing / = escaped quotes), one third with renamed close tags, and the "
        "ISLaSolver outputs of the XML search; each case = (tree, str(tree), evaluate verdict of "
        "XML_WELLFORMEDNESS_CONSTRAINT, verdict of a Python reference tag-stack reader cross-checked with "
        "xml.etree) compared inside Coq with wf_treeb/closedb/yield/xml_wf_satb/xml_balanced; plus random "
        "malformed strings (reader only).  non-trivial = text has an open/close element.  "
        "XML namespaces+attributes / reST / simple TAR (search only): solver outputs, from "
        "scratch and from scaffolds passed as initial_tree (XML: nested prefixed elements with open attribute "
        "slots at several depths; TAR: archives with >= 2 entries incl. two textually identical entries with a "
        "stale checksum, every scaffold solved twice in one process; reST additionally with "
        "activate_unsat_support and 2/2 instantiations), checked by xml.etree + an independent tag / "
        "attribute / namespace-binding stack, docutils system messages + heading count, byte-level TAR reader "
        "(every header's checksum).")
    proof_ok = run.proof_stage()
    t_start = time.time()
    hist = {"fuzzer": 0, "parser": 0, "solver": 0, "verdict_true": 0, "verdict_false": 0,
            "with_quoted_separator": 0, "records>=2": 0}
    failing, broken = [], []   # failing: property fails at a witness; broken: correspondence only

    # ---- T1 transcription ----
    try:
        tdiffs = transcription_diff(run)
    except Exception as e:  # noqa
        tdiffs = [{"object": "transcription diff crashed", "why": repr(e)}]
    for d in tdiffs:
        broken.append({"obligation": OBL_TRANS, "detail": d})

    # ---- trees ----
    cases = []   # (source, tree, verdict, rows)

    def add(source, t):
        s = str(t)
        try:
            verdict = bool(evaluate(csvf.CSV_COLNO_PROPERTY, t, csvf.CSV_GRAMMAR).is_true())
        except Exception as e:  # noqa
            broken.append({"obligation": OBL_EVAL, "detail": {"text": s, "evaluate raised": repr(e)}})
            return
        rows = py_csv_rows(s)
        nrec = len(t.filter(lambda n: n.value == "<csv-record>"))
        cases.append((source, t, verdict, rows))
        hist[source] += 1
        hist["verdict_true" if verdict else "verdict_false"] += 1
        quoted_sep = any((";" in f or "\n" in f) for r in rows for f in r)
        hist["with_quoted_separator"] += quoted_sep
        hist["records>=2"] += nrec >= 2
        run.count((source == "solver", s), nrec >= 2)
        equal = len({len(r) for r in rows}) <= 1
        if (source == "solver" or verdict) and not equal:
            failing.append({"formalization": "csv", "source": source, "text": s,
                            "columns_per_record": [len(r) for r in rows], "constraint_verdict": verdict,
                            "why": "records with different numbers of columns (csv.reader)"})
        if len(run.cov["samples"]) < 4 and nrec >= 2 and source in ("solver", "parser"):
            run.sample({"source": source, "text": s, "verdict": verdict, "columns": [len(r) for r in rows]})

    seed_global(rng)
    fz = GrammarFuzzer(csvf.CSV_GRAMMAR, min_nonterminals=0, max_nonterminals=25)
    for _ in range(120 if thorough else 24):
        t = fz.fuzz_tree()
        if len(str(t)) <= 160:
            add("fuzzer", t)
    parser = EarleyParser(csvf.CSV_GRAMMAR)
    for _ in range(150 if thorough else 32):
        s = gen_csv_string(rng)
        t = DerivationTree.from_parse_tree(next(parser.parse(s)))
        add("parser", t)

    configs = []
    for i, wv in enumerate(weight_vectors() if thorough else weight_vectors()[:3]):
        configs.append(dict(wv=wv, max_number_free_instantiations=1 + (i % 2),
                            max_number_smt_instantiations=1 + i % 3,
                            enforce_unique_trees_in_queue=bool(i % 2)))
    csv_solutions = 0
    for i, cfg in enumerate(configs):
        seed_global(rng)
        cfg = dict(cfg)
        wv = cfg.pop("wv")
        try:
            solver = make_solver(csvf.CSV_GRAMMAR, csvf.CSV_COLNO_PROPERTY, wv,
                                 timeout_seconds=60 if thorough else 12, **cfg)
            sols = solutions(solver, 40 if thorough else 12, 60 if thorough else 12)
        except Exception as e:  # noqa
            broken.append({"obligation": "ISLaSolver on the shipped CSV formalization raised",
                           "detail": {"config": i, "error": repr(e)}})
            continue
        for t in sols:
            if len(str(t)) <= 400:
                add("solver", t)
                csv_solutions += 1
    run.cov["csv_solver_solutions"] = csv_solutions

    # ---- T2/T3 in Coq ----
    lits = [tree_case(t, v, rows, src == "solver") for (src, t, v, rows) in cases]
    shards, cur, size = [], [], 0
    index = []
    for k, l in enumerate(lits):
        if cur and (size + len(l) > 600_000 or len(cur) >= 40):
            shards.append((DIAG_DEF, cur)); cur, size = [], 0
        index.append((len(shards), len(cur)))
        cur.append(l); size += len(l)
    if cur:
        shards.append((DIAG_DEF, cur))
    try:
        bad, dt = lib.coq_run_shards("c21", "Outcome Csv", OK_DEF, shards)
        run.cov["coq_seconds"] = round(dt, 1)
        pos = {ix: k for k, ix in enumerate(index)}
        for b in bad[:8]:
            k = pos[b]
            src, t, v, rows = cases[k]
            out = lib.coq_eval(f"c21d{k}", "Csv", f"diag {lits[k]}", extra_defs=DIAG_DEF)
            import re
            vals = re.findall(r"\b(true|false)\b", out.split("=", 1)[-1].split(":")[0]) if "=" in out else []
            wrong = [i for i, x in enumerate(vals) if x == "false"] if len(vals) == 7 else []
            s = str(t)
            equal, cols = csv_equal_columns(s)
            detail = {"source": src, "text": s, "evaluate_verdict": v, "csv_reader_columns": cols,
                      "model_components_false": [DIAG_NAMES[i] for i in wrong] or out[-400:]}
            if 6 in wrong:
                # a solver output that the (proved-correct) decision procedure of the constraint rejects
                failing.append({"formalization": "csv", "source": src, "text": s, "columns_per_record": cols,
                                "why": "ISLaSolver output does not satisfy the shipped column-count "
                                       "constraint (count of <raw-field> nodes differs between records)",
                                "records_raw_field_counts": [len(r.filter(lambda n: n.value == "<raw-field>"))
                                                             for _, r in t.filter(lambda n: n.value == "<csv-record>")]})
            for i in (wrong or [3]):
                broken.append({"obligation": DIAG_OBL[i], "detail": detail})
        run.cov["disagreements_checked"] = len(bad) + len(tdiffs)
    except RuntimeError as e:
        broken.append({"obligation": "correspondence not evaluable (coqc failed on generated cases)",
                       "detail": str(e)[-2000:]})
    run.cov["csv_histogram"] = hist

    # ---- search: XML, reST, simple TAR ----
    search_hist = {}
    budget = 90 if thorough else 14
    nsol = 60 if thorough else 12

    xml_solver_trees = []

    def search(name, grammar, formula, checker, cfgs):
        found = 0
        for i, cfg in enumerate(cfgs):
            seed_global(rng)
            cfg = dict(cfg)
            wv = cfg.pop("wv", None)
            n_i, budget_i = cfg.pop("n", nsol), cfg.pop("budget", budget)
            scaffold = cfg.pop("scaffold", None)
            if scaffold is not None:
                cfg["initial_tree"] = Some(scaffold)
                search_hist[name + "_scaffolds"] = search_hist.get(name + "_scaffolds", 0) + 1
            try:
                solver = make_solver(grammar, formula, wv, timeout_seconds=budget_i, **cfg)
                sols = solutions(solver, n_i, budget_i)
            except Exception as e:  # noqa
                broken.append({"obligation": f"ISLaSolver on the shipped {name} formalization raised",
                               "detail": {"config": i, "error": repr(e)}})
                continue
            for t in sols:
                s = str(t)
                found += 1
                if name == "xml":
                    xml_solver_trees.append(t)
                run.count((name, s), len(s) >= 8)
                why = checker(s, t)
                if why:
                    failing.append({"formalization": name, "source": "solver", "text": s, "why": why,
                                    "config": i, "initial_tree": None if scaffold is None else str(scaffold)})
                if found == 3:
                    run.sample({"formalization": name, "text": s[:120], "check": why or "valid"})
        search_hist[name] = search_hist.get(name, 0) + found

    try:
        from isla_formalizations import xml_lang, rest, simple_tar
        wvs = weight_vectors()
        xml_g = xml_lang.XML_GRAMMAR_WITH_NAMESPACE_PREFIXES
        xml_f = (xml_lang.XML_NAMESPACE_CONSTRAINT & xml_lang.XML_WELLFORMEDNESS_CONSTRAINT
                 & xml_lang.XML_NO_ATTR_REDEF_CONSTRAINT)
        search("xml", xml_g, xml_f, lambda s, t: check_xml(s),
               [dict(wv=wvs[1], k=4, max_number_free_instantiations=1, enforce_unique_trees_in_queue=True)]
               + ([dict(max_number_free_instantiations=2)] if thorough else []))
        # scaffolds (initial_tree): prefixed elements with attribute slots at several depths, so that the
        # existential "some enclosing element declares the prefix" is solved in a tree that already has
        # descendants with attributes.  Texts are parsed, then every <xml-attribute> is re-opened.
        xml_texts = ['<a:b><c q="0">x</c></a:b>', '<a:b q="0"><c q="0">x</c></a:b>',
                     '<r q="0"><a:b><c q="0">x</c></a:b></r>', '<r q="0"><a:b q="0"><c:d q="0"/></a:b></r>']
        if thorough:
            xml_texts += ['<a:b q="0"><c q="0"><d q="0">x</d></c></a:b>', '<r><a:b q="0">x</a:b><c q="0"/></r>',
                          '<a:b q="0"><a:c q="0"/><d q="0">x</d></a:b>']
        search("xml", xml_g, xml_f, lambda s, t: check_xml(s),
               [dict(scaffold=xml_scaffold(xml_g, txt), n=6 if thorough else 3,
                     budget=20 if thorough else (6 if k == 0 else 8), max_number_free_instantiations=1)
                for k, txt in enumerate(xml_texts)])   # the first scaffold has no solution on a correct tree

        # ---- XML tag balance: transcription + correspondence for the proved part (after the XML search,
        # so that the solver outputs above go through wf_treeb / xml_wf_satb / xml_balanced as well) ----
        try:
            c21_xml.correspond(run, rng, thorough, seed_global, xml_solver_trees, broken, failing)
        except Exception:  # noqa
            import traceback
            broken.append({"obligation": "XML correspondence (harness/c21_xml.py) crashed",
                           "detail": traceback.format_exc()[-1500:]})
        # ---- XML namespace / attribute rules: transcription + correspondence for Formal/XmlNs.v ----
        try:
            c21_xmlns.correspond(run, rng, thorough, seed_global, xml_solver_trees, broken, failing)
        except Exception:  # noqa
            import traceback
            broken.append({"obligation": "XML namespace correspondence (harness/c21_xmlns.py) crashed",
                           "detail": traceback.format_exc()[-1500:]})

        rest_f = (rest.LENGTH_UNDERLINE & rest.DEF_LINK_TARGETS & rest.NO_LINK_TARGET_REDEF
                  & rest.LIST_NUMBERING_CONSECUTIVE)
        search("rest", rest.REST_GRAMMAR, rest_f, check_rest,
               [dict(wv=wvs[2], k=4, max_number_free_instantiations=1, max_number_smt_instantiations=1,
                     enforce_unique_trees_in_queue=True),
                # auxiliary solutions of the unsat machinery must not leak into the output stream
                dict(activate_unsat_support=True, max_number_free_instantiations=2,
                     max_number_smt_instantiations=2, n=nsol, budget=budget)]
               + ([dict(max_number_free_instantiations=1)] if thorough else []))

        tar_g, tar_f = simple_tar.SIMPLE_TAR_GRAMMAR, simple_tar.TAR_CONSTRAINTS
        tar_cfg = dict(max_number_free_instantiations=1, max_number_smt_instantiations=1,
                       enforce_unique_trees_in_queue=False)
        search("simple_tar", tar_g, tar_f, lambda s, t: check_tar(s),
               [tar_cfg] + ([dict(wv=wvs[3], max_number_free_instantiations=2)] if thorough else []))
        # archives with >= 2 entries (incl. two entries with IDENTICAL text and a stale checksum), each
        # scaffold solved TWICE in this process (state kept between solver runs must not matter)
        tar_scaffolds = tar_scaffold_trees(rng, tar_g, tar_f, broken)
        search("simple_tar", tar_g, tar_f, lambda s, t: check_tar(s, min_entries=2),
               [dict(tar_cfg, scaffold=sc, n=4 if thorough else 2, budget=30 if thorough else 8)
                for sc in tar_scaffolds for _twice in (0, 1)])
    except Exception as e:  # noqa
        import traceback
        broken.append({"obligation": "search over XML/reST/TAR formalizations crashed",
                       "detail": traceback.format_exc()[-1500:]})
    run.cov["search_solutions"] = search_hist
    run.cov["search_seconds"] = round(time.time() - t_start, 1)

    # ---- classify ----
    known = [e for e in lib.known_findings("C21") if e.get("status") == "open"]
    known += [e for e in c21_xmlns.local_findings() if e.get("key") not in {k.get("key") for k in known}]
    reported, announced = set(), set()
    for f in sorted(failing, key=lambda d: len(d["text"])):
        ent = next((e for e in known if classify(f) == e.get("class")), None)
        if ent:
            if ent.get("key") not in announced:
                announced.add(ent.get("key"))
                run.known(ent["what"])
            continue
        key = (f["formalization"], f["why"][:14])
        if key in reported:
            continue
        reported.add(key)
        run.violation({"kind": "generated input fails the independent validity check", "witness": f,
                       "all_failing": len(failing), "how_to_replay": "./check C21 --replay <this file>"})
    if broken and not reported:
        seen = set()
        for b in broken:
            if b["obligation"] in seen:
                continue
            seen.add(b["obligation"])
            run.violation({"kind": "correspondence broken, no invalid generated input found",
                           "obligation": b["obligation"], "first": b["detail"],
                           "count": sum(1 for x in broken if x["obligation"] == b["obligation"])},
                          found_input=False)
    for e in known:   # replay recorded witnesses
        w = e.get("witness", {})
        if w and e.get("key") not in announced and replay_witness(w):
            run.known(e["what"])
    if not proof_ok:
        run.violation({"kind": "proof obligation failed", "problems": run.proof_problems,
                       "obligation": "Props/C21.v"}, found_input=False)
    run.cov["trusted_base"] = lib.TRUSTED_BASE_COMMON + [
        "helpers.canonical(CSV_GRAMMAR) is the grammar the solver works with (tokenisation of expansions)",
        "meaning of `exists int num: forall <csv-record> elem in start: (str.to.int(num) >= 1 and count(elem, "
        "\"<raw-field>\", num))` taken as documented (number of nodes labelled <raw-field> in elem); tied to "
        "evaluator.evaluate on every run",
        "the independent validity notion is the reader Csv.csv_rows; tied to Python's csv module on every run",
        "that ISLaSolver outputs satisfy the constraint is C01's claim; here it is re-checked per output "
        "(wf_treeb, closedb, colno_satb)",
        "helpers.canonical(XML_GRAMMAR / XML_GRAMMAR_WITH_NAMESPACE_PREFIXES) is the grammar the solver works with",
        "meaning of xml_wellformedness_constraint taken as documented (every <xml-tree> node matching "
        "<{<id> opid}[ <xml-attribute>]><inner-xml-tree></{<id> clid}> has equal opid / clid texts); tied to "
        "evaluator.evaluate on every run",
        "the independent notion of tag balance is the reader Xml.xml_balanced; tied on every run to a Python "
        "reference reader, which is cross-checked with xml.etree (expat) on every text of the grammar",
        "meaning of the XML namespace / no-redefinition constraints: match expressions as the tree prefixes "
        "BindExpression.to_tree_prefix computes (diffed every run), inside = path-prefix, quantifier domains = all "
        "nodes of the type below the domain node; tied to evaluator.evaluate on every run",
        "the independent notions of prefix binding / attribute uniqueness are XmlNs.xml_ns_bound / xml_attrs_unique "
        "over the reader XmlNs.xml_events; tied on every run to Python references cross-checked with expat",
        "reST, simple TAR: NOT proved; failing-input search with docutils, byte-level TAR reader",
    ]


def classify(f):
    """class name of the known finding this failing output belongs to (XML reserved names / expanded names)"""
    if f.get("formalization") == "xml":
        return f.get("class") or c21_xmlns.classify_text(f.get("text", ""))
    return None


def replay_witness(w):
    name, s = w.get("formalization"), w.get("text", "")
    if name == "csv":
        return not csv_equal_columns(s)[0]
    if name == "xml" and w.get("all_constraints_hold"):
        return c21_xmlns.replay_finding(s)
    if name == "xml":
        return check_xml(s) is not None or not c21_xml.py_xml_balanced(s)
    if name == "simple_tar":
        return check_tar(s) is not None
    return False


def replay(path):
    d = json.load(open(path))
    w = d.get("witness")
    if not w:
        print("replay file names an obligation, not an input:", d.get("obligation"))
        return 1
    name, s = w["formalization"], w["text"]
    if name == "csv":
        ok, cols = csv_equal_columns(s)
        print("columns per record:", cols)
        if ok:
            return 0
        # the text is invalid CSV: it is a failing input iff the current grammar + constraint accept it
        try:
            t = DerivationTree.from_parse_tree(next(EarleyParser(csvf.CSV_GRAMMAR).parse(s)))
            verdict = bool(evaluate(csvf.CSV_COLNO_PROPERTY, t, csvf.CSV_GRAMMAR).is_true())
        except Exception as e:  # noqa
            print("not accepted by the current CSV grammar:", type(e).__name__)
            return 0
        print("constraint verdict on the current tree:", verdict)
        return 1 if verdict else 0
    if name == "xml":
        why = check_xml(s) or (None if c21_xml.py_xml_balanced(s) else "tag balance (reference reader)")
    elif name == "simple_tar":
        why = check_tar(s)
    else:
        from isla_formalizations import rest
        t = DerivationTree.from_parse_tree(next(EarleyParser(rest.REST_GRAMMAR).parse(s)))
        why = check_rest(s, t)
    print("independent check:", why or "valid")
    return 0 if not why else 1
