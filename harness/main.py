import argparse, importlib, os, sys, traceback
sys.setrecursionlimit(20000)
import lib

def main():
    ap = argparse.ArgumentParser()
    ap.add_argument("prop")
    ap.add_argument("--tier", default=os.environ.get("VERIF_TIER", "quick"), choices=["quick", "thorough"])
    ap.add_argument("--replay")
    ap.add_argument("--seed", type=int, default=int(os.environ.get("VERIF_SEED", "20260921")))
    a = ap.parse_args()
    mod = importlib.import_module(a.prop.lower())
    if a.replay:
        sys.exit(mod.replay(a.replay))
    run = lib.Run(a.prop, a.tier, a.seed)
    try:
        mod.run(run)
    except Exception:
        tb = traceback.format_exc()
        print(tb, file=sys.stderr)
        run.violation({"kind": "check-crashed", "obligation": f"harness/{a.prop.lower()}.py",
                       "traceback": tb[-4000:]}, found_input=False)
    sys.exit(run.finish())

main()
