#!/usr/bin/env python3
"""Regenerate the generated blocks of DESIGN.md (between <!-- GEN:name --> and <!-- /GEN:name -->):
   theorem table per property (from coq/Props/*.v), findings table (from harness/meta/*.findings.json),
   seeded-change catch table (from seeded/*/), per-property build notes (design_notes/*.md)."""
import json, os, re, glob
V = os.path.dirname(os.path.dirname(os.path.abspath(__file__)))
THM = re.compile(r"^\s*(Theorem|Example|Lemma|Corollary)\s+([A-Za-z_][\w']*)", re.M)

def strip_comments(src):
    out, depth, i = [], 0, 0
    while i < len(src):
        if src.startswith("(*", i): depth += 1; i += 2
        elif src.startswith("*)", i) and depth: depth -= 1; i += 2
        else:
            if depth == 0: out.append(src[i])
            i += 1
    return "".join(out)

def theorems():
    rows = ["| Property | theorems in Props/<id>.v | full | partial (guarded) | refuted (witness) | examples (non-vacuity) |", "|---|---|---|---|---|---|"]
    for f in sorted(glob.glob(os.path.join(V, "coq/Props/C*.v"))):
        pid = os.path.basename(f)[:-2]
        names = [(k, n) for k, n in THM.findall(strip_comments(open(f).read()))]
        part = [n for k, n in names if "_partial" in n]
        ref = [n for k, n in names if "refuted" in n]
        ex = [n for k, n in names if k == "Example" or "nonvacuous" in n or "satisfiable" in n]
        full = [n for k, n in names if n not in part and n not in ref and n not in ex]
        rows.append(f"| {pid} | {len(names)} | {len(full)} | {len(part)} | {len(ref)} | {len(ex)} |")
    return "\n".join(rows)

def findings():
    rows = ["| Property | key | status | class / commit | what fails (reproduced on the public API) |", "|---|---|---|---|---|"]
    for f in sorted(glob.glob(os.path.join(V, "harness/meta/*.findings.json"))):
        for e in json.load(open(f)):
            what = e.get("what") or e.get("fixed_line", "")
            what = re.sub(r"^fixed: property=\S+ \S+ ", "", what).replace("|", "\\|").replace("\n", " ")
            cls = e.get("commit") if e.get("status") == "fixed" else e.get("class", "")
            rows.append(f"| {e['property']} | {e.get('key')} | {e.get('status')} | {cls} | {what[:420]} |")
    return "\n".join(rows)

def seeds():
    rows = ["| Seed | what was changed | needs | confirmed (demo unchanged/changed, stable suite) | result of `./check` on the changed tree |", "|---|---|---|---|---|"]
    for d in sorted(glob.glob(os.path.join(V, "seeded/C*-*"))):
        name = os.path.basename(d)
        mp = os.path.join(d, "meta.json")
        if not os.path.exists(mp): continue
        m = json.load(open(mp))
        rows.append(f"| {name} | {m.get('summary','')[:300]} | {m.get('needs','')[:200]} | {m.get('confirmed','')} | {m.get('check_result','')} |".replace("\n", " "))
    return "\n".join(rows)

def notes():
    out = []
    for f in sorted(glob.glob(os.path.join(V, "design_notes/C*.md"))):
        pid = os.path.basename(f)[:-3]
        txt = open(f).read().strip()
        txt = re.sub(r"^# ", "#### ", txt, flags=re.M)
        txt = re.sub(r"^## ", "##### ", txt, flags=re.M)
        out.append(f"### Build notes {pid}\n\n{txt}\n")
    return "\n".join(out)

GEN = {"theorems": theorems, "findings": findings, "seeds": seeds, "notes": notes}
p = os.path.join(V, "DESIGN.md")
s = open(p).read()
for k, fn in GEN.items():
    a, b = f"<!-- GEN:{k} -->", f"<!-- /GEN:{k} -->"
    if a in s and b in s:
        s = s[:s.index(a) + len(a)] + "\n" + fn() + "\n" + s[s.index(b):]
open(p, "w").write(s)
print("DESIGN.md regenerated blocks:", [k for k in GEN if f"<!-- GEN:{k} -->" in s])
