"""C21, XML namespace / attribute rules: ties coq/Formal/XmlNs.v to isla_formalizations/xml_lang.py.

  N1 transcription diff, evaluated inside Coq: source texts of xml_tag_namespace_constraint,
     xml_attribute_namespace_constraint, xml_no_attr_redef_constraint; the parsed formulas written out
     (quantifier kinds / types / domains, connectives, predicate arguments, SMT atoms); for every match
     expression the tree prefixes and bound-variable paths BindExpression.to_tree_prefix computes
     (XmlNs.ME_tag, ME_outer, ME_def, ME_attr, ME_leaf); XML_NAMESPACE_CONSTRAINT = tag & attribute.
  N2 per tree t of XML_GRAMMAR_WITH_NAMESPACE_PREFIXES (parser trees of generated texts with declared,
     undeclared, misplaced and reserved prefixes and duplicate attributes; fuzzer trees; the ISLaSolver
     outputs of the XML search): inside Coq
       wf_treeb XMLNS t && root, closedb t, yield t = str(t),
       tag_ns_satb / attr_ns_satb / xml_noredef_satb t = evaluate(...) verdicts,
       xml_events (str t) = Python reference reader (names and attribute pairs of every tag),
       xml_ns_bound / xml_attrs_unique / xml_ns_reserved = Python references,
       both namespace verdicts true -> xml_ns_bound (instance of C21_xml_ns_bound),
       no-redefinition verdict true -> xml_attrs_unique.
     The Python references are cross-checked with xml.etree (expat) on every text.
  N3 strings outside the grammar's language: xml_events = Python reference reader.
  Findings: a tree on which all shipped XML constraints evaluate to true but which expat rejects
     (reserved prefix xml rebound; a prefix bound to a reserved namespace name; two attributes with the
     same expanded name) is recognised by class and printed as KNOWN-FINDING.
"""
import json
import os
import re
import time
import xml.etree.ElementTree as ET

import lib
from lib import g_str, g_tree, g_bool, g_list, g_nat

from isla import language
from isla.derivation_tree import DerivationTree
from isla.evaluator import evaluate
from isla.fuzzer import GrammarFuzzer
from isla.parser import EarleyParser
import isla_formalizations.xml_lang as xmlf

OBL_NTRANS = ("transcription Formal/XmlNs.v (constraint sources, parsed formulas, match-expression tree prefixes "
              "ME_tag ME_outer ME_def ME_attr ME_leaf) <-> isla_formalizations/xml_lang.py")
OBL_NEVAL = ("correspondence XmlNs.tag_ns_satb / attr_ns_satb / xml_noredef_satb <-> evaluator.evaluate("
             "XML_TAG_NAMESPACE / XML_ATTRIBUTE_NAMESPACE / XML_NO_ATTR_REDEF constraint, tree, grammar)")
OBL_NREADER = ("correspondence XmlNs.xml_events / xml_ns_bound / xml_attrs_unique / xml_ns_reserved <-> Python "
               "reference readers (cross-checked with xml.etree)")
OBL_NTREE = "correspondence wf_treeb XMLNS / closedb / yield <-> trees produced by fuzzer, parser, solver"
OBL_NTHM = "Props/C21.v C21_xml_ns_bound / C21_xml_attrs_unique instance"
NDIAG_NAMES = ["wf_treeb XMLNS t, root <start>", "closedb t", "yield t = str(t)", "tag_ns_satb = evaluate",
               "attr_ns_satb = evaluate", "xml_noredef_satb = evaluate", "xml_events = reference reader",
               "xml_ns_bound = reference", "xml_attrs_unique = reference", "xml_ns_reserved = reference",
               "namespace verdicts -> xml_ns_bound", "no-redefinition verdict -> xml_attrs_unique"]
NDIAG_OBL = [OBL_NTREE, OBL_NTREE, OBL_NTREE, OBL_NEVAL, OBL_NEVAL, OBL_NEVAL, OBL_NREADER, OBL_NREADER,
             OBL_NREADER, OBL_NREADER, OBL_NTHM, OBL_NTHM]

WS = " \t\n\r"
URI_XML = "http://www.w3.org/XML/1998/namespace"
URI_XMLNS = "http://www.w3.org/2000/xmlns/"
G = xmlf.XML_GRAMMAR_WITH_NAMESPACE_PREFIXES
CONSTRAINTS = (xmlf.XML_TAG_NAMESPACE_CONSTRAINT, xmlf.XML_ATTRIBUTE_NAMESPACE_CONSTRAINT,
               xmlf.XML_NO_ATTR_REDEF_CONSTRAINT)


# --------------------------------------------------------------------------
# Python references (written from the XML notions; scan based, not a copy of the Coq automaton's table)
# --------------------------------------------------------------------------
def py_xml_events(s):
    """list of ('open'|'empty'|'close', name, [(key, value)]) or None"""
    out, i, n = [], 0, len(s)
    while True:
        i = s.find("<", i)
        if i < 0:
            return out
        i += 1
        closing = i < n and s[i] == "/"
        if closing:
            i += 1
        j = i
        while j < n and s[j] not in WS + "/><\"=":
            j += 1
        name = s[i:j]
        if not name:
            return None
        attrs = []
        i = j
        while True:
            had_ws = False
            while i < n and s[i] in WS:
                i, had_ws = i + 1, True
            if i >= n:
                return None
            if s[i] == ">":
                i += 1
                selfc = False
                break
            if s[i] == "/":
                if i + 1 < n and s[i + 1] == ">":
                    i += 2
                    selfc = True
                    break
                return None
            if not had_ws:
                return None
            j = i
            while j < n and s[j] not in WS + "/><\"=":
                j += 1
            key = s[i:j]
            if not key or j + 1 >= n or s[j] != "=" or s[j + 1] != '"':
                return None
            k = s.find('"', j + 2)
            if k < 0 or "<" in s[j + 2:k]:
                return None
            attrs.append((key, s[j + 2:k]))
            i = k + 1
        if closing:
            if selfc or attrs:
                return None
            out.append(("close", name, []))
        else:
            out.append(("empty" if selfc else "open", name, attrs))


def _split(q):
    return q.split(":", 1) if ":" in q else (None, q)


def py_ns_bound(evs):
    if evs is None:
        return False
    stack, ok = [], True
    for kind, name, attrs in evs:
        if kind == "close":
            if not stack:
                return False
            stack.pop()
            continue
        decl = [k.split(":", 1)[1] for k, _ in attrs if k.split(":", 1)[0] == "xmlns" and ":" in k]
        scope = {"xml"} | set(decl) | {p for d in stack for p in d}
        p, _ = _split(name)
        if p is not None and p not in scope:
            ok = False
        for k, _ in attrs:
            p, l = _split(k)
            if p is None:
                continue
            if p == "xmlns":
                ok = ok and l != "xmlns"
            elif p not in scope:
                ok = False
        if kind == "open":
            stack.append(decl)
    return ok


def py_attrs_unique(evs):
    return evs is not None and all(len({k for k, _ in a}) == len(a) for _, _, a in evs)


def py_reserved(evs):
    if evs is None:
        return False
    for _, _, attrs in evs:
        for k, v in attrs:
            p, l = _split(k)
            other = v not in (URI_XML, URI_XMLNS)
            if p == "xmlns":
                if (v == URI_XML) if l == "xml" else other:
                    continue
                return False
            if p is None and k == "xmlns" and not other:
                return False
    return True


def py_expanded_unique(evs):
    """no two attributes of a tag with the same (namespace name, local part)"""
    if evs is None:
        return False
    stack = []
    for kind, name, attrs in evs:
        if kind == "close":
            if stack:
                stack.pop()
            continue
        env = dict(stack[-1]) if stack else {"xml": URI_XML}
        for k, v in attrs:
            p, l = _split(k)
            if p == "xmlns":
                env[l] = v
        seen = set()
        for k, _ in attrs:
            p, l = _split(k)
            if p is None or p == "xmlns" or p not in env:
                continue
            if (env[p], l) in seen:
                return False
            seen.add((env[p], l))
        if kind == "open":
            stack.append(env)
    return True


def etree_class(s):
    """None if expat accepts, else (class, message)"""
    try:
        ET.fromstring(s)
        return None
    except ET.ParseError as e:
        m = str(e)
        for key, cls in (("unbound prefix", "unbound"), ("duplicate attribute", "duplicate"),
                         ("reserved prefix", "reserved"), ("reserved namespace", "reserved"),
                         ("mismatched tag", "balance")):
            if key in m:
                return cls, m
        return "other", m


FINDING_CLASSES = {
    "K_ns_reserved": "XML namespace constraints accept a text expat rejects: reserved prefix xml / xmlns rebound or a "
                     "prefix bound to a reserved namespace name (shipped constraints say nothing about reserved names)",
    "K_ns_expanded_dup": "XML constraints accept a tag with two attributes of the same expanded name (two prefixes "
                         "bound to the same namespace name); xml_no_attr_redef_constraint compares qualified names only",
}


def classify_text(s):
    """class of a known finding for a text on which the shipped constraints hold but expat fails"""
    ec = etree_class(s)
    evs = py_xml_events(s)
    if ec is None or evs is None:
        return None
    if ec[0] == "reserved" and not py_reserved(evs):
        return "K_ns_reserved"
    if ec[0] == "duplicate" and py_attrs_unique(evs) and not py_expanded_unique(evs):
        return "K_ns_expanded_dup"
    return None


def replay_finding(s):
    """is the recorded defect still present: all shipped XML constraints hold on the tree of s, expat rejects s"""
    try:
        t = DerivationTree.from_parse_tree(next(EarleyParser(G).parse(s)))
        holds = all(bool(evaluate(c, t, G).is_true()) for c in CONSTRAINTS + (xmlf.XML_WELLFORMEDNESS_CONSTRAINT,))
    except Exception:  # noqa
        return False
    return holds and etree_class(s) is not None


def local_findings():
    p = os.path.join(os.path.dirname(__file__), "meta", "C21.findings.json")
    try:
        return [e for e in json.load(open(p)) if e.get("status") == "open"]
    except (OSError, ValueError):
        return []


# --------------------------------------------------------------------------
# N1 transcription
# --------------------------------------------------------------------------
def sig(f):
    if isinstance(f, language.QuantifiedFormula):
        q = "forall" if isinstance(f, language.ForallFormula) else "exists"
        return (f"{q} {f.bound_variable.n_type} {f.bound_variable.name} in {f.in_variable.name}"
                f"{' match' if f.bind_expression is not None else ''}: ({sig(f.inner_formula)})")
    if isinstance(f, language.ConjunctiveFormula):
        return " and ".join(f"({sig(a)})" for a in f.args)
    if isinstance(f, language.DisjunctiveFormula):
        return " or ".join(f"({sig(a)})" for a in f.args)
    if isinstance(f, language.NegatedFormula):
        return f"not ({sig(f.args[0])})"
    if isinstance(f, language.StructuralPredicateFormula):
        return f"{f.predicate.name}({', '.join(a if isinstance(a, str) else a.name for a in f.args)})"
    if isinstance(f, language.SMTFormula):
        return str(f.formula).replace("\n", " ")
    return type(f).__name__


def g_mtree(t):
    if t.children is None:
        return f"(MO {g_str(t.value)})"
    return f"(MN {g_str(t.value)} [" + "; ".join(g_mtree(c) for c in t.children) + "])"


def g_mexpr(q):
    alts = []
    for tr, m in q.bind_expression.to_tree_prefix(q.bound_variable.n_type, G):
        paths = [p for v, p in m.items() if type(v) is language.BoundVariable]
        alts.append(f"({g_mtree(tr)}, [" + "; ".join("[" + "; ".join(g_nat(i) for i in p) + "]" for p in paths) + "])")
    return "[" + "; ".join(alts) + "]"


def quantifiers(f, acc):
    if isinstance(f, language.QuantifiedFormula):
        if f.bind_expression is not None:
            acc.append(f)
        quantifiers(f.inner_formula, acc)
    elif isinstance(f, language.PropositionalCombinator):
        for a in f.args:
            quantifiers(a, acc)
    return acc


MEQ_DEF = """
Fixpoint mtree_eqb (a b : mtree) {struct a} : bool :=
  match a, b with
  | MO l, MO l' => str_eqb l l'
  | MN l ms, MN l' ms' => str_eqb l l' &&
      (fix go (x y : list mtree) {struct x} : bool :=
         match x, y with [], [] => true | m :: x', m' :: y' => mtree_eqb m m' && go x' y' | _, _ => false end) ms ms'
  | _, _ => false
  end.
Fixpoint list_eqb {A} (e : A -> A -> bool) (x y : list A) : bool :=
  match x, y with [], [] => true | a :: x', b :: y' => e a b && list_eqb e x' y' | _, _ => false end.
Definition mexpr_eqb (a b : mexpr) : bool :=
  list_eqb (fun p q => mtree_eqb (fst p) (fst q) && list_eqb (list_eqb Nat.eqb) (snd p) (snd q)) a b.
"""


def transcription_diff(run):
    diffs = []
    qs = [quantifiers(c, []) for c in CONSTRAINTS]
    expect = [["ME_tag", "ME_outer", "ME_def"], ["ME_attr", "ME_outer", "ME_def"], ["ME_leaf", "ME_leaf"]]
    names, exprs, defs = [], [], []
    for nm, coq, src, c in (("xml_tag_namespace_constraint", "tagns", xmlf.xml_tag_namespace_constraint, CONSTRAINTS[0]),
                            ("xml_attribute_namespace_constraint", "attrns", xmlf.xml_attribute_namespace_constraint,
                             CONSTRAINTS[1]),
                            ("xml_no_attr_redef_constraint", "noredef", xmlf.xml_no_attr_redef_constraint, CONSTRAINTS[2])):
        defs.append(f"Definition SRC_{coq} : str := {g_str(src)}.\nDefinition SIG_{coq} : str := {g_str(sig(c))}.\n")
        names += [f"{nm} (source text)", f"{nm} (parsed formula)"]
        exprs += [f"str_eqb {coq}_src SRC_{coq}", f"str_eqb {coq}_sig SIG_{coq}"]
    for ci, (ql, ex) in enumerate(zip(qs, expect)):
        if len(ql) != len(ex):
            diffs.append({"object": f"constraint {ci}", "why": f"{len(ql)} match expressions, expected {len(ex)}"})
            continue
        for qi, (q, me) in enumerate(zip(ql, ex)):
            defs.append(f"Definition MX_{ci}_{qi} : mexpr := {g_mexpr(q)}.\n")
            names.append(f"match expression {str(q.bind_expression)!r} of constraint {ci} vs XmlNs.{me}")
            exprs.append(f"mexpr_eqb {me} MX_{ci}_{qi}")
    if xmlf.XML_NAMESPACE_CONSTRAINT != (CONSTRAINTS[0] & CONSTRAINTS[1]):
        diffs.append({"object": "XML_NAMESPACE_CONSTRAINT", "why": "is not tag constraint & attribute constraint"})
    out = lib.coq_eval("c21nt", "XmlNs", "[" + "; ".join(exprs) + "]", extra_defs=MEQ_DEF + "".join(defs))
    vals = re.findall(r"\b(true|false)\b", out.split("=", 1)[-1].split(":")[0]) if "=" in out else []
    if len(vals) != len(names):
        diffs.append({"object": "XML namespace transcription diff not evaluable", "why": out[-1500:]})
    else:
        diffs += [{"object": nm, "why": "differs from the transcription in Formal/XmlNs.v"}
                  for nm, v in zip(names, vals) if v != "true"]
    run.cov["xmlns_transcription"] = {"objects": len(names), "diffs": len(diffs)}
    return diffs


# --------------------------------------------------------------------------
# N2 generators
# --------------------------------------------------------------------------
LOCALS = ["a", "b", "x1", "_t", "id", "n", "xmlns", "xml"]
PREFIXES = ["p", "q", "r", "xmlns", "xml"]
VALUES = ["u", "v", "u", "1 2", "/", "a=b", URI_XML, "http://w.w/?q=1"]


def gen_ns_text(rng, depth=0, scope=()):
    """a text of the grammar; prefixes are declared on the element, an ancestor, elsewhere, or nowhere"""
    def qname(p_pref):
        if rng.random() < p_pref:
            pool = list(scope) * 3 + PREFIXES if scope else PREFIXES
            return rng.choice(pool) + ":" + rng.choice(LOCALS)
        return rng.choice(LOCALS)
    nm = qname(0.4)
    attrs, decls = [], []
    for _ in range(rng.choice([0, 0, 1, 1, 2, 3])):
        r = rng.random()
        if r < 0.4:
            p = rng.choice(PREFIXES[:3] if rng.random() < 0.9 else PREFIXES)
            decls.append(p)
            attrs.append(f'xmlns:{p}="{rng.choice(VALUES)}"')
        elif r < 0.5 and attrs:
            attrs.append(rng.choice(attrs))                      # duplicate attribute
        else:
            attrs.append(f'{qname(0.4)}="{rng.choice(VALUES)}"')
    if ":" in nm and nm.split(":")[0] not in scope and rng.random() < 0.6:
        attrs.append(f'xmlns:{nm.split(":")[0]}="{rng.choice(VALUES)}"')
        decls.append(nm.split(":")[0])
    rng.shuffle(attrs)
    at = (" " + " ".join(attrs)) if attrs else ""
    if rng.random() < (0.25 if depth < 2 else 0.7):
        return f"<{nm}{at}/>"
    if depth >= 2 or rng.random() < 0.3:
        inner = rng.choice(["t", "a b", "x=y"])
    else:
        inner = "".join(gen_ns_text(rng, depth + 1, tuple(scope) + tuple(decls)) for _ in range(rng.randint(1, 3)))
    return f"<{nm}{at}>{inner}</{nm}>"


FIXED_TEXTS = ['<p:a xmlns:p="u"/>', '<a xmlns:xml="u">t</a>', '<a xmlns:p="u" xmlns:q="u" p:x="1" q:x="2">t</a>',
               f'<a xmlns:p="{URI_XML}">t</a>', '<p:a><c xmlns:p="u">x</c></p:a>', '<r xmlns:p="u"><p:a p:x="1"/></r>',
               '<a xmlns:xmlns="u">t</a>', '<xmlns:a xmlns:xmlns="u">t</xmlns:a>', '<a x="1" y="2" x="3"/>',
               '<a xml:lang="en">t</a>', '<a p:x="1" xmlns:p="u"/>', f'<a xmlns:xml="{URI_XML}" xml:b="1">t</a>']


def gen_raw(rng):
    pieces = ["<", ">", "/", '"', " ", "=", "a", "b:c", "<a>", "</a>", "<b/>", '<a b="1">', '<a b="1" c:d="2"/>', "</a >",
              "<a b>", "x", "\t", "<>", "</>", "< a>", '<a b="<">', '<a b="1"c="2">', "</a/>", '</a b="1">', "<a /", "<a/ >"]
    return "".join(rng.choice(pieces) for _ in range(rng.randint(0, 8)))


def g_events(evs):
    if evs is None:
        return "None"
    def one(e):
        kind, name, attrs = e
        if kind == "close":
            return f"EvClose {g_str(name)}"
        ats = "[" + "; ".join(f"({g_str(k)}, {g_str(v)})" for k, v in attrs) + "]"
        return f"{'EvOpen' if kind == 'open' else 'EvEmpty'} {g_str(name)} {ats}"
    return "(Some [" + "; ".join(one(e) for e in evs) + "])"


NDIAG_DEF = """
Definition pair_eqb (a b : str * str) : bool := str_eqb (fst a) (fst b) && str_eqb (snd a) (snd b).
Fixpoint pairs_eqb (x y : list (str * str)) : bool :=
  match x, y with [], [] => true | a :: x', b :: y' => pair_eqb a b && pairs_eqb x' y' | _, _ => false end.
Definition ev_eqb (a b : xevent) : bool :=
  match a, b with
  | EvOpen n x, EvOpen m y => str_eqb n m && pairs_eqb x y
  | EvEmpty n x, EvEmpty m y => str_eqb n m && pairs_eqb x y
  | EvClose n, EvClose m => str_eqb n m
  | _, _ => false
  end.
Fixpoint evs_eqb (x y : list xevent) : bool :=
  match x, y with [], [] => true | a :: x', b :: y' => ev_eqb a b && evs_eqb x' y' | _, _ => false end.
Definition oevs_eqb (x y : option (list xevent)) : bool :=
  match x, y with Some a, Some b => evs_eqb a b | None, None => true | _, _ => false end.
Definition ndiag (c : tree * str * (bool * bool * bool) * option (list xevent) * (bool * bool * bool)) : list bool :=
  let '(t, s, (e1, e2, e3), evs, (rb, ru, rr)) := c in
  [wf_treeb XMLNS t && str_eqb (lbl t) X_start; closedb t; str_eqb (yield t) s;
   Bool.eqb (tag_ns_satb t) e1; Bool.eqb (attr_ns_satb t) e2; Bool.eqb (xml_noredef_satb t) e3;
   oevs_eqb (xml_events s) evs; Bool.eqb (xml_ns_bound s) rb; Bool.eqb (xml_attrs_unique s) ru;
   Bool.eqb (xml_ns_reserved s) rr; implb (e1 && e2) (xml_ns_bound s); implb e3 (xml_attrs_unique s)].
"""
NOK_DEF = "fun c => forallb (fun b : bool => b) (ndiag c)"
RAW_OK_DEF = "fun c : str * option (list xevent) => oevs_eqb (xml_events (fst c)) (snd c)"


def correspond(run, rng, thorough, seed_global, solver_trees, broken, failing):
    t0 = time.time()
    hist = {"parser": 0, "fuzzer": 0, "solver": 0, "fixed": 0, "ns_true": 0, "ns_false": 0, "redef_false": 0,
            "bound_but_constraint_false": 0, "prefixed_names": 0, "etree_accepts": 0, "etree_unbound": 0,
            "etree_duplicate": 0, "etree_reserved": 0, "known_finding_texts": 0, "raw_texts": 0, "raw_tag_sequences": 0}
    for d in transcription_diff(run):
        broken.append({"obligation": OBL_NTRANS, "detail": d})
    parser = EarleyParser(G)
    cases = []

    def add(source, t):
        s = str(t)
        try:
            ev = tuple(bool(evaluate(c, t, G).is_true()) for c in CONSTRAINTS)
            wf = bool(evaluate(xmlf.XML_WELLFORMEDNESS_CONSTRAINT, t, G).is_true())
        except Exception as e:  # noqa
            broken.append({"obligation": OBL_NEVAL, "detail": {"text": s, "evaluate raised": repr(e)}})
            return
        evs = py_xml_events(s)
        ref = (py_ns_bound(evs), py_attrs_unique(evs), py_reserved(evs))
        ec = etree_class(s)
        # cross-check of the references with expat (only where tags balance, else expat stops early)
        if wf and evs is not None:
            if ec is None and not (ref[0] and ref[1] and ref[2] and py_expanded_unique(evs)):
                broken.append({"obligation": OBL_NREADER, "detail": {"text": s, "xml.etree": "accepted", "reference": ref}})
            if ec is not None and ((ec[0] == "unbound" and ref[0]) or (ec[0] == "reserved" and ref[2] and ref[0])
                                   or (ec[0] == "duplicate" and ref[1] and py_expanded_unique(evs))
                                   or ec[0] in ("balance", "other")):
                broken.append({"obligation": OBL_NREADER, "detail": {"text": s, "xml.etree": ec[1], "reference": ref}})
        cases.append((source, t, s, ev, evs, ref))
        hist[source] += 1
        hist["ns_true" if ev[0] and ev[1] else "ns_false"] += 1
        hist["redef_false"] += not ev[2]
        hist["bound_but_constraint_false"] += ref[0] and not (ev[0] and ev[1])
        hist["prefixed_names"] += ":" in s
        hist["etree_" + ("accepts" if ec is None else ec[0] if ec[0] in ("unbound", "duplicate", "reserved") else "accepts")] += \
            ec is None or ec[0] in ("unbound", "duplicate", "reserved")
        run.count(("xmlns-tie", source == "solver", s), ":" in s or '="' in s)
        if wf and all(ev) and ec is not None:
            cls = classify_text(s)
            if cls:
                hist["known_finding_texts"] += 1
                if source != "solver":       # solver outputs reach `failing` through the XML search itself
                    failing.append({"formalization": "xml", "source": source, "text": s, "constraint_verdict": True,
                                    "class": cls, "why": f"xml.etree: {ec[1]}"})
            else:
                failing.append({"formalization": "xml", "source": source, "text": s, "constraint_verdict": True,
                                "why": f"namespace/attribute rules: all shipped XML constraints hold, xml.etree: {ec[1]}"})
        elif (ev[0] and ev[1] and not ref[0]) or (ev[2] and not ref[1]):
            failing.append({"formalization": "xml", "source": source, "text": s, "constraint_verdict": True,
                            "why": "namespace/attribute rules: constraint verdict true, reference "
                                   + ("prefix-binding" if not ref[0] else "attribute-uniqueness") + " check fails"})

    seed_global(rng)
    texts = list(FIXED_TEXTS)
    for _ in range(140 if thorough else 40):
        s = gen_ns_text(rng)
        if len(s) <= 200:
            texts.append(s)
    for k, s in enumerate(texts):
        try:
            t = DerivationTree.from_parse_tree(next(parser.parse(s)))
        except SyntaxError as e:
            broken.append({"obligation": OBL_NTREE, "detail": {"text": s, "parser raised": repr(e)}})
            continue
        add("fixed" if k < len(FIXED_TEXTS) else "parser", t)
    fz = GrammarFuzzer(G, min_nonterminals=0, max_nonterminals=25)
    for _ in range(40 if thorough else 8):
        t = fz.fuzz_tree()
        if len(str(t)) <= 200:
            add("fuzzer", t)
    for t in solver_trees:
        if len(str(t)) <= 400:
            add("solver", t)

    def lit(c):
        src, t, s, ev, evs, ref = c
        return (f"({g_tree(t, with_ids=False)}, {g_str(s)}, ({g_bool(ev[0])}, {g_bool(ev[1])}, {g_bool(ev[2])}), "
                f"{g_events(evs)}, ({g_bool(ref[0])}, {g_bool(ref[1])}, {g_bool(ref[2])}))")
    lits = [lit(c) for c in cases]
    shards, cur, size, index = [], [], 0, []
    for lt in lits:
        if cur and (size + len(lt) > 600_000 or len(cur) >= 40):
            shards.append((NDIAG_DEF, cur)); cur, size = [], 0
        index.append((len(shards), len(cur)))
        cur.append(lt); size += len(lt)
    if cur:
        shards.append((NDIAG_DEF, cur))
    raws = sorted({gen_raw(rng) for _ in range(500 if thorough else 140)})
    try:
        bad, dt = lib.coq_run_shards("c21n", "Outcome XmlNs", NOK_DEF, shards)
        pos = {ix: k for k, ix in enumerate(index)}
        for b in bad[:8]:
            k = pos[b]
            src, t, s, ev, evs, ref = cases[k]
            out = lib.coq_eval(f"c21nd{k}", "XmlNs", f"ndiag {lits[k]}", extra_defs=NDIAG_DEF)
            vals = re.findall(r"\b(true|false)\b", out.split("=", 1)[-1].split(":")[0]) if "=" in out else []
            wrong = [i for i, x in enumerate(vals) if x == "false"] if len(vals) == len(NDIAG_NAMES) else []
            detail = {"source": src, "text": s, "evaluate_verdicts(tag,attr,noredef)": ev, "reference(bound,unique,reserved)": ref,
                      "xml.etree": (etree_class(s) or ("", "accepted"))[1],
                      "model_components_false": [NDIAG_NAMES[i] for i in wrong] or out[-400:]}
            for i in (wrong or [3]):
                broken.append({"obligation": NDIAG_OBL[i], "detail": detail})
        raw_cases = [f"({g_str(s)}, {g_events(py_xml_events(s))})" for s in raws]
        bad_raw, dt2 = lib.coq_mismatches("c21nr", "Outcome XmlNs", RAW_OK_DEF, raw_cases, shard=400,
                                          extra_defs=NDIAG_DEF)
        for k in bad_raw[:4]:
            broken.append({"obligation": OBL_NREADER, "detail": {"text": raws[k], "reference_events": py_xml_events(raws[k]),
                                                                 "note": "text outside the grammar's language"}})
        hist["raw_texts"] = len(raws)
        hist["raw_tag_sequences"] = sum(py_xml_events(s) is not None for s in raws)
        for s in raws:
            run.count(("xmlns-raw", s), "<" in s and ">" in s)
        run.cov["xmlns_coq_seconds"] = round(dt + dt2, 1)
        run.cov["xmlns_disagreements_checked"] = len(bad) + len(bad_raw)
    except RuntimeError as e:
        broken.append({"obligation": "XML namespace correspondence not evaluable (coqc failed on generated cases)",
                       "detail": str(e)[-2000:]})
    run.cov["xmlns_histogram"] = hist
    run.cov["xmlns_tie_seconds"] = round(time.time() - t0, 1)
