"""C09 — formula negation / normal-form rewrites: correspondence of Logic/Rewrite.v with
isla.language (Formula.__and__/__or__/__neg__/__eq__, convert_to_nnf, convert_to_dnf,
split_conjunction/disjunction, replace_formula, ensure_unique_bound_variables,
ISLaSolver.establish_invariant's dnf(nnf(f), deep=False)).

Tie 1 (model <-> code): the RESULT FORMULA of every rewrite, as canonical AST, on generated and
hand-built formulas, compared inside Coq (vm_compute) with the model's result.
Tie 2 (property-level search oracle): isla.evaluator.evaluate() before/after every rewrite
on closed trees; a changed verdict or an exception outside a recorded class is a failing input.
The theorems of Props/C09.v say that the model's rewrites preserve the verdict under EVERY
interpretation, so a result-formula disagreement is either a model error or a behaviour change."""
import json, os, random, re, time, itertools
from functools import reduce
import z3
import lib
from lib import g_str, g_bool
from isla import language as L
from isla.language import (SMTFormula, NegatedFormula, ConjunctiveFormula, DisjunctiveFormula,
                           ForallFormula, ExistsFormula, ForallIntFormula, ExistsIntFormula,
                           StructuralPredicateFormula, SemanticPredicateFormula, BindExpression,
                           BoundVariable, Constant, DummyVariable, Variable)
from isla.z3_helpers import z3_eq
from isla.derivation_tree import DerivationTree
from isla import isla_predicates as P
from isla.evaluator import evaluate

GRAMMAR = {
    "<start>": ["<seq>"],
    "<seq>": ["<item>", "<item><seq>"],
    "<item>": ["<a>", "<b>"],
    "<a>": ["a", "x"],
    "<b>": ["b", "y"],
}
TYPES = ["<seq>", "<item>", "<a>", "<b>"]
LITS = ["a", "b", "x", "y", "ab"]
NAMES = ["x", "y", "x_0", "z_1", "x_1"]
SPREDS = {p.name: p for p in P.STANDARD_STRUCTURAL_PREDICATES}
SEMPREDS = {p.name: p for p in P.STANDARD_SEMANTIC_PREDICATES}
START = Constant("start", "<start>")

OPS = ["neg", "and", "or", "nnf", "nnf_neg", "dnf_deep", "dnf_shallow", "invariant", "eq",
       "split_conj", "split_disj", "replace", "unique"]


# --------------------------------------------------------------------------
# generators
# --------------------------------------------------------------------------
def smt_eq(v, lit, neg=False):
    e = z3_eq(v.to_smt(), z3.StringVal(lit))
    return SMTFormula(z3.Not(e) if neg else e, v)


def pick(rng, scope):
    """variables bound last are preferred, so that most quantifiers use their variable"""
    if len(scope) > 1 and rng.random() < 0.6:
        return scope[-1]
    return rng.choice(scope)


def gen_atom(rng, scope):
    r = rng.random()
    if r < 0.06:
        return L.true() if rng.random() < 0.5 else L.false()
    if r < 0.62 or len(scope) < 2:
        return smt_eq(pick(rng, scope), rng.choice(LITS), rng.random() < 0.25)
    if r < 0.92:
        name = rng.choice(["before", "inside", "same_position", "different_position", "after"])
        a, b = pick(rng, scope), rng.choice(scope)
        return StructuralPredicateFormula(SPREDS[name], a, b)
    return SemanticPredicateFormula(SEMPREDS["count"], pick(rng, scope), rng.choice(["<a>", "<b>"]),
                                    rng.choice(["0", "1", "2"]))


def gen_formula(rng, depth, scope, style, ints=False, shadow=True):
    """closed-under-scope formula; style 'raw' = constructors (n-ary, un-simplified),
    'ops' = the &,|,- combinators, 'mix' = chosen per node; shadow=False: a quantifier never
    re-binds a name that is bound in an enclosing scope (sibling scopes may repeat names)"""
    st = style if style != "mix" else rng.choice(["raw", "ops"])
    r = rng.random()
    if depth <= 0 or r < 0.22:
        return gen_atom(rng, scope)
    if r < 0.36:
        g = gen_formula(rng, depth - 1, scope, style, ints, shadow)
        return NegatedFormula(g) if st == "raw" else -g
    if r < 0.74:
        n = rng.choice([2, 2, 2, 3, 3, 4])
        args = [gen_formula(rng, depth - 1, scope, style, ints, shadow) for _ in range(n)]
        if rng.random() < 0.15:
            args[rng.randrange(n)] = args[0]          # duplicates trigger the == shortcuts
        conj = r < 0.55
        if st == "raw":
            return (ConjunctiveFormula if conj else DisjunctiveFormula)(*args)
        return reduce((lambda a, b: a & b) if conj else (lambda a, b: a | b), args)
    if r < 0.95 or not ints:
        typ = rng.choice(TYPES)
        names = NAMES if shadow else ([n for n in NAMES if all(n != w.name for w in scope)] or ["w%d" % len(scope)])
        v = BoundVariable(rng.choice(names), typ)
        inv = rng.choice(scope)
        mexpr, extra = None, []
        if typ == "<seq>" and rng.random() < 0.5:
            iv = BoundVariable(rng.choice(names), "<item>")
            if iv.name != v.name:
                mexpr, extra = BindExpression(iv, "<seq>"), [iv]
        body = gen_formula(rng, depth - 1, scope + [v] + extra, style, ints, shadow)
        cls = ForallFormula if rng.random() < 0.5 else ExistsFormula
        return cls(v, inv, body, mexpr)
    v = BoundVariable(rng.choice(["n", "n_0"]), Variable.NUMERIC_NTYPE)
    body = gen_formula(rng, depth - 1, scope + [v], style, ints, shadow)
    return (ForallIntFormula if rng.random() < 0.5 else ExistsIntFormula)(v, body)


def renest(rng, f):
    """a formula equal to f modulo re-association of n-ary connectives (for __eq__)"""
    if isinstance(f, (ConjunctiveFormula, DisjunctiveFormula)):
        cls = type(f)
        args = [renest(rng, a) for a in (L.split_conjunction(f) if cls is ConjunctiveFormula else L.split_disjunction(f))]
        while len(args) > 2 and rng.random() < 0.7:
            i = rng.randrange(len(args) - 1)
            args[i:i + 2] = [cls(args[i], args[i + 1])]
        return cls(*args)
    if isinstance(f, NegatedFormula):
        return NegatedFormula(renest(rng, f.args[0]))
    if isinstance(f, ForallFormula):
        return ForallFormula(f.bound_variable, f.in_variable, renest(rng, f.inner_formula), f.bind_expression)
    if isinstance(f, ExistsFormula):
        return ExistsFormula(f.bound_variable, f.in_variable, renest(rng, f.inner_formula), f.bind_expression)
    return f


def hand_built():
    x, y, z = BoundVariable("x", "<item>"), BoundVariable("y", "<a>"), BoundVariable("x", "<a>")
    pa, pb, pc, pd = smt_eq(START, "a"), smt_eq(START, "b"), smt_eq(START, "x"), smt_eq(START, "y")
    A, O, N = ConjunctiveFormula, DisjunctiveFormula, NegatedFormula
    fa = lambda v, i, b, m=None: ForallFormula(v, i, b, m)
    ex = lambda v, i, b, m=None: ExistsFormula(v, i, b, m)
    qa, qb = smt_eq(x, "a"), smt_eq(x, "b")
    out = [
        A(pa, O(pb, pc), pd),                       # K_dnf_nary witness
        A(pa, pb, pc), A(O(pa, pb), O(pc, pd)), A(O(pa, pb), O(pc, pd), O(pa, pd)),
        A(A(pa, O(pb, pc)), pd), A(pa, A(O(pb, pc), pd)),
        O(A(pa, pb, O(pc, pd)), pa), O(pa, pb, pc, pd),
        A(fa(x, START, A(qa, O(qb, pa), pb)), O(pc, pd)),   # n-ary conj with disjunction in a quantifier body
        A(fa(x, START, N(A(qa, qb))), O(pc, pd)),           # un-negated quantifier body not in NNF
        fa(x, START, N(A(qa, qb))), fa(x, START, A(qa, O(qb, pa), pb)),
        N(fa(x, START, A(qa, O(qb, pa), pb))), N(N(pa)), N(A(pa, pb)), N(O(pa, N(pb))),
        N(N(N(A(pa, N(O(pb, pc)))))),
        A(O(O(pa, pa), pa), O(pa, O(pa, pa))), A(A(O(O(pa, pb), pc), O(pa, O(pb, pc))), O(pd, pb)),
        A(A(O(O(pa, pa), pa), O(pa, O(pa, pa))), O(pc, pd)),
        A(pa, N(pa)), O(pa, N(pa)), A(N(pa), pa), A(L.true(), pa), O(L.false(), pa), A(pa, L.false()),
        A(pa, smt_eq(START, "a", True)), O(O(pa, pb), O(pa, pb)), A(O(pa, pb), O(pb, pa)),
        # shadowing / repeated names for ensure_unique_bound_variables
        A(fa(x, START, fa(x, x, qa)), fa(x, START, qa)),
        A(fa(x, START, qa), fa(x, START, A(qb, fa(x, x, qa)))),
        A(fa(x, START, qa), fa(x, START, qa), fa(BoundVariable("x_0", "<item>"), START, smt_eq(BoundVariable("x_0", "<item>"), "a"))),
        fa(x, START, ex(z, x, A(smt_eq(z, "a"), fa(x, START, smt_eq(x, "b"))))),
        O(ex(x, START, qa), ex(x, START, qb)),
        A(ex(y, START, smt_eq(y, "a")), N(ex(y, START, smt_eq(y, "a")))),
        fa(BoundVariable("s", "<seq>"), START, smt_eq(x, "a"), BindExpression(x, "<seq>")),
        A(fa(BoundVariable("s", "<seq>"), START, smt_eq(x, "a"), BindExpression(x, "<seq>")),
          fa(BoundVariable("s", "<seq>"), START, smt_eq(x, "b"), BindExpression(x, "<seq>"))),
        StructuralPredicateFormula(SPREDS["before"], START, START),
        N(StructuralPredicateFormula(SPREDS["inside"], START, START)),
    ]
    return out


def parsed_formulas():
    srcs = [
        'forall <item> i in start: (i = "a" or not i = "b")',
        'forall <item> i in start: exists <a> j in i: (j = "a" and not (i = "x" or j = "x"))',
        'not (forall <item> i in start: (i = "a" and (i = "b" or i = "x") and i = "y"))',
        'exists <seq> s="{<item> i}<seq>" in start: (i = "a" implies s = "ab")',
        '(forall <a> a in start: a = "a") and (forall <a> a in start: a = "x" or exists <b> a in start: a = "b")',
        'forall <item> i in start: forall <item> j in start: (before(i, j) implies (i = "a" xor j = "b"))',
    ]
    import isla.bnf  # noqa
    out = []
    for s in srcs:
        try:
            out.append(L.parse_isla(s, GRAMMAR, P.STANDARD_STRUCTURAL_PREDICATES, P.STANDARD_SEMANTIC_PREDICATES))
        except Exception:
            pass
    return out


def gen_tree(rng):
    n = rng.randint(1, 4)

    def item():
        if rng.random() < 0.5:
            return DerivationTree("<item>", [DerivationTree("<a>", [DerivationTree(rng.choice("ax"), [])])])
        return DerivationTree("<item>", [DerivationTree("<b>", [DerivationTree(rng.choice("by"), [])])])

    def seq(k):
        if k == 1:
            return DerivationTree("<seq>", [item()])
        return DerivationTree("<seq>", [item(), seq(k - 1)])
    return DerivationTree("<start>", [seq(n)])


# --------------------------------------------------------------------------
# encoding python formula -> Gallina cform
# --------------------------------------------------------------------------
class Enc:
    """interns variables and strings as short Coq definitions"""

    def __init__(self):
        self.vars, self.strs = {}, {}

    def s(self, text):
        if text not in self.strs:
            self.strs[text] = f"s{len(self.strs)}"
        return self.strs[text]

    def v(self, var):
        kind = {Constant: "VConst", BoundVariable: "VBound", DummyVariable: "VDummy"}.get(type(var))
        if kind is None:
            raise ValueError(f"unsupported variable class {type(var).__name__}")
        key = (kind, var.name, var.n_type)
        if key not in self.vars:
            self.s(var.name), self.s(var.n_type)
            self.vars[key] = f"v{len(self.vars)}"
        return self.vars[key]

    def defs(self):
        out = [f"Definition {n} : str := {g_str(t)}." for t, n in self.strs.items()]
        out += [f"Definition {n} := MkVar {k} {self.strs[nm]} {self.strs[ty]}." for (k, nm, ty), n in self.vars.items()]
        return "\n".join(out) + "\n"

    def atom(self, f):
        e = f.formula
        if f.substitutions:
            raise ValueError("substitutions not encodable")
        if z3.is_true(e):
            return "CTrue"
        if z3.is_false(e):
            return "CFalse"
        neg = False
        if z3.is_not(e):
            neg, e = True, e.children()[0]
        if not z3.is_eq(e):
            raise ValueError(f"atom not encodable: {e}")
        a, b = e.children()
        if z3.is_string_value(a):
            a, b = b, a
        if not (z3.is_const(a) and z3.is_string_value(b) and a.decl().kind() == z3.Z3_OP_UNINTERPRETED):
            raise ValueError(f"atom not encodable: {e}")
        fv = [v for v in f.free_variables_ if v.name == str(a)]
        if len(fv) != 1:
            raise ValueError(f"free variables {f.free_variables_} do not match {a}")
        return f"(CEq {self.v(fv[0])} {self.s(b.as_string())} {g_bool(neg)})"

    def parg(self, a):
        if isinstance(a, Variable):
            return f"(PVar {self.v(a)})"
        if isinstance(a, str):
            return f"(PStr {self.s(a)})"
        if isinstance(a, int):
            return f"(PStr {self.s(str(a))})"
        raise ValueError("tree argument not encodable")

    def mexpr(self, m):
        if m is None:
            return "None"
        els = []
        for e in m.bound_elements:
            if isinstance(e, list):
                raise ValueError("optional match-expression group not encodable")
            els.append(self.v(e))
        return "(Some (MkMexpr [" + "; ".join(els) + "] []))"

    def f(self, f):
        if isinstance(f, SMTFormula):
            return f"(FSmt {self.atom(f)})"
        if isinstance(f, StructuralPredicateFormula):
            return f"(FSPred {self.s(f.predicate.name)} [" + "; ".join(self.parg(a) for a in f.args) + "])"
        if isinstance(f, SemanticPredicateFormula):
            return f"(FSemPred {self.s(f.predicate.name)} [" + "; ".join(self.parg(a) for a in f.args) + "])"
        if isinstance(f, NegatedFormula):
            return f"(FNot {self.f(f.args[0])})"
        if isinstance(f, ConjunctiveFormula):
            return "(FAnd [" + "; ".join(self.f(a) for a in f.args) + "])"
        if isinstance(f, DisjunctiveFormula):
            return "(FOr [" + "; ".join(self.f(a) for a in f.args) + "])"
        if isinstance(f, (ForallFormula, ExistsFormula)):
            c = "FForall" if isinstance(f, ForallFormula) else "FExists"
            if not isinstance(f.in_variable, Variable):
                raise ValueError("tree in_variable not encodable")
            return (f"({c} {self.v(f.bound_variable)} (InVar {self.v(f.in_variable)}) "
                    f"{self.mexpr(f.bind_expression)} {self.f(f.inner_formula)})")
        if isinstance(f, (ForallIntFormula, ExistsIntFormula)):
            c = "FForallInt" if isinstance(f, ForallIntFormula) else "FExistsInt"
            return f"({c} {self.v(f.bound_variable)} {self.f(f.inner_formula)})"
        raise ValueError(f"formula class {type(f).__name__} not encodable")


def outcome(enc, fn, conv):
    """run fn; Gallina `res cform` literal + python-side summary"""
    try:
        v = fn()
    except Exception as e:  # the outcome is the observable
        return f"(Raise {lib.exn_name(e)})", ("raise", type(e).__name__)
    return f"(Ok {conv(v)})", ("ok", v)


def impl_results(enc, f, g, h):
    """all rewrites on (f, g, h) through the public functions; list of res-literals (order = OPS)"""
    bool_lit = lambda b: "(FSmt CTrue)" if b else "(FSmt CFalse)"
    lst = lambda fs: "(FAnd [" + "; ".join(enc.f(x) for x in fs) + "])"
    calls = [
        (lambda: -f, enc.f), (lambda: f & g, enc.f), (lambda: f | g, enc.f),
        (lambda: L.convert_to_nnf(f), enc.f), (lambda: L.convert_to_nnf(f, True), enc.f),
        (lambda: L.convert_to_dnf(f), enc.f), (lambda: L.convert_to_dnf(f, deep=False), enc.f),
        (lambda: L.split_disjunction(L.convert_to_dnf(L.convert_to_nnf(f), deep=False)), lst),
        (lambda: f == g, bool_lit),
        (lambda: L.split_conjunction(f), lst), (lambda: L.split_disjunction(f), lst),
        (lambda: L.replace_formula(f, g, h), enc.f),
        (lambda: L.ensure_unique_bound_variables(f), enc.f),
    ]
    lits, summ = [], []
    for fn, conv in calls:
        l, s = outcome(enc, fn, conv)
        lits.append(l)
        summ.append(s)
    return lits, summ


OK_DEF_TMPL = """fun c : cform * cform * cform * list (res cform) =>
  let '(f, g, h, rs) := c in
  let b2f := fun b : bool => if b then FSmt CTrue else FSmt CFalse in
  let model := [ Ok (c_neg f); Ok (c_and f g); Ok (c_or f g); Ok (c_nnf f false); Ok (c_nnf f true);
                 c_dnf true f; c_dnf false f;
                 bind (c_invariant f) (fun l => Ok (FAnd l));
                 Ok (b2f (c_feqb f g)); Ok (FAnd (c_split_conj f)); Ok (FAnd (c_split_disj f));
                 Ok (c_replace f g h);
                 match c_unique f with Some u => Ok u | None => Raise OtherErr end ] in
  (fix all2 (a b : list (res cform)) : bool :=
     match a, b with
     | [], [] => true
     | x :: a', y :: b' => cres_eqb x y && all2 a' b'
     | _, _ => false
     end) model rs"""

DIAG_TMPL = """(map (fun c : cform * cform * cform * list (res cform) =>
  let '(f, g, h, rs) := c in
  let b2f := fun b : bool => if b then FSmt CTrue else FSmt CFalse in
  let model := [ Ok (c_neg f); Ok (c_and f g); Ok (c_or f g); Ok (c_nnf f false); Ok (c_nnf f true);
                 c_dnf true f; c_dnf false f;
                 bind (c_invariant f) (fun l => Ok (FAnd l));
                 Ok (b2f (c_feqb f g)); Ok (FAnd (c_split_conj f)); Ok (FAnd (c_split_disj f));
                 Ok (c_replace f g h);
                 match c_unique f with Some u => Ok u | None => Raise OtherErr end ] in
  (fix all2 (a b : list (res cform)) : list bool :=
     match a, b with
     | x :: a', y :: b' => cres_eqb x y :: all2 a' b'
     | _, _ => []
     end) model rs) cs)"""


# --------------------------------------------------------------------------
# known-finding classes: python mirrors of the Coq predicates of the same name
# (Logic/RewriteFacts.v: dsafe, K_dnf_not_nnf, K_shadow)
# --------------------------------------------------------------------------
def dsafe(f):
    if isinstance(f, NegatedFormula):
        return not isinstance(f.args[0], L.PropositionalCombinator)
    if isinstance(f, (ConjunctiveFormula, DisjunctiveFormula)):
        return all(dsafe(a) for a in f.args)
    if isinstance(f, (ForallFormula, ExistsFormula)):
        return dsafe(f.inner_formula)
    return True


def k_dnf_not_nnf(f):
    return not dsafe(f)


def k_shadow(f, bound=frozenset()):
    """some quantifier re-binds a NAME that is bound in an enclosing scope"""
    if isinstance(f, (NegatedFormula, ConjunctiveFormula, DisjunctiveFormula)):
        return any(k_shadow(a, bound) for a in f.args)
    if isinstance(f, (ForallFormula, ExistsFormula, ForallIntFormula, ExistsIntFormula)):
        own = {v.name for v in f.bound_variables()}
        return bool(own & bound) or k_shadow(f.inner_formula, bound | own)
    return False


def item_tree(chars):
    def item(c):
        return DerivationTree("<item>", [DerivationTree("<a>" if c in "ax" else "<b>", [DerivationTree(c, [])])])

    def seq(cs):
        return DerivationTree("<seq>", [item(cs[0])] + ([seq(cs[1:])] if len(cs) > 1 else []))
    return DerivationTree("<start>", [seq(chars)])


def still_present(key):
    """replay the recorded witness of an OPEN finding on the implementation"""
    x = BoundVariable("x", "<item>")
    pa, pb, pc, pd = (smt_eq(START, s) for s in "abxy")
    try:
        if key == "dnf-body-not-nnf":
            f = ConjunctiveFormula(ForallFormula(x, START, NegatedFormula(ConjunctiveFormula(smt_eq(x, "a"), smt_eq(x, "b")))),
                                   DisjunctiveFormula(pc, pd))
            try:
                L.convert_to_dnf(L.convert_to_nnf(f), deep=False)
                return False
            except AssertionError:
                return True
        if key == "unique-shadow":
            f = ForallFormula(x, START, ForallFormula(x, x, smt_eq(x, "a")))
            g = L.ensure_unique_bound_variables(f)
            inner = g.inner_formula
            return inner.in_variable == inner.bound_variable and inner.bound_variable != g.bound_variable
    except Exception:
        return False
    return False


def corpus_failures():
    """witnesses of the FIXED findings (dnf-nary: /repo 71bb9ab, vacuous-forall: /repo 0230f8f):
    they must pass; a regression is a failing input"""
    out = []
    pa, pb, pc, pd = (smt_eq(START, s) for s in "abxy")
    x = BoundVariable("x", "<item>")
    nary = ConjunctiveFormula(pa, DisjunctiveFormula(pb, pc), pd)
    for name, f, call in [
        ("dnf-nary", nary, lambda f: L.convert_to_dnf(f)),
        ("dnf-nary (shallow)", nary, lambda f: L.convert_to_dnf(f, deep=False)),
        ("dnf-nary (quantifier body, establish_invariant)",
         ConjunctiveFormula(ForallFormula(x, START, ConjunctiveFormula(smt_eq(x, "a"), DisjunctiveFormula(smt_eq(x, "b"), pa), pb)),
                            DisjunctiveFormula(pc, pd)),
         lambda f: L.convert_to_dnf(L.convert_to_nnf(f), deep=False)),
    ]:
        try:
            g = call(f)
        except Exception as e:
            out.append({"corpus": name, "f": str(f), "raised": type(e).__name__, "msg": str(e)[:200]})
            continue
        for chars in ["a", "b", "xy", "ya"]:
            t = item_tree(chars)
            if ev(f, t) != ev(g, t):
                out.append({"corpus": name, "f": str(f), "rewritten": str(g), "tree": chars,
                            "before": ev(f, t), "after": ev(g, t)})
    # vacuous universal quantifiers: a constraint and its negation must have opposite verdicts
    for src, neg, chars, expect in [
        ('forall <item> i in start: forall <b> s in i: i = "q"',
         'exists <item> i in start: exists <b> s in i: not i = "q"', "x", True),
        ('forall <item> i in start: forall <seq> s in i: i = "q"',
         'exists <item> i in start: exists <seq> s in i: not i = "q"', "ab", True),
    ]:
        t = item_tree(chars)
        a, b = ev(src, t), ev(neg, t)
        if a != ("ok", expect) or b != ("ok", not expect):
            out.append({"corpus": "vacuous-forall", "constraint": src, "negation": neg, "tree": chars,
                        "verdict": a, "verdict_negation": b})
    f = ForallFormula(BoundVariable("x_1", "<b>"), START,
                      ConjunctiveFormula(smt_eq(START, "x", True), smt_eq(BoundVariable("x_1", "<b>"), "a")))
    t = item_tree("x")
    a, b = ev(f, t), ev(-f, t)
    if a != ("ok", True) or b != ("ok", False):
        out.append({"corpus": "vacuous-forall (body simplifies to false)", "f": str(f), "tree": "x",
                    "verdict": a, "verdict_negation": b})
    return out


# --------------------------------------------------------------------------
# property-level oracle: evaluate() before / after
# --------------------------------------------------------------------------
def ev(f, t):
    try:
        r = evaluate(f, t, GRAMMAR)
        return ("ok", bool(r.is_true()) if not r.is_unknown() else None)
    except Exception as e:
        return ("raise", type(e).__name__)


def oracle_checks(f, g):
    """(rewrite name, thunk producing the rewritten formula, expected verdict from the base verdicts)"""
    return [
        ("neg", lambda: -f, lambda vf, vg: not vf),
        ("and", lambda: f & g, lambda vf, vg: vf and vg),
        ("or", lambda: f | g, lambda vf, vg: vf or vg),
        ("nnf", lambda: L.convert_to_nnf(f), lambda vf, vg: vf),
        ("nnf_neg", lambda: L.convert_to_nnf(f, True), lambda vf, vg: not vf),
        ("dnf_nnf", lambda: L.convert_to_dnf(L.convert_to_nnf(f)), lambda vf, vg: vf),
        ("dnf_shallow_nnf", lambda: L.convert_to_dnf(L.convert_to_nnf(f), deep=False), lambda vf, vg: vf),
        ("unique", lambda: L.ensure_unique_bound_variables(f), lambda vf, vg: vf),
        ("replace_self", lambda: L.replace_formula(f, g, g), lambda vf, vg: vf),
    ]


def has_numeric(f):
    return bool(L.FilterVisitor(lambda x: isinstance(x, L.NumericQuantifiedFormula)).collect(f))


def oracle(f, g, trees, known, stats):
    """evaluate() before/after every rewrite of (f, g) on the given closed trees.
    Returns the list of failing inputs that belong to no open known-finding class."""
    failing = []
    rewritten = []
    for name, thunk, expect in oracle_checks(f, g):
        try:
            rewritten.append((name, thunk(), expect))
        except RecursionError:
            stats["skipped_recursion"] += 1
        except Exception as e:  # "none of these rewrites raises on a well-formed constraint"
            nf = None
            try:
                nf = L.convert_to_nnf(f)
            except Exception:
                pass
            if isinstance(e, AssertionError) and name.startswith("dnf") and nf is not None and k_dnf_not_nnf(nf) \
                    and "dnf-body-not-nnf" in known:
                stats["known_dnf-body-not-nnf"] += 1
            else:
                failing.append({"rewrite": name, "f": str(f), "g": str(g), "raised": type(e).__name__,
                                "msg": str(e)[:200]})
    verdicts = set()
    for t in trees:
        vf, vg = ev(f, t), ev(g, t)
        stats["evaluate_calls"] += 2
        if vf[0] != "ok" or vg[0] != "ok" or vf[1] is None or vg[1] is None:
            stats["base_not_evaluable"] += 1
            continue
        verdicts.add(vf[1])
        for name, rw, expect in rewritten:
            vr = ev(rw, t)
            stats["evaluate_calls"] += 1
            if vr == ("ok", expect(vf[1], vg[1])):
                continue
            failing.append({"rewrite": name, "f": str(f), "g": str(g), "tree": str(t), "before": vf,
                            "before_g": vg, "after": vr, "rewritten": str(rw)})
    if len(verdicts) == 2:
        stats["nonconstant"] += 1
    return failing


def run(run):
    rng = random.Random(run.seed)
    thorough = run.tier == "thorough"
    run.cov["rule"] = (
        "formulas over the grammar <start>::=<seq>, <seq>::=<item>|<item><seq>, <item>::=<a>|<b>: random closed "
        "formulas (depth<=4; raw n-ary Conjunctive/DisjunctiveFormula of 2..4 arguments, raw NegatedFormula, the "
        "&,|,- combinators, tree quantifiers with and without match expressions, shadowed / repeated bound names, "
        "numeric quantifiers), hand-built n-ary/nested/shadowing cases and parser outputs; atoms are opaque SMT "
        "equations x==\"lit\" / Not(x==\"lit\") / true / false and structural/semantic predicate formulas. Each "
        "case = (f, g, h) on which ALL of neg, and, or, nnf, nnf(negate), dnf(deep), dnf(shallow), "
        "establish_invariant, ==, split_conjunction, split_disjunction, replace_formula, "
        "ensure_unique_bound_variables are run; result ASTs are compared with the model inside Coq. "
        "Property oracle: evaluate() before/after each rewrite on generated closed trees (formulas without "
        "name shadowing). non-trivial = f has a connective of arity >= 2 below a negation or a quantifier")
    proof_ok = run.proof_stage()

    # ---- known findings: replay each open entry's witness ----
    known = {}
    entries = {e["key"]: e for e in lib.known_findings("C09")}
    meta_file = os.path.join(lib.VERIF, "harness", "meta", "C09.findings.json")
    if os.path.exists(meta_file):          # source of known_findings.json (generated by gen_manifest.py)
        for e in json.load(open(meta_file)):
            entries.setdefault(e["key"], e)
    for e in entries.values():
        if e.get("status") != "open":
            continue
        if still_present(e["key"]):
            known[e["key"]] = e
            run.known(e["what"])
    run.cov["open_findings_still_present"] = sorted(known)

    # ---- 1. cases ----
    n_rand = 3000 if thorough else 450
    forms = [(f, "hand") for f in hand_built()] + [(f, "parsed") for f in parsed_formulas()]
    for i in range(n_rand):
        style = ["raw", "ops", "mix"][i % 3]
        forms.append((gen_formula(rng, rng.randint(1, 4), [START], style, ints=(i % 5 == 0),
                                  shadow=(i % 4 == 0)), style))
    run.cov["hand_built"] = sum(1 for _, s in forms if s == "hand")
    run.cov["parsed"] = sum(1 for _, s in forms if s == "parsed")

    def nontrivial(f, under=False):
        if isinstance(f, (ConjunctiveFormula, DisjunctiveFormula)):
            return under or any(nontrivial(a, under) for a in f.args)
        if isinstance(f, NegatedFormula):
            return nontrivial(f.args[0], True)
        if isinstance(f, (ForallFormula, ExistsFormula, ForallIntFormula, ExistsIntFormula)):
            return nontrivial(f.inner_formula, True)
        return False

    hist = {k: 0 for k in ["raise_ValueError", "raise_AssertionError", "raise_other", "ok"]}
    kinds = {}
    shards, smeta = [], []
    SH = 40
    cur_cases, cur_meta, enc = [], [], Enc()
    skipped = 0
    pool = [f for f, _ in forms]
    for idx, (f, style) in enumerate(forms):
        r = rng.random()
        if r < 0.2:
            g = f
        elif r < 0.35:
            g = renest(rng, f)
        elif r < 0.45:
            g = NegatedFormula(f)
        elif r < 0.55:
            g = -f
        elif r < 0.62:
            g = rng.choice([L.true(), L.false()])
        elif r < 0.8:
            subs = L.split_conjunction(f) + L.split_disjunction(f)
            g = rng.choice(subs)
        else:
            g = rng.choice(pool)
        h = rng.choice([L.true(), L.false(), rng.choice(pool), smt_eq(START, "zz")])
        try:
            lits, summ = impl_results(enc, f, g, h)
            case = f"({enc.f(f)}, {enc.f(g)}, {enc.f(h)}, [" + "; ".join(lits) + "])"
        except (ValueError, RecursionError):
            skipped += 1
            continue
        for sm in summ:
            if sm[0] == "raise":
                hist["raise_" + sm[1] if sm[1] in ("ValueError", "AssertionError") else "raise_other"] += 1
            else:
                hist["ok"] += 1
        kinds[type(f).__name__] = kinds.get(type(f).__name__, 0) + 1
        for op in OPS:
            run.count((str(f), str(g), op), nontrivial(f))
        cur_cases.append(case)
        cur_meta.append((f, g, h, summ, style))
        if len(cur_cases) >= SH:
            shards.append((enc.defs(), cur_cases)); smeta.append(cur_meta)
            cur_cases, cur_meta, enc = [], [], Enc()
    if cur_cases:
        shards.append((enc.defs(), cur_cases)); smeta.append(cur_meta)
    run.cov["cases"] = sum(len(c) for _, c in shards)
    run.cov["rewrites_compared"] = run.cov["cases"] * len(OPS)
    run.cov["skipped_not_encodable"] = skipped
    run.cov["outcome_histogram"] = hist
    run.cov["top_level_kind_histogram"] = kinds
    for k in range(min(3, len(smeta))):
        f, g, h, summ, style = smeta[k][min(3, len(smeta[k]) - 1)]
        run.sample({"f": str(f), "g": str(g), "style": style,
                    "nnf": str(summ[3][1]), "dnf": str(summ[5][1]), "eq": str(summ[8][1])})

    disagreements = []
    try:
        bad, dt = lib.coq_run_shards("c09", "Rewrite", OK_DEF_TMPL, shards)
        run.cov["coq_seconds"] = round(dt, 1)
        by_shard = {}
        for k, i in bad:
            by_shard.setdefault(k, []).append(i)
        for n_sh, (k, idxs) in enumerate(by_shard.items()):
            rows = []
            if n_sh < 4:
                defs, cases = shards[k]
                sel = [cases[i] for i in idxs[:8]]
                out = lib.coq_eval(f"c09diag{k}", "Rewrite", DIAG_TMPL,
                                   extra_defs=defs + "Definition cs := [\n" + ";\n".join(sel) + "\n].\n")
                body = out.split("=", 1)[-1]
                rows = [r for r in re.findall(r"\[((?:true|false|;|\s)+)\]", body)]
            for j, i in enumerate(idxs):
                f, g, h, summ, style = smeta[k][i]
                flags = [x.strip() == "true" for x in rows[j].split(";")] if j < len(rows) else []
                ops = [OPS[n] for n, ok in enumerate(flags) if not ok and n < len(OPS)] or ["?"]
                disagreements.append({"f": str(f), "g": str(g), "h": str(h), "ops": ops, "style": style,
                                      "impl": {op: str(summ[OPS.index(op)]) for op in ops if op in OPS}})
    except RuntimeError as e:
        run.violation({"kind": "correspondence-not-evaluable", "obligation": "Rewrite.v cases",
                       "error": str(e)[-2000:]}, found_input=False)

    # ---- 2. property-level oracle: evaluate() before/after ----
    t0 = time.time()
    budget = 600 if thorough else 40
    trees = [gen_tree(rng) for _ in range(12)]
    stats = {k: 0 for k in ["evaluate_calls", "base_not_evaluable", "nonconstant", "skipped_recursion",
                            "known_dnf-body-not-nnf",
                            "skipped_shadowing", "skipped_numeric", "formulas"]}
    failing = corpus_failures()
    run.cov["corpus_cases_failing"] = len(failing)
    flat_meta = [m for ms in smeta for m in ms]
    order = [m for m in flat_meta if m[4] in ("hand", "parsed")] + [m for m in flat_meta if m[4] not in ("hand", "parsed")]
    for (f, g, h, summ, style) in order:
        if time.time() - t0 > budget:
            break
        if has_numeric(f) or has_numeric(g):
            stats["skipped_numeric"] += 1
            continue
        if k_shadow(f) or k_shadow(g):
            # not well-formed for evaluate() (and the class of finding unique-shadow)
            stats["skipped_shadowing"] += 1
            continue
        stats["formulas"] += 1
        failing += oracle(f, g, rng.sample(trees, 3), known, stats)
    stats["seconds"] = round(time.time() - t0, 1)
    run.cov["oracle"] = stats
    run.cov["evaluations"] += stats["evaluate_calls"]

    # ---- 3. classify ----
    run.cov["disagreements_checked"] = len(disagreements)
    if failing:
        failing.sort(key=lambda d: len(json.dumps(d, default=str)))
        run.violation({"kind": "rewrite changes the verdict of evaluate() or raises", "witness": failing[0],
                       "all_failing": len(failing), "theorem": "Props/C09.v + correspondence",
                       "how_to_replay": "./check C09 --replay <this file>"})
    elif disagreements:
        run.violation({"kind": "correspondence broken; evaluate() verdicts before/after agree on all searched inputs",
                       "first": disagreements[0], "count": len(disagreements),
                       "obligation": "correspondence Rewrite.v <-> isla/language.py (" +
                                     ",".join(sorted({o for d in disagreements for o in d["ops"]})) + ")"},
                      found_input=False)
    if failing and disagreements:
        run.cov["first_disagreement"] = disagreements[0]
    if not proof_ok:
        run.violation({"kind": "proof obligation failed", "problems": run.proof_problems,
                       "obligation": "Props/C09.v"}, found_input=False)
    run.cov["trusted_base"] = lib.TRUSTED_BASE_COMMON + [
        "SMT atoms are opaque: z3 structural equality, is_true/is_false, z3_push_in_negations and z3 substitution enter "
        "the theorems as the premise atoms_sound (push_atom negates the denotation, equal atoms denote equally)",
        "encoder of isla formulas into the Gallina AST (harness/c09.py Enc); atoms restricted to x==\"lit\", its negation, true, false",
        "dict/FrozenOrderedSet membership modelled as strict structural equality (equal hash and ==)",
        "quantifiers of the specification range over finite lists of successor states"]


def replay(path):
    """re-evaluate a recorded failing input: the witness stores the formulas as text only, so the
    replay regenerates the run with the recorded seed/tier and reports whether it still fails"""
    d = json.load(open(path))
    w = d.get("witness")
    if not w:
        print("replay file names an obligation, not an input:", d.get("obligation"))
        return 1
    print(json.dumps(w, indent=1, default=str))
    r = lib.Run("C09", d.get("tier", "quick"), d.get("seed", 20260921))
    r.proof_stage = lambda: True
    r.proof_problems = []
    run(r)
    return 1 if r.violations else 0
